import Djc.Proofs.AList
import Djc.Model.Attrs
import Djc.Spec.Html
namespace Djc.Proofs.Attrs
open Djc.AList Djc.Model.Attrs
open Djc.Spec.Html hiding Str lowerAscii

/-! ### escaping -/

/-- the five characters `escape` rewrites -/
def isSpecial (c : Char) : Bool := c == '&' || c == '<' || c == '>' || c == '"' || c == '\''

theorem escChar_of_not_special {c : Char} (h : isSpecial c = false) : escChar c = [c] := by
  simp only [isSpecial, Bool.or_eq_false_iff, beq_eq_false_iff_ne] at h
  simp [escChar, h.1.1.1.1, h.1.1.1.2, h.1.1.2, h.1.2, h.2]

theorem decode_escape (s : Str) : decodeRefs (escape s) = s := by
  induction s with
  | nil => simp [escape, decodeRefs]
  | cons c cs ih =>
    by_cases h1 : c = '&'
    · subst h1; simp [escape, escChar, decodeRefs, ih]
    by_cases h2 : c = '<'
    · subst h2; simp [escape, escChar, decodeRefs, ih]
    by_cases h3 : c = '>'
    · subst h3; simp [escape, escChar, decodeRefs, ih]
    by_cases h4 : c = '"'
    · subst h4; simp [escape, escChar, decodeRefs, ih]
    by_cases h5 : c = '\''
    · subst h5; simp [escape, escChar, decodeRefs, ih]
    · have : escChar c = [c] := by simp [escChar, h1, h2, h3, h4, h5]
      simp only [escape, this, List.singleton_append]
      rw [decodeRefs.eq_6]
      · rw [ih]
      all_goals (intros; simp_all)

theorem mem_escChar {c d : Char} (h : d ∈ escChar c) :
    d = c ∨ d ∈ ("&amp;&lt;&gt;&quot;&#x27;".toList) := by
  unfold escChar at h
  split at h
  · right; revert h; revert d; decide
  · split at h
    · right; revert h; revert d; decide
    · split at h
      · right; revert h; revert d; decide
      · split at h
        · right; revert h; revert d; decide
        · split at h
          · right; revert h; revert d; decide
          · left; simpa using h

theorem escChar_no_raw (c d : Char) (hd : d = '"' ∨ d = '<' ∨ d = '>' ∨ d = '\'') : d ∉ escChar c := by
  intro h
  rcases mem_escChar h with h1 | h1
  · subst h1
    rcases hd with rfl | rfl | rfl | rfl <;> (revert h; decide)
  · rcases hd with rfl | rfl | rfl | rfl <;> (revert h1; decide)

/-- escaped text contains none of `" < > '` (so it cannot end a double-quoted attribute value,
nor open or close a tag). -/
theorem escape_no_raw (s : Str) (d : Char) (hd : d = '"' ∨ d = '<' ∨ d = '>' ∨ d = '\'') :
    d ∉ escape s := by
  induction s with
  | nil => simp [escape]
  | cons c cs ih =>
    simp only [escape, List.mem_append, not_or]
    exact ⟨escChar_no_raw c d hd, ih⟩

/-! ### attribute names -/

def NameChar (c : Char) : Bool :=
  !(isWs c || c == '/' || c == '>' || c == '=' || c == '"' || c == '\'' || c == '<' || c == '&' ||
    decide ('A' ≤ c ∧ c ≤ 'Z'))

def NameOK (k : Str) : Prop := k ≠ [] ∧ ∀ c ∈ k, NameChar c = true

structure NameCharFacts (c : Char) : Prop where
  ws : isWs c = false
  slash : (c == '/') = false
  gt : (c == '>') = false
  eq : (c == '=') = false
  lower : Djc.Spec.Html.lowerAscii c = c
  special : isSpecial c = false

theorem nameChar_facts {c : Char} (h : NameChar c = true) : NameCharFacts c := by
  simp only [NameChar, Bool.not_eq_true', Bool.or_eq_false_iff, decide_eq_false_iff_not] at h
  obtain ⟨⟨⟨⟨⟨⟨⟨⟨h1, h2⟩, h3⟩, h4⟩, h5⟩, h6⟩, h7⟩, h8⟩, h9⟩ := h
  refine ⟨h1, h2, h3, h4, ?_, ?_⟩
  · simp [Djc.Spec.Html.lowerAscii, h9]
  · simp [isSpecial, h8, h7, h3, h5, h6]

theorem escape_name {k : Str} (h : ∀ c ∈ k, NameChar c = true) : escape k = k := by
  induction k with
  | nil => rfl
  | cons c cs ih =>
    have hc := nameChar_facts (h c (by simp))
    simp [escape, escChar_of_not_special hc.special, ih (fun d hd => h d (by simp [hd]))]

/-! ### running the tokenizer over one rendered attribute -/

theorem run_append (p : P) (a b : Str) : run p (a ++ b) = run (run p a) b := by
  simp [run, List.foldl_append]

theorem run_cons (p : P) (c : Char) (s : Str) : run p (c :: s) = run (step p c) s := by
  simp [run]

theorem run_inName (k : Str) (hk : ∀ c ∈ k, NameChar c = true) :
    ∀ (n : Str) (out : List (Str × Option Str)),
      run { st := .inName n, out := out } k = { st := .inName (k.reverse ++ n), out := out } := by
  induction k with
  | nil => intro n out; simp [run]
  | cons c cs ih =>
    intro n out
    have hc := nameChar_facts (hk c (by simp))
    rw [run_cons]
    have : step { st := .inName n, out := out } c = { st := .inName (c :: n), out := out } := by
      simp [step, hc.ws, hc.slash, hc.gt, hc.eq, hc.lower]
    rw [this, ih (fun d hd => hk d (by simp [hd]))]
    simp

theorem run_dq (w : Str) (hw : '"' ∉ w) :
    ∀ (n v : Str) (out : List (Str × Option Str)),
      run { st := .dq n v, out := out } w = { st := .dq n (w.reverse ++ v), out := out } := by
  induction w with
  | nil => intro n v out; simp [run]
  | cons c cs ih =>
    intro n v out
    have hc : (c == '"') = false := by
      simp only [beq_eq_false_iff_ne]; exact fun e => hw (e ▸ List.mem_cons_self)
    rw [run_cons]
    have : step { st := .dq n v, out := out } c = { st := .dq n (c :: v), out := out } := by
      simp [step, hc]
    rw [this, ih (fun h => hw (List.mem_cons_of_mem _ h))]
    simp

/-- an attribute as it is written out: bare name, or name="escaped value" -/
def rend : Str × Option Str → Str
  | (k, none) => k
  | (k, some ev) => k ++ ('=' :: '"' :: (ev ++ ['"']))

/-- what the tokenizer should report for it -/
def emitted : Str × Option Str → Str × Option Str
  | (k, ov) => (k, ov.map decodeRefs)

def ItemOK (it : Str × Option Str) : Prop :=
  NameOK it.1 ∧ ∀ ev, it.2 = some ev → '"' ∉ ev

/-- tokenizer state right after an item (a bare name is still pending) -/
def endState (it : Str × Option Str) (out : List (Str × Option Str)) : P :=
  match it with
  | (k, none) => { st := .inName k.reverse, out := out }
  | (k, some ev) => { st := .afterQuoted, out := (k, some (decodeRefs ev)) :: out }

/-- after the first character of the name has been consumed -/
theorem run_tail (c : Char) (k' : Str) (ov : Option Str) (out : List (Str × Option Str))
    (hk : ∀ d ∈ k', NameChar d = true) (hv : ∀ ev, ov = some ev → '"' ∉ ev) :
    run { st := .inName [c], out := out } ((rend (c :: k', ov)).tail) = endState (c :: k', ov) out := by
  cases ov with
  | none =>
    simp only [rend, List.tail_cons, endState]
    rw [run_inName k' hk]; simp
  | some ev =>
    have hev := hv ev rfl
    simp only [rend, List.cons_append, List.tail_cons, endState]
    rw [run_append, run_inName k' hk, run_cons]
    have h1 : step { st := .inName (k'.reverse ++ [c]), out := out } '=' =
        { st := .beforeValue (k'.reverse ++ [c]), out := out } := by
      simp [step, isWs]
    rw [h1, run_cons]
    have h2 : step { st := .beforeValue (k'.reverse ++ [c]), out := out } '"' =
        { st := .dq (k'.reverse ++ [c]) [], out := out } := by
      simp [step, isWs]
    rw [h2, run_append, run_dq ev hev, run_cons]
    simp [step, emit, run]

theorem run_first (it : Str × Option Str) (hit : ItemOK it) (out : List (Str × Option Str)) :
    run { st := .beforeName, out := out } (rend it) = endState it out := by
  obtain ⟨k, ov⟩ := it
  obtain ⟨c, k', rfl⟩ : ∃ c k', k = c :: k' := by
    cases k with
    | nil => exact absurd rfl hit.1.1
    | cons c k' => exact ⟨c, k', rfl⟩
  have hc := nameChar_facts (hit.1.2 c (by simp))
  have hrend : rend (c :: k', ov) = c :: (rend (c :: k', ov)).tail := by
    cases ov <;> simp [rend]
  rw [hrend, run_cons]
  have : step { st := .beforeName, out := out } c = { st := .inName [c], out := out } := by
    simp [step, stepBeforeName, hc.ws, hc.slash, hc.gt, hc.lower]
  rw [this]
  exact run_tail c k' ov out (fun d hd => hit.1.2 d (by simp [hd])) hit.2

theorem run_next (prev it : Str × Option Str) (hit : ItemOK it) (out : List (Str × Option Str)) :
    run (endState prev out) (' ' :: rend it) = endState it (emitted prev :: out) := by
  obtain ⟨k, ov⟩ := it
  obtain ⟨c, k', rfl⟩ : ∃ c k', k = c :: k' := by
    cases k with
    | nil => exact absurd rfl hit.1.1
    | cons c k' => exact ⟨c, k', rfl⟩
  have hc := nameChar_facts (hit.1.2 c (by simp))
  have hrend : rend (c :: k', ov) = c :: (rend (c :: k', ov)).tail := by
    cases ov <;> simp [rend]
  rw [run_cons, hrend, run_cons]
  have : step (step (endState prev out) ' ') c = { st := .inName [c], out := emitted prev :: out } := by
    obtain ⟨k0, ov0⟩ := prev
    cases ov0 with
    | none =>
      have h1 : step (endState (k0, none) out) ' ' = { st := .afterName k0.reverse, out := out } := by
        simp [endState, step, isWs]
      rw [h1]
      simp [step, hc.ws, hc.slash, hc.gt, hc.eq, hc.lower, emit, emitted]
    | some ev0 =>
      have h1 : step (endState (k0, some ev0) out) ' ' =
          { st := .beforeName, out := (k0, some (decodeRefs ev0)) :: out } := by
        simp [endState, step, stepBeforeName, isWs]
      rw [h1]
      simp [step, stepBeforeName, hc.ws, hc.slash, hc.gt, hc.lower, emitted]
  rw [this]
  exact run_tail c k' ov _ (fun d hd => hit.1.2 d (by simp [hd])) hit.2

theorem finish_endState (it : Str × Option Str) (out : List (Str × Option Str)) :
    finish (endState it out) = out.reverse ++ [emitted it] := by
  obtain ⟨k, ov⟩ := it
  cases ov with
  | none => simp [endState, finish, emit, emitted]
  | some ev => simp [endState, finish, emitted]

/-- the rest of the joined string after the first item -/
def sepJoin : List (Str × Option Str) → Str
  | [] => []
  | it :: its => ' ' :: rend it ++ sepJoin its

theorem joinSp_map_rend (it : Str × Option Str) (its : List (Str × Option Str)) :
    joinSp ((it :: its).map rend) = rend it ++ sepJoin its := by
  induction its generalizing it with
  | nil => simp [joinSp, sepJoin]
  | cons x xs ih =>
    simp only [List.map_cons, joinSp, sepJoin] at ih ⊢
    rw [ih x]
    simp

theorem finish_run_sepJoin (its : List (Str × Option Str)) (hits : ∀ it ∈ its, ItemOK it) :
    ∀ (prev : Str × Option Str) (out : List (Str × Option Str)),
      finish (run (endState prev out) (sepJoin its)) =
        out.reverse ++ [emitted prev] ++ its.map emitted := by
  induction its with
  | nil => intro prev out; simp [sepJoin, run, finish_endState]
  | cons x xs ih =>
    intro prev out
    have hx := hits x (by simp)
    simp only [sepJoin]
    rw [show ' ' :: rend x ++ sepJoin xs = (' ' :: rend x) ++ sepJoin xs by simp, run_append,
      run_next prev x hx out, ih (fun it h => hits it (by simp [h]))]
    simp

theorem parse_items (items : List (Str × Option Str)) (h : ∀ it ∈ items, ItemOK it) :
    parseAttrs (joinSp (items.map rend)) = items.map emitted := by
  cases items with
  | nil => simp [joinSp, parseAttrs, run, finish]
  | cons it its =>
    rw [joinSp_map_rend, parseAttrs, run_append, run_first it (h it (by simp)),
      finish_run_sepJoin its (fun x hx => h x (by simp [hx]))]
    simp

/-! ### slot normalisation -/

theorem normalize_slot_stable (f : Bool) (v : SlotV) (hs : v.yield.safe = true ∨ v.escaped = true) :
    (normalize f (.slot v)).yield.text = v.yield.text ∧
    ((normalize f (.slot v)).yield.safe = true ∨ (normalize f (.slot v)).escaped = true) := by
  simp only [normalize]
  by_cases h1 : v.escaped = true ∧ v.named = true
  · rw [if_pos h1]
    exact ⟨rfl, Or.inr h1.1⟩
  · rw [if_neg h1]
    by_cases h2 : v.escaped = true
    · have : ¬ ¬ v.escaped = true := fun h => h h2
      rw [if_neg this]
      exact ⟨rfl, Or.inr rfl⟩
    · have hsafe : v.yield.safe = true := by
        rcases hs with h | h
        · exact h
        · exact absurd h h2
      rw [if_pos h2]
      refine ⟨?_, Or.inr rfl⟩
      cases f <;> simp [wrapY, condEscapeY, hsafe]

/-! ### the end-tag guard -/

theorem isPrefixCI_iff (needle s : Str) :
    isPrefixCI needle s = true ↔ ∃ mid post, s = mid ++ post ∧ mid.map lowerAscii = needle := by
  induction needle generalizing s with
  | nil =>
    simp only [isPrefixCI, true_iff]
    exact ⟨[], s, rfl, rfl⟩
  | cons p ps ih =>
    cases s with
    | nil =>
      simp only [isPrefixCI, Bool.false_eq_true, false_iff]
      rintro ⟨mid, post, h1, h2⟩
      have : mid = [] := by
        cases mid with
        | nil => rfl
        | cons a b => simp at h1
      subst this; simp at h2
    | cons c cs =>
      simp only [isPrefixCI, Bool.and_eq_true, beq_iff_eq, ih cs]
      constructor
      · rintro ⟨hc, mid, post, h1, h2⟩
        exact ⟨c :: mid, post, by simp [h1], by simp [hc, h2]⟩
      · rintro ⟨mid, post, h1, h2⟩
        cases mid with
        | nil => simp at h2
        | cons a b =>
          simp only [List.cons_append, List.cons.injEq] at h1
          simp only [List.map_cons, List.cons.injEq] at h2
          exact ⟨h1.1 ▸ h2.1, b, post, h1.2, h2.2⟩

theorem containsCI_iff (needle s : Str) (hn : needle ≠ []) :
    containsCI needle s = true ↔
      ∃ pre mid post, s = pre ++ mid ++ post ∧ mid.map lowerAscii = needle := by
  induction s with
  | nil =>
    simp only [containsCI]
    constructor
    · intro h; exact absurd (List.isEmpty_iff.mp h) hn
    · rintro ⟨pre, mid, post, h1, h2⟩
      have : mid = [] := by
        cases mid with
        | nil => rfl
        | cons a b => cases pre <;> simp at h1
      subst this; simp at h2; exact absurd (by first | exact h2 | exact h2.symm) hn
  | cons c cs ih =>
    simp only [containsCI, Bool.or_eq_true, isPrefixCI_iff, ih]
    constructor
    · rintro (⟨mid, post, h1, h2⟩ | ⟨pre, mid, post, h1, h2⟩)
      · exact ⟨[], mid, post, by simp [h1], h2⟩
      · exact ⟨c :: pre, mid, post, by simp [h1], h2⟩
    · rintro ⟨pre, mid, post, h1, h2⟩
      cases pre with
      | nil => exact Or.inl ⟨mid, post, by simpa using h1, h2⟩
      | cons a b =>
        simp only [List.cons_append, List.cons.injEq] at h1
        exact Or.inr ⟨b, mid, post, h1.2, h2⟩

theorem wrapWith_spec (needle op cl content : Str) (hn : needle ≠ []) :
    (wrapWith needle op cl content = none ↔
      ∃ pre mid post, content = pre ++ mid ++ post ∧ mid.map Djc.Model.Attrs.lowerAscii = needle) ∧
    (∀ out, wrapWith needle op cl content = some out → out = op ++ content ++ cl) := by
  have := containsCI_iff needle content hn
  unfold wrapWith
  constructor
  · rw [← this]
    cases containsCI needle content <;> simp
  · intro out h
    cases hc : containsCI needle content <;> simp [hc] at h
    rw [← h]; simp

theorem alookup_append (k : Str) (xs ys : List (Str × Val)) :
    alookup k (xs ++ ys) = match alookup k xs with
      | some v => some v
      | none => alookup k ys := by
  induction xs with
  | nil => simp [alookup]
  | cons p rest ih =>
    obtain ⟨k', v'⟩ := p
    by_cases e : k' = k <;> simp [alookup, e, ih]

theorem filterMap_congr' {α β : Type} (l : List α) (f g : α → Option β) (h : ∀ x ∈ l, f x = g x) :
    l.filterMap f = l.filterMap g := by
  induction l with
  | nil => rfl
  | cons x xs ih =>
    simp only [List.filterMap_cons, h x (by simp), ih (fun y hy => h y (by simp [hy]))]

end Djc.Proofs.Attrs
