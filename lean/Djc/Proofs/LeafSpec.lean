/-
  One leaf component: the model of the code and the reading of the properties print the same.
  Pieces: the reference interpreter reads a context only through the names a template can use
  (`pNodes_same`), more fuel does not change a result (`pNodes_mono`), the reading's component branch
  (`sNode_leaf`), and the two contexts the template is rendered in resolve every usable name alike.
-/
import Djc.Proofs.Leaf
namespace Djc.Proofs.LeafSpec
open Djc.Tpl Djc.Render Djc.Proofs.Plain Djc.Proofs.Calm Djc.Proofs.Leaf Djc.Proofs.Render

/-! ### the reference interpreter and the names a template can use -/

theorem pNodes_same (mx : Nat) : ∀ n,
    (∀ nodes a b st, plainL nodes = true → okNamesL nodes = true → SameVars a b → pNodes mx n nodes a st = pNodes mx n nodes b st) ∧
    (∀ x items i body a b st, plainL body = true → okNamesL body = true → SameVars a b →
      pFor mx n x items i body a st = pFor mx n x items i body b st) ∧
    (∀ nd a b st, plain nd = true → okNames nd = true → SameVars a b → pNode mx n nd a st = pNode mx n nd b st) := by
  intro n
  induction n with
  | zero =>
    refine ⟨?_, ?_, ?_⟩
    · intro nodes a b st _ _ _; simp only [pNodes]
    · intro x items i body a b st _ _ _; simp only [pFor]
    · intro nd a b st _ _ _; simp only [pNode]
  | succ n ih =>
    obtain ⟨ihN, ihF, ihD⟩ := ih
    refine ⟨?_, ?_, ?_⟩
    · intro nodes a b st hp ho hs
      cases nodes with
      | nil => simp only [pNodes]
      | cons nd rest =>
        simp only [plainL, okNamesL, Bool.and_eq_true] at hp ho
        simp only [pNodes, ihD nd a b st hp.1 ho.1 hs]
        congr 1
        funext t st1
        rw [ihN rest a b st1 hp.2 ho.2 hs]
    · intro x items i body a b st hp ho hs
      cases items with
      | nil => simp only [pFor]
      | cons item items =>
        simp only [pFor, forLayer_same a b x i item hs,
          ihN body (a ++ [forLayer b x i item]) (b ++ [forLayer b x i item]) st hp ho (sameVars_push a b _ hs)]
        congr 1
        funext t st1
        rw [ihF x items (i + 1) body a b st1 hp ho hs]
    · intro nd a b st hp ho hs
      unfold pNode
      by_cases hst : st ≥ mx
      · simp [hst]
      · simp only [hst, ↓reduceIte]
        cases nd with
        | text s => rfl
        | out e => simp only [okNames] at ho; simp only [evalExpr_same a b e hs ho]
        | ifn c t e =>
          simp only [plain, okNames, Bool.and_eq_true] at hp ho
          simp only [evalExpr_same a b c hs ho.1.1, ihN t a b _ hp.1 ho.1.2 hs, ihN e a b _ hp.2 ho.2 hs]
        | forn x e body =>
          simp only [plain, okNames, Bool.and_eq_true] at hp ho
          simp only [evalExpr_same a b e hs ho.1, ihF x _ 0 body a b _ hp ho.2 hs]
        | withn x e body =>
          simp only [plain, okNames, Bool.and_eq_true] at hp ho
          simp only [evalExpr_same a b e hs ho.1]
          exact ihN body _ _ _ hp ho.2 (sameVars_push a b _ hs)
        | elem tag body =>
          simp only [plain, okNames] at hp ho
          simp only [ihN body a b _ hp ho hs]
        | _ => simp [plain] at hp

/-! ### more fuel does not change a result -/

def notFuel (r : PR) : Prop := r.1 ≠ .error .outOfFuel

theorem pbind_mono (r1 r1' : PR) (g g' : List Tok → Nat → PR) (h1 : notFuel r1 → r1' = r1)
    (hg : ∀ a s, notFuel (g a s) → g' a s = g a s) (hn : notFuel (pbind r1 g)) : pbind r1' g' = pbind r1 g := by
  rcases r1 with ⟨r, s1⟩
  cases r with
  | error e =>
    have : notFuel (.error e, s1) := by simpa [pbind, notFuel] using hn
    rw [h1 this]; rfl
  | ok a =>
    rw [h1 (by simp [notFuel])]
    simp only [pbind] at hn ⊢
    exact hg a s1 hn

theorem pNodes_mono (mx : Nat) : ∀ n,
    (∀ nodes ctx st, notFuel (pNodes mx n nodes ctx st) → pNodes mx (n + 1) nodes ctx st = pNodes mx n nodes ctx st) ∧
    (∀ x items i body ctx st, notFuel (pFor mx n x items i body ctx st) →
      pFor mx (n + 1) x items i body ctx st = pFor mx n x items i body ctx st) ∧
    (∀ nd ctx st, notFuel (pNode mx n nd ctx st) → pNode mx (n + 1) nd ctx st = pNode mx n nd ctx st) := by
  intro n
  induction n with
  | zero =>
    refine ⟨?_, ?_, ?_⟩
    · intro nodes ctx st h; simp [pNodes, notFuel] at h
    · intro x items i body ctx st h; simp [pFor, notFuel] at h
    · intro nd ctx st h; simp [pNode, notFuel] at h
  | succ n ih =>
    obtain ⟨ihN, ihF, ihD⟩ := ih
    refine ⟨?_, ?_, ?_⟩
    · intro nodes ctx st h
      cases nodes with
      | nil => simp only [pNodes]
      | cons nd rest =>
        rw [pNodes, pNodes] at *
        refine pbind_mono _ _ _ _ (ihD nd ctx st) ?_ h
        intro a s1 h2
        refine pbind_mono _ _ _ _ (ihN rest ctx s1) ?_ h2
        intro b s2 _
        rfl
    · intro x items i body ctx st h
      cases items with
      | nil => simp only [pFor]
      | cons item items =>
        rw [pFor, pFor] at *
        refine pbind_mono _ _ _ _ (ihN body _ st) ?_ h
        intro a s1 h2
        refine pbind_mono _ _ _ _ (ihF x items (i + 1) body ctx s1) ?_ h2
        intro b s2 _
        rfl
    · intro nd ctx st h
      unfold pNode at h
      unfold pNode
      by_cases hst : st ≥ mx
      · simp [hst]
      · simp only [hst, ↓reduceIte] at h ⊢
        cases nd with
        | ifn c t e =>
          simp only at h ⊢
          split
          · rename_i hc; simp only [hc, ↓reduceIte] at h; exact ihN t ctx _ h
          · rename_i hc; simp only [hc, ↓reduceIte] at h; exact ihN e ctx _ h
        | forn x e body => exact ihF x _ 0 body ctx _ h
        | withn x e body => exact ihN body _ _ h
        | elem tag body =>
          simp only at h ⊢
          refine pbind_mono _ _ _ _ (ihN body ctx _) ?_ h
          intro a s1 _
          rfl
        | _ => rfl

theorem pNodes_mono_add (mx : Nat) (n k : Nat) (nodes : List Node) (ctx : Ctx) (st : Nat)
    (h : notFuel (pNodes mx n nodes ctx st)) : pNodes mx (n + k) nodes ctx st = pNodes mx n nodes ctx st := by
  induction k with
  | zero => rfl
  | succ k ih =>
    rw [← Nat.add_assoc, (pNodes_mono mx (n + k)).1 nodes ctx st (by rw [ih]; exact h), ih]

/-! ### the reading's component branch on a leaf component -/

open Djc.SpecRender

theorem dataOf_pure (id : Nat) (prov : List (Str × Layer)) (kw : List (Str × Val)) :
    ∀ (data : List (Str × Src)) (acc : Layer), data.all (fun kv => pureSrc kv.2) = true →
      dataOf id prov kw data acc = .ok (dataPure id kw data acc)
  | [], acc, _ => rfl
  | (out, src) :: rest, acc, h => by
    simp only [List.all_cons, Bool.and_eq_true] at h
    cases src with
    | inject k d => simp [pureSrc] at h
    | kwarg k => simp only [dataOf, dataPure, srcVal]; exact dataOf_pure id prov kw rest _ h.2
    | const v => simp only [dataOf, dataPure, srcVal]; exact dataOf_pure id prov kw rest _ h.2
    | selfId => simp only [dataOf, dataPure, srcVal]; exact dataOf_pure id prov kw rest _ h.2
    | side => simp only [dataOf, dataPure, srcVal]; exact dataOf_pure id prov kw rest _ h.2

/-- the variables the reading gives the component's template -/
def specVars (lexical : Bool) (vars : Ctx) (id : Nat) (kw : List (Str × Val)) (d : CompDef) : Ctx :=
  (if lexical then [[]] else vars) ++ [dataPure id kw d.data []] ++ [[(compVarsKey, compVarsOf [])]]

theorem srun_modify (f : SState → SState) (s : SState) : (modify f : S PUnit).run s = .ok (⟨⟩, f s) := rfl

theorem sNode_leaf (env : Env) (m : Nat) (name : Str) (kwargs : List (Str × Expr)) (only dyn : Bool)
    (e : SEnv) (s : SState) (d : CompDef) (toks : List Tok) (st : Nat)
    (hd : findDef env name = some d) (hdyn : isDynName name = false)
    (hp : plainL d.template = true) (hsrc : d.data.all (fun kv => pureSrc kv.2) = true)
    (hsteps : ¬ s.steps ≥ env.maxSteps) (hid : ¬ s.nextId > env.maxInst)
    (hc : ctxFree (specVars (only || env.isolated) e.vars s.nextId (evalKwargs e.vars kwargs) d) = true)
    (hok : pNodes env.maxSteps m d.template (specVars (only || env.isolated) e.vars s.nextId (evalKwargs e.vars kwargs) d)
      (s.steps + 1) = (.ok toks, st)) :
    ∃ s', (sNode env (m + 1) (.comp name kwargs only dyn []) e).run s =
      .ok (.marker name s.nextId :: addRootAttrs [idAttr s.nextId] toks, s') ∧ s'.steps = st := by
  unfold sNode
  simp only [srun_bind, srun_get, hsteps, ↓reduceIte, srun_set, hdyn, Bool.false_eq_true, srun_pure, hd, srun_modify,
    List.isEmpty_nil, List.all_nil, freshId, hid, dataOf_pure _ _ _ _ _ hsrc]
  have hsp := (spec_plain env m).1 d.template
    (SEnv.mk (specVars (only || env.isolated) e.vars s.nextId (evalKwargs e.vars kwargs) d) e.prov
      (some (Inst.mk s.nextId [] (List.length (if (only || env.isolated) = true then [[]] else e.vars)) (only || env.isolated))) [])
    { nextId := s.nextId + 1, defaults := s.defaults, nextRef := s.nextRef, cap := s.cap, path := s.path ++ [name], steps := s.steps + 1, paths := s.paths ++ [s.path ++ [name]] }
    hp hc
  have hv : ∀ (X : Ctx) p i dd, (SEnv.mk X p i dd).vars = X := fun _ _ _ _ => rfl
  rw [hv] at hsp
  unfold specVars at hsp hok
  rw [hsp, hok]
  exact ⟨_, rfl, rfl⟩

/-! ### the two contexts resolve every usable name alike -/

theorem snapshot_get (X : Ctx) (k : Str) (h1 : permKey ≠ k) (h2 : k ≠ rcRootKey) : ctxGet (snapshot X) k = ctxGet X k := by
  unfold snapshot
  rw [ctxGet_rebase _ _ h1]
  cases X with
  | nil => rfl
  | cons l0 rest =>
    simp only
    unfold ctxGet
    simp only [List.foldl_cons]
    rw [lookupL_filter_key k (fun key => decide (key ≠ rcRootKey)) l0 (by simpa using h2)]

theorem ne_of_internal (k k' : Str) (hk : internal k = false) (hk' : internal k' = true) : k' ≠ k := by
  intro e; subst e; rw [hk] at hk'; cases hk'

theorem leaf_sameVars (ctx' base : Ctx) (id : Nat) (kw : List (Str × Val)) (d : CompDef)
    (hbase : ∀ k, internal k = false → ctxGet ctx' k = ctxGet base k) :
    SameVars (leafCtx ctx' id kw d) (base ++ [dataPure id kw d.data []] ++ [[(compVarsKey, compVarsOf [])]]) := by
  intro k hk
  unfold leafCtx
  rw [snapshot_get _ _ (ne_of_internal k permKey hk (by decide)) (Ne.symm (ne_of_internal k rcRootKey hk (by decide)))]
  rw [ctxGet_append_one, ctxGet_append_one, ctxGet_append_one, ctxGet_append_one, hbase k hk]
  have hck : ¬ compKey = k := ne_of_internal k compKey hk (by decide)
  simp only [lookupL, hck, ↓reduceIte]
  rfl

/-! ### one leaf component: the model of the code and the reading print the same -/

theorem leaf_component_model_eq_spec (env : Env) (i : Nat) (name : Str) (kwargs : List (Str × Expr)) (only dyn : Bool)
    (ctx ctx' : Ctx) (w : World) (e : SEnv) (s : SState) (d : CompDef) (toks : List Tok) (st : Nat)
    (hctx' : ctx' = if only || env.isolated then isolatedCopy ctx else ctx)
    (hr : env.raiseAt = none) (hd : findDef env name = some d) (hdyn : isDynName name = false)
    (hp : plainL d.template = true) (ho : okNamesL d.template = true)
    (hsrc : d.data.all (fun kv => pureSrc kv.2) = true)
    (hsteps : ¬ w.steps ≥ env.maxSteps) (hgcd : w.gcds < env.maxInst) (hext : isExtracting ctx = false)
    (hpar : ∀ p, ctxGet ctx' compKey ≠ some (.compRef p)) (hprov : w.provideCache = [])
    (hf1 : alGet w.nextId w.ctxCache = none) (hf2 : alGet w.nextId w.rendererCache = none)
    (hf3 : alGet w.nextId w.childAttrs = none) (hf4 : w.allRefIds.contains w.nextId = false)
    (hc : ctxFree (leafCtx ctx' w.nextId (evalKwargs ctx kwargs) d) = true)
    (hok : pNodes env.maxSteps (i + 1) d.template (leafCtx ctx' w.nextId (evalKwargs ctx kwargs) d) (w.steps + 1) = (.ok toks, st))
    -- the reading starts from the same variables, the same id and the same step count
    (he : e.vars = ctx) (hsid : s.nextId = w.nextId) (hss : s.steps = w.steps) (hidle : ¬ s.nextId > env.maxInst)
    (hc2 : ctxFree (specVars (only || env.isolated) ctx w.nextId (evalKwargs ctx kwargs) d) = true)
    -- what the isolated copy (or, in django mode, the context itself) shows of the usable names
    (hbase : ∀ k, internal k = false → ctxGet ctx' k = ctxGet (if only || env.isolated then [[]] else ctx) k) :
    ((renderNode env (i + 6) (.comp name kwargs only dyn []) ctx).run.run w).1 =
        .ok (.marker name w.nextId :: addRootAttrs [idAttr w.nextId] toks) ∧
      ∃ s', (sNode env (i + 6) (.comp name kwargs only dyn []) e).run s =
        .ok (.marker name w.nextId :: addRootAttrs [idAttr w.nextId] toks, s') ∧
        s'.steps = ((renderNode env (i + 6) (.comp name kwargs only dyn []) ctx).run.run w).2.steps := by
  rw [leaf_component env i name kwargs only dyn ctx ctx' w d toks st hctx' hr hd hdyn hp hsrc hsteps hgcd hext hpar hprov
    hf1 hf2 hf3 hf4 hc hok]
  refine ⟨rfl, ?_⟩
  subst he
  have hsame := leaf_sameVars ctx' (if only || env.isolated then [[]] else e.vars) w.nextId (evalKwargs e.vars kwargs) d hbase
  have h1 : pNodes env.maxSteps (i + 1) d.template (specVars (only || env.isolated) e.vars w.nextId (evalKwargs e.vars kwargs) d)
      (w.steps + 1) = (.ok toks, st) := by
    rw [← hok]
    exact ((pNodes_same env.maxSteps (i + 1)).1 d.template _ _ _ hp ho hsame).symm
  have h2 : pNodes env.maxSteps (i + 1 + 4) d.template (specVars (only || env.isolated) e.vars w.nextId (evalKwargs e.vars kwargs) d)
      (w.steps + 1) = (.ok toks, st) := by
    rw [pNodes_mono_add _ _ _ _ _ _ (by rw [h1]; simp [notFuel]), h1]
  rw [← hsid, ← hss] at h2
  rw [← hsid] at hc2
  obtain ⟨s', hs', hst⟩ := sNode_leaf env (i + 5) name kwargs only dyn e s d toks st hd hdyn hp hsrc (by rw [hss]; exact hsteps) hidle hc2 h2
  rw [← hsid]
  exact ⟨s', hs', hst⟩

end Djc.Proofs.LeafSpec
