import Djc.Model.TagParser
namespace Djc.Proofs.TagParser
open Djc.Model.TagParser

/-! ### scanners only move forward -/

theorem dropWhile_le (p : Char → Bool) (s : Str) : (s.dropWhile p).length ≤ s.length := by
  induction s with
  | nil => simp
  | cons c cs ih =>
    simp only [List.dropWhile]
    split
    · simp; omega
    · simp

theorem takeUntil_le (stops : List Str) (s : Str) : (takeUntil stops s).2.length ≤ s.length := by
  induction s with
  | nil => simp [takeUntil]
  | cons c cs ih =>
    simp only [takeUntil]
    split
    · simp
    · simp; omega

theorem takeUntil_progress (stops : List Str) (c : Char) (cs : Str)
    (h : nextIsAny stops (c :: cs) = false) : (takeUntil stops (c :: cs)).2.length < (c :: cs).length := by
  simp only [takeUntil, h, Bool.false_eq_true, if_false]
  have := takeUntil_le stops cs
  simp; omega

theorem takeUntilQ_le (q : Char) (s : Str) : ∀ b, (takeUntilQ q b s).2.length ≤ s.length := by
  induction s with
  | nil => intro b; cases b <;> simp [takeUntilQ]
  | cons c cs ih =>
    intro b
    cases b with
    | true => simp only [takeUntilQ]; have := ih false; simp; omega
    | false =>
      simp only [takeUntilQ]
      split
      · have := ih true; simp; omega
      · split
        · simp
        · have := ih false; simp; omega

theorem extractSpread_le (kind : Kind) (key : Option Str) (hf : Bool) (s : Str) (sp : Option Str)
    (s1 : Str) (h : extractSpread kind key hf s = .ok (sp, s1)) :
    s1.length ≤ s.length ∧ (sp.isSome = true → s1.length < s.length) ∧ (sp = none → s1 = s) := by
  unfold extractSpread at h
  -- the token decision
  generalize htok : (if nextIs "...".toList s = true then
        if kind ≠ Kind.simple then (Except.error (Err.tse "spread ... in container") : Except Err (Option Str))
        else Except.ok (some "...".toList)
      else if nextIs "**".toList s = true then
        if kind ≠ Kind.dict then Except.error (Err.tse "spread ** outside dict")
        else Except.ok (some "**".toList)
      else if nextIs "*".toList s = true then
        if kind ≠ Kind.list then Except.error (Err.tse "spread * outside list")
        else Except.ok (some "*".toList)
      else Except.ok none) = tok at h
  cases tok with
  | error e => simp at h
  | ok t =>
    cases t with
    | none =>
      simp at h
      obtain ⟨rfl, rfl⟩ := h
      exact ⟨Nat.le_refl _, by simp, fun _ => rfl⟩
    | some tk =>
      -- tk is one of the three tokens and a prefix of s
      have hpre : tk.isPrefixOf s = true ∧ 0 < tk.length := by
        split at htok
        · rename_i h1
          split at htok
          · cases htok
          · cases htok; exact ⟨h1, by decide⟩
        · split at htok
          · rename_i h2
            split at htok
            · cases htok
            · cases htok; exact ⟨h2, by decide⟩
          · split at htok
            · rename_i h3
              split at htok
              · cases htok
              · cases htok; exact ⟨h3, by decide⟩
            · cases htok
      have hlen : tk.length ≤ s.length := (List.isPrefixOf_iff_prefix.mp hpre.1).length_le
      simp only at h
      by_cases h1 : hf = true
      · simp [h1] at h
      · simp only [h1, Bool.false_eq_true, if_false] at h
        by_cases h2 : kind = Kind.simple ∧ key.isSome = true
        · simp [h2] at h
        · simp only [h2, if_false] at h
          by_cases h3 : tk ≠ "...".toList
          · simp only [h3, ne_eq, not_false_eq_true, if_true] at h
            simp at h
            obtain ⟨rfl, rfl⟩ := h
            have := dropWhile_le isWs (s.drop tk.length)
            simp at this
            refine ⟨by omega, fun _ => by omega, fun e => by cases e⟩
          · simp only [h3, if_false] at h
            by_cases h4 : ((s.drop tk.length).isEmpty || headIsWs (s.drop tk.length)) = true
            · simp [h4] at h
            · simp only [h4, Bool.false_eq_true, if_false] at h
              simp at h
              obtain ⟨rfl, rfl⟩ := h
              refine ⟨by simp, fun _ => by simp; omega, fun e => by cases e⟩

theorem parseValueText_le (term : List Char) (s1 : Str) (value : Str) (quoted : Option Char)
    (isTrans : Bool) (s6 : Str) (h : parseValueText term s1 = .ok (value, quoted, isTrans, s6)) :
    s6.length ≤ s1.length := by
  unfold parseValueText at h
  by_cases hstr : nextIsAny ["'".toList, "\"".toList, "_(".toList] s1 = true
  · simp only [hstr, if_true] at h
    generalize hs2 : (if nextIs "_(".toList s1 = true then (s1.drop 2).dropWhile isWs else s1) = s2 at h
    have hs2le : s2.length ≤ s1.length := by
      rw [← hs2]
      split
      · have := dropWhile_le isWs (s1.drop 2); simp at this; omega
      · exact Nat.le_refl _
    cases s2 with
    | nil => simp at h
    | cons q s3 =>
      simp only at h
      have hq := takeUntilQ_le q s3 false
      cases hb : (takeUntilQ q false s3).2 with
      | nil =>
        simp only [hb] at h
        simp at h
        obtain ⟨_, _, _, rfl⟩ := h
        simp
      | cons q' s4 =>
        simp only [hb] at h
        rw [hb] at hq
        by_cases hqq : q' = q
        · simp only [hqq, if_true] at h
          simp at h
          obtain ⟨_, _, _, rfl⟩ := h
          split
          · have := dropWhile_le isWs s4
            simp at hq hs2le ⊢; omega
          · simp at hq hs2le ⊢; omega
        · simp only [hqq, if_false] at h
          simp at h
          obtain ⟨_, _, _, rfl⟩ := h
          simp at hq hs2le ⊢; omega
  · simp only [hstr, Bool.false_eq_true, if_false] at h
    simp at h
    obtain ⟨_, _, _, rfl⟩ := h
    exact takeUntil_le _ _

/-- the first part of a value consumes at least one character when the text does not start with
white space, a filter character or a terminal token of the container -/
theorem parseValueText_progress (term : List Char) (c : Char) (cs : Str) (value : Str)
    (quoted : Option Char) (isTrans : Bool) (s6 : Str)
    (hstop : nextIsAny (wsToks ++ filterToks ++ term.map (fun c => [c])) (c :: cs) = false)
    (h : parseValueText term (c :: cs) = .ok (value, quoted, isTrans, s6)) :
    s6.length < (c :: cs).length := by
  unfold parseValueText at h
  by_cases hstr : nextIsAny ["'".toList, "\"".toList, "_(".toList] (c :: cs) = true
  · simp only [hstr, if_true] at h
    by_cases htr : nextIs "_(".toList (c :: cs) = true
    · simp only [htr, if_true] at h
      -- two characters are consumed before anything else
      have h2 : ((c :: cs).drop 2).length + 2 ≤ (c :: cs).length := by
        have := List.isPrefixOf_iff_prefix.mp htr
        have := this.length_le
        simp at this ⊢; omega
      generalize hs2 : ((c :: cs).drop 2).dropWhile isWs = s2 at h
      have hs2le : s2.length ≤ ((c :: cs).drop 2).length := by rw [← hs2]; exact dropWhile_le _ _
      cases s2 with
      | nil => simp at h
      | cons q s3 =>
        simp only at h
        have hq := takeUntilQ_le q s3 false
        cases hb : (takeUntilQ q false s3).2 with
        | nil =>
          simp only [hb] at h; simp at h
          obtain ⟨_, _, _, rfl⟩ := h
          simp
        | cons q' s4 =>
          simp only [hb] at h
          rw [hb] at hq
          by_cases hqq : q' = q
          · simp only [hqq, if_true] at h; simp at h
            obtain ⟨_, _, _, rfl⟩ := h
            have := dropWhile_le isWs s4
            simp at hq hs2le h2 ⊢; omega
          · simp only [hqq, if_false] at h; simp at h
            obtain ⟨_, _, _, rfl⟩ := h
            simp at hq hs2le h2 ⊢; omega
    · simp only [htr, Bool.false_eq_true, if_false] at h
      have hq := takeUntilQ_le c cs false
      cases hb : (takeUntilQ c false cs).2 with
      | nil =>
        simp only [hb] at h; simp at h
        obtain ⟨_, _, _, rfl⟩ := h
        simp
      | cons q' s4 =>
        simp only [hb] at h
        rw [hb] at hq
        by_cases hqq : q' = c
        · simp only [hqq, if_true] at h; simp at h
          obtain ⟨_, _, _, rfl⟩ := h
          simp at hq ⊢; omega
        · simp only [hqq, if_false] at h; simp at h
          obtain ⟨_, _, _, rfl⟩ := h
          simp at hq ⊢; omega
  · simp only [hstr, Bool.false_eq_true, if_false] at h
    simp at h
    obtain ⟨_, _, _, rfl⟩ := h
    exact takeUntil_progress _ c cs hstop

theorem parsePart_le (curr : Frame) (key : Option Str) (ft : Option Char) (s : Str)
    (p : Part) (s' : Str) (t : Bool) (h : parsePart curr key ft s = .ok (p, s', t)) :
    s'.length ≤ s.length ∧
    (∀ c cs sp s1, extractSpread curr.kind key ft.isSome s = .ok (sp, s1) →
      (sp.isSome = true ∨ (s1 = c :: cs ∧
        nextIsAny (wsToks ++ filterToks ++ (terminals curr).map (fun c => [c])) (c :: cs) = false)) →
      s'.length < s.length) := by
  unfold parsePart at h
  cases he : extractSpread curr.kind key ft.isSome s with
  | error e => simp [he] at h
  | ok r =>
    obtain ⟨sp, s1⟩ := r
    have hes := extractSpread_le _ _ _ _ _ _ he
    simp only [he] at h
    by_cases hd : curr.kind = Kind.dict ∧ (!curr.expectsKey) = true ∧ sp.isSome = true
    · simp [hd] at h
    · simp only [hd, if_false] at h
      cases hv : parseValueText (terminals curr) s1 with
      | error e => simp [hv] at h
      | ok v =>
        obtain ⟨value, quoted, isTrans, s6⟩ := v
        have hs6 := parseValueText_le _ _ _ _ _ _ hv
        simp only [hv] at h
        by_cases c1 : isTrans = true ∧ quoted.isNone = true
        · simp [c1] at h
        · simp only [c1, if_false] at h
          by_cases c2 : isTrans = true ∧ sp.isSome = true
          · simp [c2] at h
          · simp only [c2, if_false] at h
            by_cases c3 : sp.isSome = true ∧ ft.isSome = true
            · simp [c3] at h
            · simp only [c3, if_false] at h
              simp at h
              obtain ⟨_, rfl, _⟩ := h
              have hdw := dropWhile_le isWs s6
              refine ⟨by omega, ?_⟩
              intro c cs sp' s1' hes' hor
              simp at hes'
              obtain ⟨rfl, rfl⟩ := hes'
              rcases hor with hsome | ⟨hs1, hstop⟩
              · have := hes.2.1 hsome; omega
              · subst hs1
                have := parseValueText_progress _ c cs _ _ _ _ hstop hv
                omega

/-! ### the measure -/

def rank : Phase → Nat
  | .struct _ _ _ => 0
  | .attr => 1
  | .parts _ _ _ _ _ => 2

/-- four units per remaining character, plus the rank of the loop we are in -/
def mu (st : St) : Nat := 4 * st.rest.length + rank st.phase

theorem dictCheck_le (curr : Frame) (fs : Bool) (rest rest' : Str)
    (h : dictCheck curr fs rest = .ok rest') : rest'.length ≤ rest.length := by
  have hd := dropWhile_le isWs rest
  unfold dictCheck at h
  by_cases h1 : curr.kind = Kind.dict
  · simp only [h1, if_true] at h
    by_cases h2 : fs = true
    · simp only [h2, if_true] at h
      by_cases h3 : (!curr.expectsKey) = true
      · simp [h3] at h
      · simp only [h3, Bool.false_eq_true, if_false] at h
        by_cases h4 : nextIs colonTok (rest.dropWhile isWs) = true
        · simp [h4] at h
        · simp only [h4, Bool.false_eq_true, if_false] at h
          cases h; exact hd
    · simp only [h2, Bool.false_eq_true, if_false] at h
      by_cases h3 : curr.expectsKey = true
      · simp only [h3, if_true] at h
        by_cases h4 : (!nextIs colonTok (rest.dropWhile isWs)) = true
        · simp [h4] at h
        · simp only [h4, Bool.false_eq_true, if_false] at h
          cases h; exact hd
      · simp only [h3, Bool.false_eq_true, if_false] at h
        cases h; exact Nat.le_refl _
  · simp only [h1, if_false] at h
    cases h; exact Nat.le_refl _

theorem finishValue_next (st : List Attr) (key : Option Str) (idx : Nat) (stack : List Frame) (curr : Frame)
    (parts : List Part) (rest norm : Str) (st' : St)
    (h : finishValue st key idx stack curr parts rest norm = .next st') :
    st'.rest.length ≤ rest.length ∧ rank st'.phase ≤ 1 := by
  unfold finishValue at h
  cases hc : dictCheck curr (firstSpreadOf parts) rest with
  | error e => rw [hc] at h; cases h
  | ok rest' =>
    have hle := dictCheck_le _ _ _ _ hc
    rw [hc] at h
    simp only at h
    by_cases hk : curr.kind = Kind.simple
    · simp only [hk, if_true] at h
      cases h; exact ⟨hle, by simp [rank]⟩
    · simp only [hk, if_false] at h
      cases h; exact ⟨hle, by simp [rank]⟩

theorem afterClose_next (st : List Attr) (key : Option Str) (idx : Nat) (rest norm : Str) (stack : List Frame)
    (st' : St) (h : afterClose st key idx rest norm stack = .next st') :
    st'.rest = rest ∧ rank st'.phase ≤ 1 := by
  unfold afterClose at h
  split at h
  · split at h
    · simp at h; subst h; exact ⟨rfl, by simp [rank]⟩
    · simp at h; subst h; exact ⟨rfl, by simp [rank]⟩
  · simp at h; subst h; exact ⟨rfl, by simp [rank]⟩

theorem nextIs_cons_length {tok s : Str} (h : nextIs tok s = true) (ht : tok ≠ []) : 0 < s.length := by
  have := (List.isPrefixOf_iff_prefix.mp h).length_le
  have : 0 < tok.length := List.length_pos_iff.mpr ht
  omega

theorem nextIsAny_nonempty {toks : List Str} {s : Str} (h : nextIsAny toks s = true)
    (hne : ∀ t, t ∈ toks → t ≠ []) : 0 < s.length := by
  simp only [nextIsAny, List.any_eq_true] at h
  obtain ⟨t, ht, hp⟩ := h
  exact nextIs_cons_length hp (hne t ht)

theorem head_dropWhile_not (p : Char → Bool) (s : Str) (c : Char) (cs : Str)
    (h : s.dropWhile p = c :: cs) : p c = false := by
  induction s with
  | nil => simp at h
  | cons x xs ih =>
    simp only [List.dropWhile] at h
    split at h
    · exact ih h
    · rename_i hx
      cases h
      simpa using hx

theorem char_beq_comm (a b : Char) : (a == b) = (b == a) := by
  rw [Bool.eq_iff_iff]
  simp only [beq_iff_eq]
  exact ⟨Eq.symm, Eq.symm⟩

theorem nextIsAny_append (a b : List Str) (s : Str) :
    nextIsAny (a ++ b) s = (nextIsAny a s || nextIsAny b s) := by
  simp [nextIsAny, List.any_append]

theorem nextIsAny_chars (term : List Char) (c : Char) (cs : Str) :
    nextIsAny (term.map (fun x => [x])) (c :: cs) = term.contains c := by
  induction term with
  | nil => simp [nextIsAny]
  | cons t ts ih =>
    have h1 : nextIsAny ((t :: ts).map (fun x => [x])) (c :: cs)
        = ((t == c) || nextIsAny (ts.map (fun x => [x])) (c :: cs)) := by
      simp [nextIsAny, List.isPrefixOf]
    rw [h1, ih, List.contains_cons, char_beq_comm]

theorem nextIsAny_ws (c : Char) (cs : Str) : nextIsAny wsToks (c :: cs) = isWs c := by
  unfold wsToks isWs
  exact nextIsAny_chars wsChars c cs

theorem terminals_sub (f : Frame) (c : Char) (h : (terminals f).contains c = true) :
    c = ':' ∨ c = ',' ∨ c = '}' ∨ c = ']' := by
  cases hk : f.kind with
  | simple => simp [terminals, hk] at h
  | list => simp [terminals, hk] at h; rcases h with h | h <;> simp [h]
  | dict =>
    by_cases he : f.expectsKey = true
    · simp [terminals, hk, he] at h; rcases h with h | h | h <;> simp [h]
    · simp [terminals, hk, he] at h; rcases h with h | h <;> simp [h]

theorem nextIs_single (x c : Char) (cs : Str) : nextIs [x] (c :: cs) = (x == c) := by
  simp [nextIs, List.isPrefixOf]

theorem drop1_lt {s : Str} (h : 0 < s.length) : (s.drop 1).length < s.length := by
  cases s with
  | nil => simp at h
  | cons c cs => simp

/-- every step that continues decreases the measure -/
theorem step_decreases (st st' : St) (h : step st = .next st') : mu st' < mu st := by
  unfold step at h
  cases hp : st.phase with
  | attr =>
    rw [hp] at h
    simp only at h
    have hr : rank st.phase = 1 := by rw [hp]; rfl
    by_cases he : st.rest.isEmpty = true
    · simp [he] at h
    · simp only [he, Bool.false_eq_true, if_false] at h
      have hdw := dropWhile_le isWs st.rest
      by_cases hk : nextIsAny keyStartStops (st.rest.dropWhile isWs) = true
      · simp only [hk, if_true] at h
        cases h
        simp only [mu]; rw [hr]; simp only [rank]; omega
      · simp only [hk, Bool.false_eq_true, if_false] at h
        by_cases hdone : (takeUntil keyStops (st.rest.dropWhile isWs)).1.isEmpty = true ∧
            (takeUntil keyStops (st.rest.dropWhile isWs)).2.isEmpty = true
        · simp [hdone] at h
        · simp only [hdone, if_false] at h
          by_cases heq : nextIs "=".toList (takeUntil keyStops (st.rest.dropWhile isWs)).2 = true
          · simp only [heq, if_true] at h
            cases h
            have h1 := takeUntil_le keyStops (st.rest.dropWhile isWs)
            have h2 := List.length_drop (i := 1) (l := (takeUntil keyStops (st.rest.dropWhile isWs)).2)
            simp only [mu]; rw [hr]; simp only [rank]; omega
          · simp only [heq, Bool.false_eq_true, if_false] at h
            cases h
            simp only [mu]; rw [hr]; simp only [rank]; omega
  | struct key idx stack =>
    have hr : rank st.phase = 0 := by rw [hp]; rfl
    rw [hp] at h
    simp only at h
    cases stack with
    | nil => simp at h
    | cons curr below =>
      simp only at h
      have hdw := dropWhile_le isWs st.rest
      generalize hs : st.rest.dropWhile isWs = s at h hdw
      by_cases h1 : nextIsAny listOpeners s = true
      · simp only [h1, if_true] at h
        have hpos : 0 < s.length := nextIsAny_nonempty h1 (by decide)
        cases hx : extractSpread curr.kind key false s with
        | error e => rw [hx] at h; cases h
        | ok r =>
          obtain ⟨sp, s1⟩ := r
          rw [hx] at h
          simp only at h
          cases h
          have hl := extractSpread_le _ _ _ _ _ _ hx
          have hd1 := List.length_drop (i := 1) (l := s1)
          have : (s1.drop 1).length < s.length := by
            cases sp with
            | none => rw [hl.2.2 rfl]; exact drop1_lt hpos
            | some t => have := hl.2.1 rfl; omega
          simp only [mu]; rw [hr]; simp only [rank]; omega
      · simp only [h1, Bool.false_eq_true, if_false] at h
        by_cases h2 : nextIs "]".toList s = true
        · simp only [h2, if_true] at h
          have hpos : 0 < s.length := nextIs_cons_length h2 (by decide)
          by_cases hk : curr.kind ≠ Kind.list
          · simp [hk] at h
          · simp only [hk, if_false] at h
            have := afterClose_next _ _ _ _ _ _ _ h
            have hd := drop1_lt hpos
            simp only [mu, hr, this.1]; omega
        · simp only [h2, Bool.false_eq_true, if_false] at h
          by_cases h3 : nextIsAny dictOpeners s = true
          · simp only [h3, if_true] at h
            have hpos : 0 < s.length := nextIsAny_nonempty h3 (by decide)
            cases hx : extractSpread curr.kind key false s with
            | error e => rw [hx] at h; cases h
            | ok r =>
              obtain ⟨sp, s1⟩ := r
              rw [hx] at h
              simp only at h
              by_cases hdk : curr.kind = Kind.dict ∧ curr.expectsKey = true ∧ sp.isNone = true
              · simp [hdk] at h
              · simp only [hdk, if_false] at h
                cases h
                have hl := extractSpread_le _ _ _ _ _ _ hx
                have hd1 := List.length_drop (i := 1) (l := s1)
                have : (s1.drop 1).length < s.length := by
                  cases sp with
                  | none => rw [hl.2.2 rfl]; exact drop1_lt hpos
                  | some t => have := hl.2.1 rfl; omega
                simp only [mu]; rw [hr]; simp only [rank]; omega
          · simp only [h3, Bool.false_eq_true, if_false] at h
            by_cases h4 : nextIs "}".toList s = true
            · simp only [h4, if_true] at h
              have hpos : 0 < s.length := nextIs_cons_length h4 (by decide)
              by_cases hk : curr.kind ≠ Kind.dict
              · simp [hk] at h
              · simp only [hk, if_false] at h
                cases hv : validatePairs curr.entries false with
                | error e => rw [hv] at h; cases h
                | ok u =>
                  rw [hv] at h
                  simp only at h
                  have := afterClose_next _ _ _ _ _ _ _ h
                  have hd := drop1_lt hpos
                  simp only [mu, hr, this.1]; omega
            · simp only [h4, Bool.false_eq_true, if_false] at h
              by_cases h5 : nextIs ",".toList s = true
              · simp only [h5, if_true] at h
                have hpos : 0 < s.length := nextIs_cons_length h5 (by decide)
                by_cases hk : curr.kind = Kind.simple
                · simp [hk] at h
                · simp only [hk, if_false] at h
                  cases h
                  have hd := drop1_lt hpos
                  simp only [mu]; rw [hr]; simp only [rank]; omega
              · simp only [h5, Bool.false_eq_true, if_false] at h
                by_cases h6 : nextIs ":".toList s = true
                · simp only [h6, if_true] at h
                  have hpos : 0 < s.length := nextIs_cons_length h6 (by decide)
                  by_cases hk : curr.kind ≠ Kind.dict
                  · simp [hk] at h
                  · simp only [hk, if_false] at h
                    by_cases hek : (!curr.expectsKey) = true
                    · simp [hek] at h
                    · simp only [hek, Bool.false_eq_true, if_false] at h
                      cases h
                      have hd := drop1_lt hpos
                      simp only [mu]; rw [hr]; simp only [rank]; omega
                · simp only [h6, Bool.false_eq_true, if_false] at h
                  -- a plain value
                  by_cases he1 : curr.kind ≠ Kind.simple ∧ s.isEmpty = true
                  · simp [he1] at h
                  · simp only [he1, if_false] at h
                    by_cases he2 : s.isEmpty = true
                    · simp [he2] at h
                    · simp only [he2, Bool.false_eq_true, if_false] at h
                      by_cases hf : nextIsAny filterToks s = true
                      · simp [hf] at h
                      · simp only [hf, Bool.false_eq_true, if_false] at h
                        cases hpp : parsePart curr key none s with
                        | error e => rw [hpp] at h; cases h
                        | ok r =>
                          obtain ⟨part, s', atTerm⟩ := r
                          rw [hpp] at h
                          simp only at h
                          -- the first part consumes at least one character
                          obtain ⟨c, cs, hcs⟩ : ∃ c cs, s = c :: cs := by
                            cases s with
                            | nil => simp at he2
                            | cons c cs => exact ⟨c, cs, rfl⟩
                          have hnws : isWs c = false := head_dropWhile_not isWs st.rest c cs (by rw [hs, hcs])
                          have hstop : nextIsAny (wsToks ++ filterToks ++ (terminals curr).map (fun x => [x])) (c :: cs) = false := by
                            rw [nextIsAny_append, nextIsAny_append, nextIsAny_ws, hnws, ← hcs]
                            have hf' : nextIsAny filterToks s = false := by simpa using hf
                            rw [hf', hcs, nextIsAny_chars]
                            simp only [Bool.false_or]
                            cases hcont : (terminals curr).contains c with
                            | false => rfl
                            | true =>
                              exfalso
                              rw [hcs] at h2 h4 h5 h6
                              have hb : ("]".toList : Str) = [']'] := rfl
                              have hb2 : ("}".toList : Str) = ['}'] := rfl
                              have hb3 : (",".toList : Str) = [','] := rfl
                              have hb4 : (":".toList : Str) = [':'] := rfl
                              rw [hb, nextIs_single] at h2
                              rw [hb2, nextIs_single] at h4
                              rw [hb3, nextIs_single] at h5
                              rw [hb4, nextIs_single] at h6
                              rcases terminals_sub curr c hcont with e | e | e | e <;> subst e <;> simp at h2 h4 h5 h6
                          have hlt : s'.length < s.length := by
                            have hpl := (parsePart_le _ _ _ _ _ _ _ hpp).2
                            cases hx : extractSpread curr.kind key (none : Option Char).isSome s with
                            | error e =>
                              unfold parsePart at hpp
                              rw [hx] at hpp; cases hpp
                            | ok r2 =>
                              obtain ⟨sp, s1⟩ := r2
                              cases sp with
                              | some t => exact hpl c cs (some t) s1 hx (Or.inl rfl)
                              | none =>
                                have hs1 := (extractSpread_le _ _ _ _ _ _ hx).2.2 rfl
                                exact hpl c cs none s1 hx (Or.inr ⟨by rw [hs1, hcs], hstop⟩)
                          by_cases hat : atTerm = true
                          · simp only [hat, if_true] at h
                            have := finishValue_next _ _ _ _ _ _ _ _ _ h
                            simp only [mu, hr]; omega
                          · simp only [hat, Bool.false_eq_true, if_false] at h
                            cases h
                            simp only [mu]; rw [hr]; simp only [rank]; omega
  | parts key idx stack curr parts =>
    have hr : rank st.phase = 2 := by rw [hp]; rfl
    rw [hp] at h
    simp only at h
    have hdw := dropWhile_le isWs st.rest
    generalize hs : st.rest.dropWhile isWs = s at h hdw
    by_cases he : s.isEmpty = true
    · simp only [he, if_true] at h
      have := finishValue_next _ _ _ _ _ _ _ _ _ h
      simp only [mu, hr]; omega
    · simp only [he, Bool.false_eq_true, if_false] at h
      by_cases hf : (!nextIsAny filterToks s) = true
      · simp only [hf, if_true] at h
        have := finishValue_next _ _ _ _ _ _ _ _ _ h
        simp only [mu, hr]; omega
      · simp only [hf, Bool.false_eq_true, if_false] at h
        cases s with
        | nil => simp at he
        | cons f s1 =>
          simp only at h
          by_cases hc : f = ':' ∧ prevFilterOf parts ≠ some '|'
          · rw [if_pos hc] at h; cases h
          · rw [if_neg hc] at h
            cases hpp : parsePart curr key (some f) (s1.dropWhile isWs) with
            | error e => rw [hpp] at h; cases h
            | ok r =>
              obtain ⟨part, s', atTerm⟩ := r
              rw [hpp] at h
              simp only at h
              have hle := (parsePart_le _ _ _ _ _ _ _ hpp).1
              have hd2 := dropWhile_le isWs s1
              by_cases hat : atTerm = true
              · simp only [hat, if_true] at h
                have := finishValue_next _ _ _ _ _ _ _ _ _ h
                simp only [mu, hr]
                simp at hdw; omega
              · simp only [hat, Bool.false_eq_true, if_false] at h
                cases h
                simp only [mu]; rw [hr]; simp only [rank]
                simp at hdw; omega

/-- a run with enough fuel never runs out of fuel -/
theorem run_fuel (fuel : Nat) : ∀ st, mu st < fuel → run fuel st ≠ .outOfFuel := by
  induction fuel with
  | zero => intro st h; omega
  | succ fuel ih =>
    intro st h
    simp only [run]
    cases hs : step st with
    | done n a => simp
    | fail e => simp
    | next st' =>
      simp only
      apply ih
      have := step_decreases st st' hs
      omega

theorem dropWhile_append_of_all (p : Char → Bool) (w r : Str) (hw : ∀ c, c ∈ w → p c = true) :
    (w ++ r).dropWhile p = r.dropWhile p := by
  induction w with
  | nil => rfl
  | cons c cs ih =>
    simp only [List.cons_append, List.dropWhile, hw c (by simp)]
    exact ih (fun d hd => hw d (by simp [hd]))

theorem takeWhile_append_of_all (p : Char → Bool) (w r : Str) (hw : ∀ c, c ∈ w → p c = true) :
    (w ++ r).takeWhile p = w ++ r.takeWhile p := by
  induction w with
  | nil => rfl
  | cons c cs ih =>
    simp only [List.cons_append, List.takeWhile, hw c (by simp)]
    rw [ih (fun d hd => hw d (by simp [hd]))]

end Djc.Proofs.TagParser
