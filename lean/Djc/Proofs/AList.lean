import Djc.Base.AList
namespace Djc.AList

variable {α β : Type} [DecidableEq α]

@[simp] theorem alookup_nil (k : α) : alookup k ([] : List (α × β)) = none := rfl

theorem alookup_cons (k k' : α) (v : β) (xs : List (α × β)) :
    alookup k ((k', v) :: xs) = if k' = k then some v else alookup k xs := rfl

theorem alookup_aset_self (k : α) (v : β) (xs : List (α × β)) :
    alookup k (aset k v xs) = some v := by
  induction xs with
  | nil => simp [aset, alookup]
  | cons p xs ih =>
    obtain ⟨k', v'⟩ := p
    by_cases h : k' = k <;> simp [aset, alookup, h, ih]

theorem alookup_aset_ne {k a : α} (v : β) (xs : List (α × β)) (h : a ≠ k) :
    alookup a (aset k v xs) = alookup a xs := by
  induction xs with
  | nil =>
    have : ¬ k = a := fun e => h e.symm
    simp [aset, alookup, this]
  | cons p xs ih =>
    obtain ⟨k', v'⟩ := p
    by_cases h1 : k' = k
    · have : ¬ k' = a := fun e => h (e.symm.trans h1)
      have h2 : ¬ k = a := fun e => h e.symm
      simp [aset, alookup, h1, h2]
    · by_cases h2 : k' = a
      · subst h2; simp [aset, alookup, h1]
      · simp [aset, alookup, h1, h2, ih]

theorem alookup_aset (k a : α) (v : β) (xs : List (α × β)) :
    alookup a (aset k v xs) = if a = k then some v else alookup a xs := by
  by_cases h : a = k
  · subst h; simp [alookup_aset_self]
  · simp [h, alookup_aset_ne v xs h]

theorem alookup_aerase_self (k : α) (xs : List (α × β)) : alookup k (aerase k xs) = none := by
  induction xs with
  | nil => rfl
  | cons p xs ih =>
    obtain ⟨k', v'⟩ := p
    by_cases h : k' = k <;> simp [aerase, alookup, h, ih]

theorem alookup_aerase_ne {k a : α} (xs : List (α × β)) (h : a ≠ k) :
    alookup a (aerase k xs) = alookup a xs := by
  induction xs with
  | nil => rfl
  | cons p xs ih =>
    obtain ⟨k', v'⟩ := p
    by_cases h1 : k' = k
    · have : ¬ k' = a := fun e => h (e.symm.trans h1)
      simp [aerase, alookup, h1, ih]
      intro e; exact absurd e.symm h
    · by_cases h2 : k' = a
      · subst h2; simp [aerase, alookup, h1]
      · simp [aerase, alookup, h1, h2, ih]

theorem alookup_aerase (k a : α) (xs : List (α × β)) :
    alookup a (aerase k xs) = if a = k then none else alookup a xs := by
  by_cases h : a = k
  · subst h; simp [alookup_aerase_self]
  · simp [h, alookup_aerase_ne xs h]

theorem mem_akeys_iff (k : α) (xs : List (α × β)) :
    k ∈ akeys xs ↔ (alookup k xs).isSome = true := by
  induction xs with
  | nil => simp [akeys, alookup]
  | cons p xs ih =>
    obtain ⟨k', v'⟩ := p
    by_cases h : k' = k
    · simp [akeys, alookup, h]
    · have : ¬ k = k' := fun e => h e.symm
      simp [akeys, alookup, h, this] at ih ⊢
      exact ih

theorem not_mem_akeys_iff (k : α) (xs : List (α × β)) :
    k ∉ akeys xs ↔ alookup k xs = none := by
  rw [mem_akeys_iff]; cases alookup k xs <;> simp

theorem mem_akeys_of_alookup {k : α} {v : β} {xs : List (α × β)} (h : alookup k xs = some v) :
    k ∈ akeys xs := by
  rw [mem_akeys_iff, h]; rfl

theorem mem_akeys_aset (k a : α) (v : β) (xs : List (α × β)) :
    a ∈ akeys (aset k v xs) ↔ a = k ∨ a ∈ akeys xs := by
  rw [mem_akeys_iff, mem_akeys_iff, alookup_aset]
  by_cases h : a = k <;> simp [h]

theorem mem_akeys_aerase (k a : α) (xs : List (α × β)) :
    a ∈ akeys (aerase k xs) ↔ a ≠ k ∧ a ∈ akeys xs := by
  rw [mem_akeys_iff, mem_akeys_iff, alookup_aerase]
  by_cases h : a = k <;> simp [h]

theorem akeys_aerase_sublist (k : α) (xs : List (α × β)) :
    List.Sublist (akeys (aerase k xs)) (akeys xs) := by
  induction xs with
  | nil => simp [aerase, akeys]
  | cons p xs ih =>
    obtain ⟨k', v'⟩ := p
    by_cases h : k' = k
    · simp only [aerase, h, if_true, akeys, List.map_cons]
      exact List.Sublist.cons _ ih
    · simp only [aerase, h, if_false, akeys, List.map_cons]
      exact List.Sublist.cons_cons _ ih

theorem nodup_akeys_aerase (k : α) {xs : List (α × β)} (h : (akeys xs).Nodup) :
    (akeys (aerase k xs)).Nodup :=
  h.sublist (akeys_aerase_sublist k xs)

theorem nodup_akeys_aset (k : α) (v : β) {xs : List (α × β)} (h : (akeys xs).Nodup) :
    (akeys (aset k v xs)).Nodup := by
  induction xs with
  | nil => simp [aset, akeys]
  | cons p xs ih =>
    obtain ⟨k', v'⟩ := p
    have hn : k' ∉ akeys xs ∧ (akeys xs).Nodup := List.nodup_cons.mp h
    by_cases h1 : k' = k
    · subst h1
      simpa [aset, akeys] using h
    · simp only [aset, h1, if_false, akeys, List.map_cons]
      refine List.nodup_cons.mpr ⟨?_, ih hn.2⟩
      intro hin
      have := (mem_akeys_aset k k' v xs).mp hin
      rcases this with e | e
      · exact h1 e
      · exact hn.1 e

/-- Setting a key that is already bound to the same value changes nothing. -/
theorem aset_same {k : α} {v : β} {xs : List (α × β)} (h : alookup k xs = some v) :
    aset k v xs = xs := by
  induction xs with
  | nil => simp [alookup] at h
  | cons p xs ih =>
    obtain ⟨k', v'⟩ := p
    by_cases h1 : k' = k
    · subst h1
      simp [alookup] at h; subst h
      simp [aset]
    · simp [alookup, h1] at h
      simp [aset, h1, ih h]

theorem aerase_of_not_mem {k : α} {xs : List (α × β)} (h : alookup k xs = none) :
    aerase k xs = xs := by
  induction xs with
  | nil => rfl
  | cons p xs ih =>
    obtain ⟨k', v'⟩ := p
    by_cases h1 : k' = k
    · simp [alookup, h1] at h
    · simp [alookup, h1] at h
      simp [aerase, h1, ih h]

end Djc.AList
