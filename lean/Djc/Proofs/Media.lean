import Djc.Proofs.AList
import Djc.Model.Media
import Djc.Spec.Media
namespace Djc.Proofs.Media
open Djc.AList Djc.Model.Media Djc.Spec.Media

/-! ### dedup / merge -/

theorem mem_dedup (f : File) (l : List File) : f ∈ dedup l ↔ f ∈ l := by
  induction l with
  | nil => simp [dedup]
  | cons x xs ih =>
    simp only [dedup]
    by_cases h : x ∈ dedup xs
    · simp only [h, if_true, ih, List.mem_cons]
      constructor
      · intro hf; exact Or.inr hf
      · rintro (e | hf)
        · subst e; exact ih.mp h
        · exact hf
    · simp only [h, if_false, List.mem_cons, ih]

theorem nodup_dedup (l : List File) : (dedup l).Nodup := by
  induction l with
  | nil => simp [dedup]
  | cons x xs ih =>
    simp only [dedup]
    by_cases h : x ∈ dedup xs
    · simpa [h] using ih
    · simp only [h, if_false]
      exact List.nodup_cons.mpr ⟨h, ih⟩

theorem mem_merge (f : File) (a b : List File) : f ∈ merge a b ↔ f ∈ a ∨ f ∈ b := by
  simp only [merge, List.mem_append, List.mem_filter, Bool.not_eq_eq_eq_not, Bool.not_true,
    decide_eq_false_iff_not]
  constructor
  · rintro (h | ⟨h, _⟩)
    · exact Or.inl h
    · exact Or.inr h
  · rintro (h | h)
    · exact Or.inl h
    · by_cases ha : f ∈ a
      · exact Or.inl ha
      · exact Or.inr ⟨h, ha⟩

theorem nodup_merge (a b : List File) (ha : a.Nodup) (hb : b.Nodup) : (merge a b).Nodup := by
  simp only [merge]
  rw [List.nodup_append]
  refine ⟨ha, hb.sublist List.filter_sublist, ?_⟩
  intro x hx y hy e
  subst e
  simp only [List.mem_filter, Bool.not_eq_eq_eq_not, Bool.not_true, decide_eq_false_iff_not] at hy
  exact hy.2 hx

/-! ### the cache invariant -/

def CacheOK (H : Hier) (cache : List (Nat × List File)) : Prop :=
  ∀ i L, alookup i cache = some L → L.Nodup ∧ ∀ f, f ∈ L ↔ HasFile H i f

def mergeStep (cache : List (Nat × List File)) (m : List File) (b : Nat) : List File :=
  match alookup b cache with
  | some bm => merge m bm
  | none => m

theorem foldl_merge_spec (H : Hier) (cache : List (Nat × List File)) (hc : CacheOK H cache)
    (bs : List Nat) :
    ∀ (m : List File), m.Nodup →
      ((bs.foldl (mergeStep cache) m).Nodup ∧
       ∀ f, f ∈ bs.foldl (mergeStep cache) m ↔
         (f ∈ m ∨ ∃ b, b ∈ bs ∧ ∃ L, alookup b cache = some L ∧ f ∈ L)) := by
  induction bs with
  | nil => intro m hm; simp [hm]
  | cons b bs ih =>
    intro m hm
    simp only [List.foldl_cons]
    cases hl : alookup b cache with
    | none =>
      have hstep : mergeStep cache m b = m := by simp [mergeStep, hl]
      rw [hstep]
      have := ih m hm
      refine ⟨this.1, ?_⟩
      intro f
      rw [this.2 f]
      constructor
      · rintro (h | ⟨b', hb', L, hL, hf⟩)
        · exact Or.inl h
        · exact Or.inr ⟨b', by simp [hb'], L, hL, hf⟩
      · rintro (h | ⟨b', hb', L, hL, hf⟩)
        · exact Or.inl h
        · simp only [List.mem_cons] at hb'
          rcases hb' with e | e
          · subst e; rw [hl] at hL; cases hL
          · exact Or.inr ⟨b', e, L, hL, hf⟩
    | some bm =>
      have hstep : mergeStep cache m b = merge m bm := by simp [mergeStep, hl]
      rw [hstep]
      have hbm := (hc b bm hl).1
      have := ih (merge m bm) (nodup_merge m bm hm hbm)
      refine ⟨this.1, ?_⟩
      intro f
      rw [this.2 f, mem_merge]
      constructor
      · rintro ((h | h) | ⟨b', hb', L, hL, hf⟩)
        · exact Or.inl h
        · exact Or.inr ⟨b, by simp, bm, hl, h⟩
        · exact Or.inr ⟨b', by simp [hb'], L, hL, hf⟩
      · rintro (h | ⟨b', hb', L, hL, hf⟩)
        · exact Or.inl (Or.inl h)
        · simp only [List.mem_cons] at hb'
          rcases hb' with e | e
          · subst e; rw [hl] at hL; cases hL; exact Or.inl (Or.inr hf)
          · exact Or.inr ⟨b', e, L, hL, hf⟩

theorem hasFile_iff (H : Hier) (i : Nat) (f : File) :
    HasFile H i f ↔ (f ∈ ownFiles H i ∨ ∃ b, b ∈ selected H i ∧ HasFile H b f) := by
  constructor
  · intro h
    cases h with
    | own h => exact Or.inl h
    | inh hb hf => exact Or.inr ⟨_, hb, hf⟩
  · rintro (h | ⟨b, hb, hf⟩)
    · exact .own h
    · exact .inh hb hf

/-- the media computed for a class whose selected bases are all cached is right -/
theorem computed_ok (H : Hier) (cache : List (Nat × List File)) (hc : CacheOK H cache) (c : Nat)
    (hall : ∀ b, b ∈ selected H c → (alookup b cache).isSome = true) :
    let media := (selected H c).foldl (mergeStep cache) (dedup (ownFiles H c))
    media.Nodup ∧ ∀ f, f ∈ media ↔ HasFile H c f := by
  intro media
  have := foldl_merge_spec H cache hc (selected H c) (dedup (ownFiles H c)) (nodup_dedup _)
  refine ⟨this.1, ?_⟩
  intro f
  rw [this.2 f, hasFile_iff, mem_dedup]
  constructor
  · rintro (h | ⟨b, hb, L, hL, hf⟩)
    · exact Or.inl h
    · exact Or.inr ⟨b, hb, ((hc b L hL).2 f).mp hf⟩
  · rintro (h | ⟨b, hb, hf⟩)
    · exact Or.inl h
    · obtain ⟨L, hL⟩ := Option.isSome_iff_exists.mp (hall b hb)
      exact Or.inr ⟨b, hb, L, hL, ((hc b L hL).2 f).mpr hf⟩

/-! ### the work stack -/

theorem iter_add (H : Hier) (n m : Nat) (st : St) : iter H (n + m) st = iter H m (iter H n st) := by
  induction n generalizing st with
  | zero => simp [iter]
  | succ n ih =>
    rw [Nat.succ_add]
    simp only [iter]
    exact ih _

theorem iter_empty (H : Hier) (n : Nat) (cache : List (Nat × List File)) :
    iter H n { stack := [], cache := cache } = { stack := [], cache := cache } := by
  induction n with
  | zero => rfl
  | succ n ih => simp only [iter, stepSt]; exact ih

def Extends (c1 c2 : List (Nat × List File)) : Prop :=
  ∀ k L, alookup k c1 = some L → alookup k c2 = some L

theorem Extends.refl (c : List (Nat × List File)) : Extends c c := fun _ _ h => h
theorem Extends.trans {a b c : List (Nat × List File)} (h1 : Extends a b) (h2 : Extends b c) :
    Extends a c := fun k L h => h2 k L (h1 k L h)

theorem stepSt_mergeStep (H : Hier) (c : Nat) (rest : List Nat) (cache : List (Nat × List File))
    (hnc : ahas c cache = false)
    (hun : ((selected H c).filter (fun b => !ahas b cache)).isEmpty = true) :
    stepSt H { stack := c :: rest, cache := cache } =
      { stack := rest,
        cache := aset c ((selected H c).foldl (mergeStep cache) (dedup (ownFiles H c))) cache } := by
  simp only [stepSt, hnc, hun, Bool.false_eq_true, if_false, if_true]
  rfl

/-- second visit: every selected base is cached -/
theorem visit_ready (H : Hier) (c : Nat) (rest : List Nat) (cache : List (Nat × List File))
    (hc : CacheOK H cache)
    (hall : ∀ b, b ∈ selected H c → (alookup b cache).isSome = true) :
    ∃ cache', iter H 1 { stack := c :: rest, cache := cache } = { stack := rest, cache := cache' } ∧
      CacheOK H cache' ∧ (alookup c cache').isSome = true ∧ Extends cache cache' := by
  by_cases hin : ahas c cache = true
  · refine ⟨cache, ?_, hc, by simpa [ahas] using hin, Extends.refl _⟩
    simp [iter, stepSt, hin]
  · have hnc : ahas c cache = false := by simpa using hin
    have hun : ((selected H c).filter (fun b => !ahas b cache)).isEmpty = true := by
      rw [List.isEmpty_iff]
      apply List.filter_eq_nil_iff.mpr
      intro b hb
      have := hall b hb
      simp [ahas, this]
    refine ⟨_, by simp only [iter]; exact stepSt_mergeStep H c rest cache hnc hun, ?_, ?_, ?_⟩
    · intro i L hl
      rw [alookup_aset] at hl
      by_cases e : i = c
      · subst e
        simp at hl; subst hl
        exact computed_ok H cache hc i hall
      · simp [e] at hl
        exact hc i L hl
    · simp [alookup_aset_self]
    · intro k L hl
      have : k ≠ c := by
        intro e; subst e
        simp [ahas, hl] at hnc
      rw [alookup_aset_ne _ _ this]; exact hl

theorem process_all (H : Hier) (bound : Nat)
    (ih : ∀ c, c < bound → ∀ rest cache, CacheOK H cache →
      ∃ n cache', iter H n { stack := c :: rest, cache := cache } = { stack := rest, cache := cache' } ∧
        CacheOK H cache' ∧ (alookup c cache').isSome = true ∧ Extends cache cache')
    (bs : List Nat) (hbs : ∀ b, b ∈ bs → b < bound) :
    ∀ rest cache, CacheOK H cache →
      ∃ n cache', iter H n { stack := bs ++ rest, cache := cache } = { stack := rest, cache := cache' } ∧
        CacheOK H cache' ∧ (∀ b, b ∈ bs → (alookup b cache').isSome = true) ∧ Extends cache cache' := by
  induction bs with
  | nil =>
    intro rest cache hc
    exact ⟨0, cache, rfl, hc, by simp, Extends.refl _⟩
  | cons b bs ihb =>
    intro rest cache hc
    obtain ⟨n1, c1, h1, hc1, hb1, he1⟩ := ih b (hbs b (by simp)) (bs ++ rest) cache hc
    obtain ⟨n2, c2, h2, hc2, hb2, he2⟩ := ihb (fun x hx => hbs x (by simp [hx])) rest c1 hc1
    refine ⟨n1 + n2, c2, ?_, hc2, ?_, he1.trans he2⟩
    · rw [iter_add]
      simp only [List.cons_append] at h1 ⊢
      rw [h1, h2]
    · intro x hx
      simp only [List.mem_cons] at hx
      rcases hx with e | e
      · subst e
        obtain ⟨L, hL⟩ := Option.isSome_iff_exists.mp hb1
        rw [he2 _ L hL]; rfl
      · exact hb2 x e

theorem visit (H : Hier) (hwf : WF H) :
    ∀ c rest cache, CacheOK H cache →
      ∃ n cache', iter H n { stack := c :: rest, cache := cache } = { stack := rest, cache := cache' } ∧
        CacheOK H cache' ∧ (alookup c cache').isSome = true ∧ Extends cache cache' := by
  intro c
  induction c using Nat.strongRecOn with
  | _ c ih =>
    intro rest cache hc
    by_cases hin : ahas c cache = true
    · refine ⟨1, cache, ?_, hc, by simpa [ahas] using hin, Extends.refl _⟩
      simp [iter, stepSt, hin]
    · have hnc : ahas c cache = false := by simpa using hin
      by_cases hun : ((selected H c).filter (fun b => !ahas b cache)).isEmpty = true
      · have hall : ∀ b, b ∈ selected H c → (alookup b cache).isSome = true := by
          intro b hb
          have := List.filter_eq_nil_iff.mp (List.isEmpty_iff.mp hun) b hb
          cases hl : alookup b cache with
          | some L => rfl
          | none => simp [ahas, hl] at this
        obtain ⟨c', h1, h2, h3, h4⟩ := visit_ready H c rest cache hc hall
        exact ⟨1, c', h1, h2, h3, h4⟩
      · -- push the unresolved bases, then come back
        have hstep : stepSt H { stack := c :: rest, cache := cache } =
            { stack := (selected H c).filter (fun b => !ahas b cache) ++ c :: rest, cache := cache } := by
          simp only [stepSt, hnc, hun, Bool.false_eq_true, if_false]
        have hlt : ∀ b, b ∈ (selected H c).filter (fun b => !ahas b cache) → b < c := by
          intro b hb
          exact hwf.1 c b (List.mem_filter.mp hb).1
        obtain ⟨n1, c1, h1, hc1, hb1, he1⟩ :=
          process_all H c (fun x hx => ih x hx) _ hlt (c :: rest) cache hc
        have hall : ∀ b, b ∈ selected H c → (alookup b c1).isSome = true := by
          intro b hb
          by_cases hcached : ahas b cache = true
          · obtain ⟨L, hL⟩ := Option.isSome_iff_exists.mp (by simpa [ahas] using hcached)
            rw [he1 b L hL]; rfl
          · apply hb1
            exact List.mem_filter.mpr ⟨hb, by simpa using hcached⟩
        obtain ⟨c2, h2, hc2, hb2, he2⟩ := visit_ready H c rest c1 hc1 hall
        refine ⟨1 + (n1 + 1), c2, ?_, hc2, hb2, he1.trans he2⟩
        rw [iter_add, iter_add]
        have : iter H 1 { stack := c :: rest, cache := cache } =
            { stack := (selected H c).filter (fun b => !ahas b cache) ++ c :: rest, cache := cache } := by
          simp only [iter]; exact hstep
        rw [this, h1, h2]

/-! ### implementation vs property -/

theorem eff_files_in_spec (H : Hier) (hwf : WF H) (heff : EffOK H) (m : Nat) (d : ClsDecl)
    (md : MediaDecl) (hm : H[m]? = some d) (hown : d.own = some md) (f : File) (hf : f ∈ md.files) :
    ∀ i c, H[i]? = some c → c.eff = some m → SpecFile H i f := by
  intro i
  induction i using Nat.strongRecOn with
  | _ i ih =>
    intro c hc he
    cases hco : c.own with
    | some md' =>
      have := (heff i c hc).1 md' hco
      rw [he] at this
      cases this
      rw [hc] at hm; cases hm
      rw [hco] at hown; cases hown
      apply SpecFile.own
      simp [declFiles, hc, hco, hf]
    | none =>
      rcases (heff i c hc).2.1 hco with h0 | ⟨b, hb, cb, hcb, hbe⟩
      · rw [he] at h0; cases h0
      · have hlt : b < i := hwf.2 i b (by simp [basesOf, hc, hb])
        have := ih b hlt cb hcb (hbe.trans he)
        refine SpecFile.inh ?_ this
        simp [specSelected, hc, hco, hb]

theorem selected_eq_spec (H : Hier) (heff : EffOK H) (hyp : Hyp H) (i : Nat) :
    selected H i = specSelected H i := by
  cases hc : H[i]? with
  | none => simp [selected, specSelected, effMedia, basesOf, hc]
  | some c =>
    cases hco : c.own with
    | some md =>
      have he := (heff i c hc).1 md hco
      simp only [selected, specSelected, effMedia, basesOf, hc, he, hco]
      cases md.extend <;> rfl
    | none =>
      cases he : c.eff with
      | none => simp [selected, specSelected, effMedia, basesOf, hc, he, hco]
      | some m =>
        obtain ⟨d, md, hd, hdo⟩ := (heff i c hc).2.2 m he
        have hall := hyp i c m d md hc hco he hd hdo
        simp [selected, specSelected, effMedia, basesOf, hc, he, hco, hd, hdo, hall]

end Djc.Proofs.Media
