/-
  Helper lemmas about contexts (`Djc/Model/Tpl.lean`, `Djc/Model/Render.lean`) used by the property
  theorems of C01, C03, C05, C06, C14.
-/
import Djc.Model.Render
namespace Djc.Proofs.Render
open Djc.Tpl Djc.Render

theorem ctxGet_append_one (c : Ctx) (l : Layer) (k : Str) :
    ctxGet (c ++ [l]) k = (match lookupL k l with | some v => some v | Option.none => ctxGet c k) := by
  unfold ctxGet
  rw [List.foldl_append]
  rfl

theorem lookupL_setL_ne (k k' : Str) (v : Val) (l : Layer) (h : k' ≠ k) :
    lookupL k (setL k' v l) = lookupL k l := by
  induction l with
  | nil => simp [setL, lookupL, h]
  | cons a rest ih =>
    obtain ⟨ak, av⟩ := a
    by_cases hk : ak = k'
    · subst hk
      simp [setL, lookupL, h]
    · by_cases hk2 : ak = k
      · subst hk2
        simp [setL, lookupL, hk]
      · simp [setL, lookupL, hk, hk2, ih]

theorem ctxSetTop_append_one (c : Ctx) (l : Layer) (k : Str) (v : Val) :
    ctxSetTop (c ++ [l]) k v = c ++ [setL k v l] := by
  simp [ctxSetTop, List.reverse_append]

theorem ctxGet_setTop_ne (c : Ctx) (k k' : Str) (v : Val) (h : k' ≠ k) :
    ctxGet (ctxSetTop c k' v) k = ctxGet c k := by
  rcases List.eq_nil_or_concat c with hc | ⟨c', l, hc⟩
  · subst hc
    simp [ctxSetTop, ctxGet, lookupL, h]
  · subst hc
    rw [List.concat_eq_append, ctxSetTop_append_one, ctxGet_append_one, ctxGet_append_one, lookupL_setL_ne _ _ _ _ h]

theorem ctxGet_rebase (c : Ctx) (k : Str) (h : permKey ≠ k) : ctxGet (rebase c) k = ctxGet c k := by
  unfold ctxGet rebase
  rw [List.foldl_map]
  congr 1
  funext acc l
  rw [lookupL_setL_ne _ _ _ _ h]

theorem ctxGet_fold_setTop (kvs : Layer) (c : Ctx) (k : Str) (h : ∀ kv ∈ kvs, kv.1 ≠ k) :
    ctxGet (kvs.foldl (fun b kv => ctxSetTop b kv.1 kv.2) c) k = ctxGet c k := by
  induction kvs generalizing c with
  | nil => rfl
  | cons kv rest ih =>
    simp only [List.foldl_cons]
    rw [ih _ (fun x hx => h x (List.mem_cons_of_mem _ hx)), ctxGet_setTop_ne _ _ _ _ (h kv (List.mem_cons_self ..))]

theorem injectKeys_prefixed (ctx : Ctx) : ∀ kv ∈ injectKeysOf ctx, startsWith injectPrefix kv.1 = true := by
  intro kv hkv
  simp [injectKeysOf] at hkv
  exact hkv.2

theorem forLayerToCopy_mem (ctx : Ctx) (l : Layer) (h0 : hasL forloopKey (ctx.headD []) = false)
    (h : forLayerToCopy ctx = some l) : l ∈ ctx ∧ hasL forloopKey l = true := by
  unfold forLayerToCopy at h
  split at h
  · rename_i l' hf
    cases h
    have hm := List.mem_of_find?_eq_some hf
    have hp := List.find?_some hf
    exact ⟨List.mem_of_mem_drop (List.mem_reverse.mp hm), hp⟩
  · have h0' : hasL forloopKey ((List.head? ctx).getD []) = false := by simpa using h0
    simp [h0'] at h


/-! ### association lists keyed by ids -/

theorem alGet_alSet_same {β} (k : Nat) (v : β) (l : List (Nat × β)) : alGet k (alSet k v l) = some v := by
  induction l with
  | nil => simp [alSet, alGet]
  | cons a rest ih =>
    obtain ⟨ak, av⟩ := a
    by_cases h : ak = k
    · simp [alSet, alGet, h]
    · simp [alSet, alGet, h, ih]

theorem alGet_alSet_ne {β} (k k' : Nat) (v : β) (l : List (Nat × β)) (h : k' ≠ k) :
    alGet k (alSet k' v l) = alGet k l := by
  induction l with
  | nil => simp [alSet, alGet, h]
  | cons a rest ih =>
    obtain ⟨ak, av⟩ := a
    by_cases h1 : ak = k'
    · subst h1
      simp [alSet, alGet, h]
    · by_cases h2 : ak = k
      · subst h2
        simp [alSet, alGet, h1]
      · simp [alSet, alGet, h1, h2, ih]

theorem alGet_alDel_ne {β} (k k' : Nat) (l : List (Nat × β)) (h : k' ≠ k) :
    alGet k (alDel k' l) = alGet k l := by
  induction l with
  | nil => simp [alDel, alGet]
  | cons a rest ih =>
    obtain ⟨ak, av⟩ := a
    by_cases h1 : ak = k'
    · subst h1
      simp [alDel, alGet, h, ih]
    · by_cases h2 : ak = k
      · subst h2
        simp [alDel, alGet, h1]
      · simp [alDel, alGet, h1, h2, ih]

theorem alDel_of_absent {β} (k : Nat) (l : List (Nat × β)) (h : alGet k l = none) : alDel k l = l := by
  induction l with
  | nil => simp [alDel]
  | cons a rest ih =>
    obtain ⟨ak, av⟩ := a
    by_cases h1 : ak = k
    · simp [alGet, h1] at h
    · simp only [alGet, h1, if_false] at h
      simp [alDel, h1, ih h]

theorem alDel_alSet_fresh {β} (k : Nat) (v : β) (l : List (Nat × β)) (h : alGet k l = none) :
    alDel k (alSet k v l) = l := by
  induction l with
  | nil => simp [alSet, alDel]
  | cons a rest ih =>
    obtain ⟨ak, av⟩ := a
    by_cases h1 : ak = k
    · simp [alGet, h1] at h
    · simp only [alGet, h1, if_false] at h
      simp [alSet, alDel, h1, ih h]

theorem alHas_alDel_ne {β} (k k' : Nat) (l : List (Nat × β)) (h : k' ≠ k) :
    alHas k (alDel k' l) = alHas k l := by
  simp [alHas, alGet_alDel_ne _ _ _ h]

end Djc.Proofs.Render
