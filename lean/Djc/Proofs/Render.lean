/-
  Helper lemmas about contexts (`Djc/Model/Tpl.lean`, `Djc/Model/Render.lean`) used by the property
  theorems of C01, C03, C05, C06, C14.
-/
import Djc.Model.Render
namespace Djc.Proofs.Render
open Djc.Tpl Djc.Render

theorem ctxGet_append_one (c : Ctx) (l : Layer) (k : Str) :
    ctxGet (c ++ [l]) k = (match lookupL k l with | some v => some v | Option.none => ctxGet c k) := by
  unfold ctxGet
  rw [List.foldl_append]
  rfl

theorem lookupL_setL_ne (k k' : Str) (v : Val) (l : Layer) (h : k' ≠ k) :
    lookupL k (setL k' v l) = lookupL k l := by
  induction l with
  | nil => simp [setL, lookupL, h]
  | cons a rest ih =>
    obtain ⟨ak, av⟩ := a
    by_cases hk : ak = k'
    · subst hk
      simp [setL, lookupL, h]
    · by_cases hk2 : ak = k
      · subst hk2
        simp [setL, lookupL, hk]
      · simp [setL, lookupL, hk, hk2, ih]

theorem ctxSetTop_append_one (c : Ctx) (l : Layer) (k : Str) (v : Val) :
    ctxSetTop (c ++ [l]) k v = c ++ [setL k v l] := by
  simp [ctxSetTop, List.reverse_append]

theorem ctxGet_setTop_ne (c : Ctx) (k k' : Str) (v : Val) (h : k' ≠ k) :
    ctxGet (ctxSetTop c k' v) k = ctxGet c k := by
  rcases List.eq_nil_or_concat c with hc | ⟨c', l, hc⟩
  · subst hc
    simp [ctxSetTop, ctxGet, lookupL, h]
  · subst hc
    rw [List.concat_eq_append, ctxSetTop_append_one, ctxGet_append_one, ctxGet_append_one, lookupL_setL_ne _ _ _ _ h]

theorem ctxGet_rebase (c : Ctx) (k : Str) (h : permKey ≠ k) : ctxGet (rebase c) k = ctxGet c k := by
  unfold ctxGet rebase
  rw [List.foldl_map]
  congr 1
  funext acc l
  rw [lookupL_setL_ne _ _ _ _ h]

theorem ctxGet_fold_setTop (kvs : Layer) (c : Ctx) (k : Str) (h : ∀ kv ∈ kvs, kv.1 ≠ k) :
    ctxGet (kvs.foldl (fun b kv => ctxSetTop b kv.1 kv.2) c) k = ctxGet c k := by
  induction kvs generalizing c with
  | nil => rfl
  | cons kv rest ih =>
    simp only [List.foldl_cons]
    rw [ih _ (fun x hx => h x (List.mem_cons_of_mem _ hx)), ctxGet_setTop_ne _ _ _ _ (h kv (List.mem_cons_self ..))]

theorem injectKeys_prefixed (ctx : Ctx) : ∀ kv ∈ injectKeysOf ctx, startsWith injectPrefix kv.1 = true := by
  intro kv hkv
  simp [injectKeysOf] at hkv
  exact hkv.2

theorem forLayerToCopy_mem (ctx : Ctx) (l : Layer) (h0 : hasL forloopKey (ctx.headD []) = false)
    (h : forLayerToCopy ctx = some l) : l ∈ ctx ∧ hasL forloopKey l = true := by
  unfold forLayerToCopy at h
  split at h
  · rename_i l' hf
    cases h
    have hm := List.mem_of_find?_eq_some hf
    have hp := List.find?_some hf
    exact ⟨List.mem_of_mem_drop (List.mem_reverse.mp hm), hp⟩
  · have h0' : hasL forloopKey ((List.head? ctx).getD []) = false := by simpa using h0
    simp [h0'] at h


/-! ### association lists keyed by ids -/

theorem alGet_alSet_same {β} (k : Nat) (v : β) (l : List (Nat × β)) : alGet k (alSet k v l) = some v := by
  induction l with
  | nil => simp [alSet, alGet]
  | cons a rest ih =>
    obtain ⟨ak, av⟩ := a
    by_cases h : ak = k
    · simp [alSet, alGet, h]
    · simp [alSet, alGet, h, ih]

theorem alGet_alSet_ne {β} (k k' : Nat) (v : β) (l : List (Nat × β)) (h : k' ≠ k) :
    alGet k (alSet k' v l) = alGet k l := by
  induction l with
  | nil => simp [alSet, alGet, h]
  | cons a rest ih =>
    obtain ⟨ak, av⟩ := a
    by_cases h1 : ak = k'
    · subst h1
      simp [alSet, alGet, h]
    · by_cases h2 : ak = k
      · subst h2
        simp [alSet, alGet, h1]
      · simp [alSet, alGet, h1, h2, ih]

theorem alGet_alDel_ne {β} (k k' : Nat) (l : List (Nat × β)) (h : k' ≠ k) :
    alGet k (alDel k' l) = alGet k l := by
  induction l with
  | nil => simp [alDel, alGet]
  | cons a rest ih =>
    obtain ⟨ak, av⟩ := a
    by_cases h1 : ak = k'
    · subst h1
      simp [alDel, alGet, h, ih]
    · by_cases h2 : ak = k
      · subst h2
        simp [alDel, alGet, h1]
      · simp [alDel, alGet, h1, h2, ih]

theorem alDel_of_absent {β} (k : Nat) (l : List (Nat × β)) (h : alGet k l = none) : alDel k l = l := by
  induction l with
  | nil => simp [alDel]
  | cons a rest ih =>
    obtain ⟨ak, av⟩ := a
    by_cases h1 : ak = k
    · simp [alGet, h1] at h
    · simp only [alGet, h1, if_false] at h
      simp [alDel, h1, ih h]

theorem alDel_alSet_fresh {β} (k : Nat) (v : β) (l : List (Nat × β)) (h : alGet k l = none) :
    alDel k (alSet k v l) = l := by
  induction l with
  | nil => simp [alSet, alDel]
  | cons a rest ih =>
    obtain ⟨ak, av⟩ := a
    by_cases h1 : ak = k
    · simp [alGet, h1] at h
    · simp only [alGet, h1, if_false] at h
      simp [alSet, alDel, h1, ih h]

theorem alHas_alDel_ne {β} (k k' : Nat) (l : List (Nat × β)) (h : k' ≠ k) :
    alHas k (alDel k' l) = alHas k l := by
  simp [alHas, alGet_alDel_ne _ _ _ h]

end Djc.Proofs.Render

namespace Djc.Proofs.Render
open Djc.Tpl Djc.Render

/-! ### flatten / lookups (layers are dicts: keys unique) -/

def UniqueKeys (l : Layer) : Prop := (l.map (·.1)).Nodup

theorem lookupL_setL_same (k : Str) (v : Val) (l : Layer) : lookupL k (setL k v l) = some v := by
  induction l with
  | nil => simp [setL, lookupL]
  | cons a rest ih =>
    obtain ⟨ak, av⟩ := a
    by_cases h : ak = k
    · subst h; simp [setL, lookupL]
    · simp [setL, lookupL, h, ih]

theorem lookupL_mem_keys (k : Str) (l : Layer) (h : (lookupL k l).isSome = true) : k ∈ l.map (·.1) := by
  induction l with
  | nil => simp [lookupL] at h
  | cons a rest ih =>
    obtain ⟨ak, av⟩ := a
    by_cases hk : ak = k
    · simp [hk]
    · simp only [lookupL, hk, if_false] at h
      simp [ih h]

theorem keys_setL (k : Str) (v : Val) (l : Layer) :
    (setL k v l).map (·.1) = if k ∈ l.map (·.1) then l.map (·.1) else l.map (·.1) ++ [k] := by
  induction l with
  | nil => simp [setL]
  | cons a rest ih =>
    obtain ⟨ak, av⟩ := a
    by_cases h : ak = k
    · subst h; simp [setL]
    · have hne : ¬ k = ak := fun e => h e.symm
      simp only [setL, h, if_false, List.map_cons, List.mem_cons, hne, false_or, ih]
      split <;> simp

theorem unique_setL (k : Str) (v : Val) (l : Layer) (h : UniqueKeys l) : UniqueKeys (setL k v l) := by
  unfold UniqueKeys at *
  rw [keys_setL]
  split
  · exact h
  · rename_i hk
    exact List.nodup_append.mpr ⟨h, by simp, by
      intro a ha b hb
      simp at hb
      subst hb
      exact fun e => hk (e ▸ ha)⟩

/-- `d.update(o)` read back: the value from `o` if it has the key, else the one from `d` -/
theorem lookupL_updateL (k : Str) (d o : Layer) (ho : UniqueKeys o) :
    lookupL k (updateL d o) = (match lookupL k o with | some v => some v | Option.none => lookupL k d) := by
  unfold updateL
  induction o generalizing d with
  | nil => simp [lookupL]
  | cons a rest ih =>
    obtain ⟨ak, av⟩ := a
    have hrest : UniqueKeys rest := by
      unfold UniqueKeys at *
      simp only [List.map_cons, List.nodup_cons] at ho
      exact ho.2
    simp only [List.foldl_cons]
    rw [ih _ hrest]
    by_cases hk : ak = k
    · subst hk
      have hnot : lookupL ak rest = Option.none := by
        cases hl : lookupL ak rest with
        | none => rfl
        | some v =>
          have := lookupL_mem_keys ak rest (by simp [hl])
          unfold UniqueKeys at ho
          simp only [List.map_cons, List.nodup_cons] at ho
          exact absurd this ho.1
      simp [hnot, lookupL, lookupL_setL_same]
    · simp only [lookupL, hk, if_false]
      rw [lookupL_setL_ne _ _ _ _ hk]

theorem unique_updateL (d o : Layer) (hd : UniqueKeys d) : UniqueKeys (updateL d o) := by
  unfold updateL
  induction o generalizing d with
  | nil => simpa using hd
  | cons a rest ih => exact ih _ (unique_setL _ _ _ hd)

/-- `context.flatten()[k]` is `context[k]` -/
theorem lookupL_flatten (ctx : Ctx) (k : Str) (h : ∀ l ∈ ctx, UniqueKeys l) :
    lookupL k (flatten ctx) = ctxGet ctx k := by
  unfold flatten ctxGet
  have gen : ∀ (acc : Layer), UniqueKeys acc →
      lookupL k (ctx.foldl updateL acc) =
        ctx.foldl (fun a l => match lookupL k l with | some v => some v | Option.none => a) (lookupL k acc) := by
    induction ctx with
    | nil => intro acc _; rfl
    | cons l rest ih =>
      intro acc hacc
      simp only [List.foldl_cons]
      rw [ih (fun x hx => h x (List.mem_cons_of_mem _ hx)) _ (unique_updateL _ _ hacc),
        lookupL_updateL _ _ _ (h l (List.mem_cons_self ..))]
  have h' := gen [] (by simp [UniqueKeys])
  exact h'

theorem unique_flatten (ctx : Ctx) : UniqueKeys (flatten ctx) := by
  unfold flatten
  have gen : ∀ acc, UniqueKeys acc → UniqueKeys (ctx.foldl updateL acc) := by
    induction ctx with
    | nil => intro acc h; exact h
    | cons l rest ih => intro acc h; exact ih _ (unique_updateL _ _ h)
  exact gen [] (by simp [UniqueKeys])

/-- setting every pair of a dict on the newest layer: a key of the dict reads back its value -/
theorem ctxGet_fold_setTop_mem (kvs : Layer) (c : Ctx) (k : Str) (v : Val) (hu : UniqueKeys kvs)
    (hm : lookupL k kvs = some v) (hc : c ≠ []) :
    ctxGet (kvs.foldl (fun b kv => ctxSetTop b kv.1 kv.2) c) k = some v := by
  induction kvs generalizing c with
  | nil => simp [lookupL] at hm
  | cons a rest ih =>
    obtain ⟨ak, av⟩ := a
    have hrest : UniqueKeys rest := by
      unfold UniqueKeys at *
      simp only [List.map_cons, List.nodup_cons] at hu
      exact hu.2
    have hne : ctxSetTop c ak av ≠ [] := by
      rcases List.eq_nil_or_concat c with h | ⟨c', l, h⟩
      · exact absurd h hc
      · subst h; rw [List.concat_eq_append, ctxSetTop_append_one]; simp
    simp only [List.foldl_cons]
    by_cases hk : ak = k
    · subst hk
      simp only [lookupL, if_true] at hm
      cases hm
      have hnot : ∀ kv ∈ rest, kv.1 ≠ ak := by
        intro kv hkv e
        unfold UniqueKeys at hu
        simp only [List.map_cons, List.nodup_cons] at hu
        exact hu.1 (e ▸ List.mem_map_of_mem (f := fun x : Str × Val => x.1) hkv)
      rw [ctxGet_fold_setTop _ _ _ hnot]
      rcases List.eq_nil_or_concat c with h | ⟨c', l, h⟩
      · exact absurd h hc
      · subst h
        rw [List.concat_eq_append, ctxSetTop_append_one, ctxGet_append_one, lookupL_setL_same]
    · simp only [lookupL, hk, if_false] at hm
      exact ih _ hrest hm hne

end Djc.Proofs.Render

namespace Djc.Proofs.Render
open Djc.Tpl Djc.Render

theorem forLayerToCopy_mem' (ctx : Ctx) (l : Layer) (h : forLayerToCopy ctx = some l) : l ∈ ctx := by
  unfold forLayerToCopy at h
  split at h
  · rename_i l' hf
    cases h
    exact List.mem_of_mem_drop (List.mem_reverse.mp (List.mem_of_find?_eq_some hf))
  · split at h
    · exact List.mem_of_getLast? h
    · cases h

theorem ctxGet_none_all (ctx : Ctx) (k : Str) (h : ctxGet ctx k = Option.none) : ∀ l ∈ ctx, lookupL k l = Option.none := by
  induction hn : ctx.length generalizing ctx with
  | zero =>
    have : ctx = [] := List.length_eq_zero_iff.mp hn
    subst this
    intro l hl; cases hl
  | succ n ih =>
    rcases List.eq_nil_or_concat ctx with hc | ⟨c', l, hc⟩
    · subst hc; intro l hl; cases hl
    · subst hc
      rw [List.concat_eq_append] at h hn ⊢
      rw [ctxGet_append_one] at h
      cases hl : lookupL k l with
      | some v => simp [hl] at h
      | none =>
        simp only [hl] at h
        intro x hx
        rcases List.mem_append.mp hx with hx | hx
        · exact ih c' h (by simpa using hn) x hx
        · simp at hx; subst hx; exact hl

theorem lookupL_filter_key (k : Str) (p : Str → Bool) (l : Layer) (hp : p k = true) :
    lookupL k (l.filter (fun kv => p kv.1)) = lookupL k l := by
  induction l with
  | nil => rfl
  | cons a rest ih =>
    obtain ⟨ak, av⟩ := a
    by_cases hk : ak = k
    · subst hk; simp [List.filter_cons, hp, lookupL]
    · by_cases hq : p ak = true
      · simp [List.filter_cons, hq, lookupL, hk, ih]
      · simp [List.filter_cons, hq, lookupL, hk, ih]

theorem unique_filter (p : Str × Val → Bool) (l : Layer) (h : UniqueKeys l) : UniqueKeys (l.filter p) := by
  unfold UniqueKeys at *
  exact (List.Sublist.map _ List.filter_sublist).nodup h

end Djc.Proofs.Render

namespace Djc.Proofs.Render
open Djc.Tpl Djc.Render

theorem sGet_sSet_same (k : Str) (v : FillFn) (l : List (Str × FillFn)) : sGet k (sSet k v l) = some v := by
  induction l with
  | nil => simp [sSet, sGet]
  | cons a rest ih =>
    obtain ⟨ak, av⟩ := a
    by_cases h : ak = k
    · subst h; simp [sSet, sGet]
    · simp [sSet, sGet, h, ih]

theorem sGet_sSet_ne (k k' : Str) (v : FillFn) (l : List (Str × FillFn)) (h : k' ≠ k) :
    sGet k (sSet k' v l) = sGet k l := by
  induction l with
  | nil => simp [sSet, sGet, h]
  | cons a rest ih =>
    obtain ⟨ak, av⟩ := a
    by_cases h1 : ak = k'
    · subst h1; simp [sSet, sGet, h]
    · by_cases h2 : ak = k
      · subst h2; simp [sSet, sGet, h1]
      · simp [sSet, sGet, h1, h2, ih]

theorem sGet_fold (cs : List Captured) (acc : List (Str × FillFn)) (c : Captured) (hc : c ∈ cs)
    (hn : (cs.map (·.name)).Nodup) :
    sGet c.name (cs.foldl (fun acc c => sSet c.name (fillOfCaptured c) acc) acc) = some (fillOfCaptured c) := by
  induction cs generalizing acc with
  | nil => cases hc
  | cons d rest ih =>
    simp only [List.map_cons, List.nodup_cons] at hn
    simp only [List.foldl_cons]
    rcases List.mem_cons.mp hc with e | hm
    · subst e
      -- the later fills have other names, so they leave this one alone
      have : ∀ (l : List Captured) (acc : List (Str × FillFn)), (∀ x ∈ l, x.name ≠ c.name) →
          sGet c.name (l.foldl (fun acc c => sSet c.name (fillOfCaptured c) acc) acc) = sGet c.name acc := by
        intro l
        induction l with
        | nil => intro acc _; rfl
        | cons x xs ihx =>
          intro acc hx
          simp only [List.foldl_cons]
          rw [ihx _ (fun y hy => hx y (List.mem_cons_of_mem _ hy)), sGet_sSet_ne _ _ _ _ (hx x (List.mem_cons_self ..))]
      rw [this rest _ (fun x hx e => hn.1 (e ▸ List.mem_map_of_mem (f := fun x : Captured => x.name) hx)), sGet_sSet_same]
    · exact ih _ hm hn.2


end Djc.Proofs.Render

namespace Djc.Proofs.Render
open Djc.Tpl Djc.Render

/-- newer binding wins -/
def orOld (newer older : Option Val) : Option Val :=
  match newer with
  | some v => some v
  | Option.none => older

theorem ctxGet_append (a b : Ctx) (x : Str) : ctxGet (a ++ b) x = orOld (ctxGet b x) (ctxGet a x) := by
  induction hn : b.length generalizing b with
  | zero =>
    have : b = [] := List.length_eq_zero_iff.mp hn
    subst this
    simp [orOld, ctxGet]
  | succ n ih =>
    rcases List.eq_nil_or_concat b with hb | ⟨b', l, hb⟩
    · subst hb; simp at hn
    · subst hb
      rw [List.concat_eq_append] at hn ⊢
      rw [← List.append_assoc, ctxGet_append_one, ctxGet_append_one, ih b' (by simpa using hn)]
      cases lookupL x l <;> simp [orOld]

theorem insertAt_eq {α} (i : Nat) (e : α) (c : List α) : insertAt i e c = c.take i ++ [e] ++ c.drop i := by
  simp [insertAt]

end Djc.Proofs.Render
