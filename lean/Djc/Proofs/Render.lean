/-
  Helper lemmas about contexts (`Djc/Model/Tpl.lean`, `Djc/Model/Render.lean`) used by the property
  theorems of C01, C03, C05, C06, C14.
-/
import Djc.Model.Render
namespace Djc.Proofs.Render
open Djc.Tpl Djc.Render

theorem ctxGet_append_one (c : Ctx) (l : Layer) (k : Str) :
    ctxGet (c ++ [l]) k = (match lookupL k l with | some v => some v | Option.none => ctxGet c k) := by
  unfold ctxGet
  rw [List.foldl_append]
  rfl

theorem lookupL_setL_ne (k k' : Str) (v : Val) (l : Layer) (h : k' ≠ k) :
    lookupL k (setL k' v l) = lookupL k l := by
  induction l with
  | nil => simp [setL, lookupL, h]
  | cons a rest ih =>
    obtain ⟨ak, av⟩ := a
    by_cases hk : ak = k'
    · subst hk
      simp [setL, lookupL, h]
    · by_cases hk2 : ak = k
      · subst hk2
        simp [setL, lookupL, hk]
      · simp [setL, lookupL, hk, hk2, ih]

theorem ctxSetTop_append_one (c : Ctx) (l : Layer) (k : Str) (v : Val) :
    ctxSetTop (c ++ [l]) k v = c ++ [setL k v l] := by
  simp [ctxSetTop, List.reverse_append]

theorem ctxGet_setTop_ne (c : Ctx) (k k' : Str) (v : Val) (h : k' ≠ k) :
    ctxGet (ctxSetTop c k' v) k = ctxGet c k := by
  rcases List.eq_nil_or_concat c with hc | ⟨c', l, hc⟩
  · subst hc
    simp [ctxSetTop, ctxGet, lookupL, h]
  · subst hc
    rw [List.concat_eq_append, ctxSetTop_append_one, ctxGet_append_one, ctxGet_append_one, lookupL_setL_ne _ _ _ _ h]

theorem ctxGet_rebase (c : Ctx) (k : Str) (h : permKey ≠ k) : ctxGet (rebase c) k = ctxGet c k := by
  unfold ctxGet rebase
  rw [List.foldl_map]
  congr 1
  funext acc l
  rw [lookupL_setL_ne _ _ _ _ h]

theorem ctxGet_fold_setTop (kvs : Layer) (c : Ctx) (k : Str) (h : ∀ kv ∈ kvs, kv.1 ≠ k) :
    ctxGet (kvs.foldl (fun b kv => ctxSetTop b kv.1 kv.2) c) k = ctxGet c k := by
  induction kvs generalizing c with
  | nil => rfl
  | cons kv rest ih =>
    simp only [List.foldl_cons]
    rw [ih _ (fun x hx => h x (List.mem_cons_of_mem _ hx)), ctxGet_setTop_ne _ _ _ _ (h kv (List.mem_cons_self ..))]

theorem injectKeys_prefixed (ctx : Ctx) : ∀ kv ∈ injectKeysOf ctx, startsWith injectPrefix kv.1 = true := by
  intro kv hkv
  simp [injectKeysOf] at hkv
  exact hkv.2

theorem forLayerToCopy_mem (ctx : Ctx) (l : Layer) (h0 : hasL forloopKey (ctx.headD []) = false)
    (h : forLayerToCopy ctx = some l) : l ∈ ctx ∧ hasL forloopKey l = true := by
  unfold forLayerToCopy at h
  split at h
  · rename_i l' hf
    cases h
    have hm := List.mem_of_find?_eq_some hf
    have hp := List.find?_some hf
    exact ⟨List.mem_of_mem_drop (List.mem_reverse.mp hm), hp⟩
  · have h0' : hasL forloopKey ((List.head? ctx).getD []) = false := by simpa using h0
    simp [h0'] at h


end Djc.Proofs.Render
