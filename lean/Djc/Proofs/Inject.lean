/-
  One provider, one consumer, through the whole pipeline (model of the code).  A leaf component rendered while exactly
  one provider is alive and in scope, whose data `inject()` that provider's key: `register_provide_reference`,
  `inject()` reading `provide_cache` through the context key, the deferred render, `unregister_provide_reference`
  when the component has finished — the consumer sees exactly the provider's keyword arguments and the three
  provide registries are afterwards what they were.
-/
import Djc.Proofs.LeafSpec
namespace Djc.Proofs.Inject
open Djc.Tpl Djc.Render Djc.Proofs.Plain Djc.Proofs.Calm Djc.Proofs.Leaf Djc.Proofs.Render

/-! ### data: keyword arguments, constants, the id, and the injected provider -/

def srcValI (id : Nat) (kw : List (Str × Val)) (payload : Layer) : Src → Val
  | .inject _ _ => .injected payload
  | s => srcVal id kw s

def dataInj (id : Nat) (kw : List (Str × Val)) (payload : Layer) : List (Str × Src) → Layer → Layer
  | [], acc => acc
  | (out, src) :: rest, acc => dataInj id kw payload rest (setL out (srcValI id kw payload src) acc)

def injEvents (id : Nat) : List (Str × Src) → List Ev
  | [] => []
  | (_, .inject k _) :: rest => .inject id k :: injEvents id rest
  | _ :: rest => injEvents id rest

/-- every `inject()` of the component asks for a key the context resolves to the provider `pid` -/
def injectsFrom (ctx : Ctx) (pid : Nat) : List (Str × Src) → Prop
  | [] => True
  | (_, .inject k _) :: rest => ctxGet ctx (injectPrefix ++ k) = some (.provRef pid) ∧ injectsFrom ctx pid rest
  | _ :: rest => injectsFrom ctx pid rest

theorem getContextData_inj (env : Env) (id pid : Nat) (ctx : Ctx) (kw : List (Str × Val)) (payload : Layer)
    (hr : env.raiseAt = none) :
    ∀ (data : List (Str × Src)) (acc : Layer) (w : World), injectsFrom ctx pid data → alGet pid w.provideCache = some payload →
      (getContextData env id ctx kw data acc).run.run w =
        (.ok (dataInj id kw payload data acc), { w with events := w.events ++ injEvents id data })
  | [], acc, w, _, _ => by
    simp only [getContextData, dataInj, injEvents, List.append_nil, run_pure]
  | (out, src) :: rest, acc, w, h, hp => by
    unfold getContextData
    cases src with
    | inject k d =>
      simp only [injectsFrom] at h
      have htick := run_tick_plain env (Ev.inject id k) w hr (by intro i hh; cases hh)
      simp only [run_bind, injectM, htick, h.1, run_get, hp, run_pure]
      have := getContextData_inj env id pid ctx kw payload hr rest (setL out (.injected payload) acc)
        { w with events := w.events ++ [Ev.inject id k] } h.2 hp
      rw [this]
      simp [dataInj, srcValI, injEvents]
    | kwarg k =>
      simp only [injectsFrom] at h
      simp only [run_bind, run_pure]
      rw [getContextData_inj env id pid ctx kw payload hr rest _ w h hp]
      simp [dataInj, srcValI, srcVal, injEvents]
    | const v =>
      simp only [injectsFrom] at h
      simp only [run_bind, run_pure]
      rw [getContextData_inj env id pid ctx kw payload hr rest _ w h hp]
      simp [dataInj, srcValI, srcVal, injEvents]
    | selfId =>
      simp only [injectsFrom] at h
      simp only [run_bind, run_pure]
      rw [getContextData_inj env id pid ctx kw payload hr rest _ w h hp]
      simp [dataInj, srcValI, srcVal, injEvents]
    | side =>
      simp only [injectsFrom] at h
      simp only [run_bind, run_pure]
      rw [getContextData_inj env id pid ctx kw payload hr rest _ w h hp]
      simp [dataInj, srcValI, srcVal, injEvents]

/-! ### `unregister_provide_reference` for the one consumer of the one provider -/

theorem filter_ne_self (id : Nat) : ∀ (A : List Nat), A.contains id = false → A.filter (· ≠ id) = A
  | [], _ => rfl
  | a :: rest, h => by
    simp only [List.contains_cons, Bool.or_eq_false_iff, beq_eq_false_iff_ne, ne_eq] at h
    have hne : ¬ a = id := fun e => h.1 e.symm
    rw [List.filter_cons, if_pos (by simpa using hne), filter_ne_self id rest h.2]

theorem filter_ne_append_self (A : List Nat) (id : Nat) (h : A.contains id = false) : (A ++ [id]).filter (· ≠ id) = A := by
  rw [List.filter_append, filter_ne_self id A h, List.filter_cons, if_neg (by simp), List.filter_nil, List.append_nil]

theorem postRender_leaf_reg (env : Env) (i id pid : Nat) (r : Renderer) (cc : CompCtx) (d : CompDef) (w : World)
    (A : List Nat) (toks : List Tok) (st : Nat)
    (hr : env.raiseAt = none)
    (hrc : alGet id w.rendererCache = some r) (hrid : r.id = id) (hdyn : r.dynInner = none)
    (hca : alGet id w.childAttrs = none)
    (hcc : alGet id w.ctxCache = some cc) (hname : isDynName cc.name = false)
    (hne : pid ≠ id) (hpr : w.provideRefs = [(pid, [pid, id])]) (hall : w.allRefIds = A ++ [id]) (hA : A.contains id = false)
    (hd : findDef env r.name = some d) (hp : plainL d.template = true) (hc : ctxFree r.ctx = true)
    (hok : pNodes env.maxSteps (i + 1) d.template r.ctx w.steps = (.ok toks, st)) :
    (postRender env (i + 3) [{ before := [], child := some id, parent := none, grand := none }] [] []).run.run w =
      (.ok (.marker r.name id :: addRootAttrs [idAttr id] toks),
        { w with rendererCache := alDel id w.rendererCache, childAttrs := alDel id w.childAttrs,
                 ctxCache := alDel id w.ctxCache, provideRefs := [(pid, [pid])], allRefIds := A,
                 events := w.events ++ [.before id, .after id], steps := st }) := by
  subst hrid
  have hnh : toks.all noHole = true := (pNodes_noHole env.maxSteps (i + 1)).1 _ _ _ _ _ hok
  have hnh' : (Tok.marker r.name r.id :: addRootAttrs [idAttr r.id] toks).all noHole = true := by
    simp only [List.all_cons, noHole, Bool.true_and, addRootAttrs]
    exact addRootAttrsAux_noHole _ _ _ hnh
  unfold postRender
  simp only [List.isEmpty_nil, ↓reduceIte, run_bind, run_pure, run_get, hrc, hca, Option.getD_none, run_set]
  have hw' : pNodes env.maxSteps (i + 1) d.template r.ctx
      ({ w with rendererCache := alDel r.id w.rendererCache, childAttrs := alDel r.id w.childAttrs } : World).steps = (.ok toks, st) := hok
  rw [runRenderer_plain env (i + 1) r d _ toks st hr hdyn hd hp hc hw']
  simp only [run_modify, rootHoles, rootHolesAux_noHole _ _ _ hnh, List.foldl_nil, List.append_nil]
  rw [splitHoles_noHole r.id none _ [] hnh']
  unfold postRender
  simp only [List.nil_append, run_bind, run_get, partsGet, alGet, Option.getD_none, alDel]
  have htick := fun w' => run_tick_plain env (Ev.after r.id) w' hr (by intro id h; cases h)
  have hc : (A ++ [r.id]).contains r.id = true := by simp
  have hne' : ¬ r.id = pid := fun e => hne e.symm
  simp only [hcc, Option.map_some, Option.getD_some, hname, Bool.not_false, ↓reduceIte, run_bind, htick, run_modify,
    unregisterRef, run_liftW, unregisterRefW, hall, hc, Bool.not_true, Bool.false_eq_true, hpr, List.map_cons, List.map_nil,
    unregisterLoopW, alGet, List.contains_cons, beq_self_eq_true, Bool.or_true, List.contains_nil, Bool.or_false,
    filter_ne_append_self A r.id hA]
  simp [alSet, hne, hne', unregisterLoopW, postRender, run_pure]
  rfl

/-! ### the whole pipeline for the consumer -/

/-- the Context the consumer's template is rendered in -/
def leafCtxI (ctx' : Ctx) (id : Nat) (kw : List (Str × Val)) (payload : Layer) (d : CompDef) : Ctx :=
  snapshot (ctx' ++ [dataInj id kw payload d.data []] ++ [[(compKey, .compRef id), (compVarsKey, compVars [])]])

abbrev injW (w : World) (name : Str) (ctx snap : Ctx) (pid : Nat) (payload : Layer) (evs : List Ev) (rc : Nat) : World :=
  { nextId := w.nextId + 1, ctxCache := alSet w.nextId (leafCC name w.nextId ctx) w.ctxCache, rendererCache := alSet w.nextId (leafR name w.nextId ctx snap) w.rendererCache, childAttrs := w.childAttrs, provideCache := [(pid, payload)], provideRefs := [(pid, [pid, w.nextId])], allRefIds := w.allRefIds ++ [w.nextId], cap := w.cap, events := w.events ++ [Ev.gcd w.nextId] ++ evs, rcLeak := rc, gcds := w.gcds + 1, steps := w.steps + 1 }

theorem consumer_under_provider (env : Env) (i : Nat) (name : Str) (kwargs : List (Str × Expr)) (only dyn : Bool)
    (ctx ctx' : Ctx) (w : World) (d : CompDef) (pid : Nat) (payload : Layer) (toks : List Tok) (st : Nat)
    (hctx' : ctx' = if only || env.isolated then isolatedCopy ctx else ctx)
    (hr : env.raiseAt = none) (hd : findDef env name = some d) (hdyn : isDynName name = false)
    (hp : plainL d.template = true)
    (hsteps : ¬ w.steps ≥ env.maxSteps) (hgcd : w.gcds < env.maxInst)
    (hext : isExtracting ctx = false)
    (hpar : ∀ p, ctxGet ctx' compKey ≠ some (.compRef p))
    -- exactly one provider is alive, it holds its own reference, it is the one in scope
    (hpc : w.provideCache = [(pid, payload)]) (hpr : w.provideRefs = [(pid, [pid])])
    (hne : pid ≠ w.nextId) (hids : provIdsOf ctx' = [pid]) (hinj : injectsFrom ctx' pid d.data)
    (hf1 : alGet w.nextId w.ctxCache = none) (hf2 : alGet w.nextId w.rendererCache = none)
    (hf3 : alGet w.nextId w.childAttrs = none) (hf4 : w.allRefIds.contains w.nextId = false)
    (hc : ctxFree (leafCtxI ctx' w.nextId (evalKwargs ctx kwargs) payload d) = true)
    (hok : pNodes env.maxSteps (i + 1) d.template (leafCtxI ctx' w.nextId (evalKwargs ctx kwargs) payload d) (w.steps + 1) = (.ok toks, st)) :
    (renderNode env (i + 6) (.comp name kwargs only dyn []) ctx).run.run w =
      (.ok (.marker name w.nextId :: addRootAttrs [idAttr w.nextId] toks),
        { w with nextId := w.nextId + 1, steps := st, gcds := w.gcds + 1,
                 events := w.events ++ [.gcd w.nextId] ++ injEvents w.nextId d.data ++ [.before w.nextId, .after w.nextId] }) := by
  have hparent : (match ctxGet ctx' compKey with | some (.compRef p) => some p | _ => (none : Option Nat)) = none := by
    cases hg : ctxGet ctx' compKey with
    | none => rfl
    | some v => cases v <;> first | rfl | exact absurd hg (hpar _)
  have hne' : ¬ w.nextId = pid := fun e => hne e.symm
  unfold renderNode
  simp only [run_bind, run_get, hsteps, ↓reduceIte, run_set]
  unfold renderCompTag
  simp only [hext, Bool.false_eq_true, ↓reduceIte, hd, run_bind, run_pure]
  unfold resolveFills
  simp only [List.isEmpty_nil, ↓reduceIte, run_pure, ← hctx']
  unfold renderImpl
  simp only [run_bind, run_genId, hparent, run_pure, Option.isNone_none, Bool.true_and, Option.isSome_none,
    Bool.false_eq_true, ↓reduceIte, hdyn, Bool.not_false]
  have htg := fun w' (h : w'.gcds < env.maxInst) => run_tick_gcd env w.nextId w' hr h
  have hgd := fun w' (h : alGet pid w'.provideCache = some payload) =>
    getContextData_inj env w.nextId pid ctx' (evalKwargs ctx kwargs) payload hr d.data [] w' hinj h
  have hdel1 := alDel_alSet_fresh w.nextId (leafCC name w.nextId ctx) w.ctxCache hf1
  have hdel2 := alDel_alSet_fresh w.nextId (leafR name w.nextId ctx (leafCtxI ctx' w.nextId (evalKwargs ctx kwargs) payload d)) w.rendererCache hf2
  have hdel3 := alDel_of_absent w.nextId w.childAttrs hf3
  have hreg : ∀ (w1 : World), w1.provideCache = [(pid, payload)] → w1.provideRefs = [(pid, [pid])] → w1.allRefIds = w.allRefIds →
      registerRefW ctx' w.nextId w1 = { w1 with allRefIds := w.allRefIds ++ [w.nextId], provideRefs := [(pid, [pid, w.nextId])] } := by
    intro w1 h1 h2 h3
    have hmem : ¬ w.nextId ∈ w.allRefIds := by simpa using hf4
    simp [registerRefW, h1, h2, h3, hmem, hids, alGet, alSet, hne']
  have hcache : alGet pid [(pid, payload)] = some payload := by simp [alGet]
  cases hrc : hasRootRc ctx' with
  | true =>
    simp only [↓reduceIte, run_bind, run_modify, hreg, hpc, hpr, htg, hgcd, hd, run_pure, hgd, hcache]
    refine (postRender_leaf_reg env i w.nextId pid (leafR name w.nextId ctx (leafCtxI ctx' w.nextId (evalKwargs ctx kwargs) payload d))
      (leafCC name w.nextId ctx) d
      (injW w name ctx (leafCtxI ctx' w.nextId (evalKwargs ctx kwargs) payload d) pid payload (injEvents w.nextId d.data) (w.rcLeak + 1 - 1))
      w.allRefIds toks st hr (alGet_alSet_same ..) rfl rfl hf3 (alGet_alSet_same ..) hdyn hne rfl rfl hf4 hd hp hc hok).trans ?_
    simp only [injW, hdel1, hdel2, hdel3, List.append_assoc, List.cons_append, List.nil_append, Nat.add_sub_cancel, hpc, hpr]
  | false =>
    simp only [Bool.false_eq_true, ↓reduceIte, run_bind, run_modify, hreg, hpc, hpr, htg, hgcd, hd, run_pure, hgd, hcache]
    refine (postRender_leaf_reg env i w.nextId pid (leafR name w.nextId ctx (leafCtxI ctx' w.nextId (evalKwargs ctx kwargs) payload d))
      (leafCC name w.nextId ctx) d
      (injW w name ctx (leafCtxI ctx' w.nextId (evalKwargs ctx kwargs) payload d) pid payload (injEvents w.nextId d.data) w.rcLeak)
      w.allRefIds toks st hr (alGet_alSet_same ..) rfl rfl hf3 (alGet_alSet_same ..) hdyn hne rfl rfl hf4 hd hp hc hok).trans ?_
    simp only [injW, hdel1, hdel2, hdel3, List.append_assoc, List.cons_append, List.nil_append, Nat.add_sub_cancel, hpc, hpr]

/-! ### `{% provide %}` around the consumer: the page -/

theorem provide_consumer_page (env : Env) (i : Nat) (key ik : Str) (kwP : List (Str × Expr)) (name : Str)
    (kwargs : List (Str × Expr)) (only dyn : Bool) (ctx ctx1 ctx' : Ctx) (w : World) (d : CompDef) (toks : List Tok) (st : Nat)
    (hkey : isIdentifier key = true) (hik : ik = injectPrefix ++ key)
    (hctx1 : ctx1 = ctx ++ [[(ik, .provRef w.nextId)]])
    (hctx' : ctx' = if only || env.isolated then isolatedCopy ctx1 else ctx1)
    (hr : env.raiseAt = none) (hd : findDef env name = some d) (hdyn : isDynName name = false)
    (hp : plainL d.template = true)
    (hsteps : ¬ w.steps + 1 ≥ env.maxSteps) (hgcd : w.gcds < env.maxInst)
    (hext : isExtracting ctx1 = false)
    (hpar : ∀ p, ctxGet ctx' compKey ≠ some (.compRef p))
    -- no provider is alive when the page starts
    (hpc : w.provideCache = []) (hpr : w.provideRefs = [])
    (hids : provIdsOf ctx' = [w.nextId]) (hinj : injectsFrom ctx' w.nextId d.data)
    (hf1 : alGet (w.nextId + 1) w.ctxCache = none) (hf2 : alGet (w.nextId + 1) w.rendererCache = none)
    (hf3 : alGet (w.nextId + 1) w.childAttrs = none) (hf4 : w.allRefIds.contains (w.nextId + 1) = false)
    (hc : ctxFree (leafCtxI ctx' (w.nextId + 1) (evalKwargs ctx1 kwargs) (evalKwargs ctx kwP) d) = true)
    (hok : pNodes env.maxSteps (i + 1) d.template (leafCtxI ctx' (w.nextId + 1) (evalKwargs ctx1 kwargs) (evalKwargs ctx kwP) d)
      (w.steps + 2) = (.ok toks, st)) :
    (renderNode env (i + 8) (.provide key kwP [.comp name kwargs only dyn []]) ctx).run.run w =
      (.ok (.marker name (w.nextId + 1) :: addRootAttrs [idAttr (w.nextId + 1)] toks),
        { w with nextId := w.nextId + 2, steps := st, gcds := w.gcds + 1,
                 events := w.events ++ [.gcd (w.nextId + 1)] ++ injEvents (w.nextId + 1) d.data ++
                   [.before (w.nextId + 1), .after (w.nextId + 1)] }) := by
  have hst0 : ¬ w.steps ≥ env.maxSteps := by omega
  have hW : ∃ W : World, W = holdSelfW w.nextId ({ w with steps := w.steps + 1, nextId := w.nextId + 1, provideCache := alSet w.nextId (evalKwargs ctx kwP) w.provideCache } : World) := ⟨_, rfl⟩
  obtain ⟨W, hWdef⟩ := hW
  have hW1 : W.provideCache = [(w.nextId, evalKwargs ctx kwP)] := by rw [hWdef]; simp [holdSelfW, hpc, alSet]
  have hW2 : W.provideRefs = [(w.nextId, [w.nextId])] := by rw [hWdef]; simp [holdSelfW, hpr, alGet, alSet]
  have hW3 : W.nextId = w.nextId + 1 := by rw [hWdef]; rfl
  have hW4 : W.steps = w.steps + 1 := by rw [hWdef]; rfl
  have hW5 : W.gcds = w.gcds := by rw [hWdef]; rfl
  have hW6 : W.ctxCache = w.ctxCache ∧ W.rendererCache = w.rendererCache ∧ W.childAttrs = w.childAttrs ∧ W.allRefIds = w.allRefIds := by
    rw [hWdef]; exact ⟨rfl, rfl, rfl, rfl⟩
  have hcons := consumer_under_provider env i name kwargs only dyn ctx1 ctx' W d w.nextId (evalKwargs ctx kwP) toks st hctx' hr hd hdyn hp
    (by rw [hW4]; exact hsteps) (by rw [hW5]; exact hgcd) hext hpar hW1 hW2 (by rw [hW3]; omega) hids hinj
    (by rw [hW3, hW6.1]; exact hf1) (by rw [hW3, hW6.2.1]; exact hf2) (by rw [hW3, hW6.2.2.1]; exact hf3)
    (by rw [hW3, hW6.2.2.2]; exact hf4) (by rw [hW3]; exact hc) (by rw [hW3, hW4]; exact hok)
  unfold renderNode
  simp only [run_bind, run_get, hst0, ↓reduceIte, run_set, hkey, Bool.not_true, Bool.false_eq_true, run_genId, run_modify,
    run_tryCatch, ← hik, ← hctx1, ← hWdef]
  simp only [renderNodes, run_bind, hcons, run_pure]
  simp only [cacheCleanup, run_liftW, cacheCleanupW, hW1, hW2, alGet, ↓reduceIte, alSet, List.filter_cons, ne_eq,
    not_true_eq_false, decide_false, Bool.false_eq_true, List.filter_nil, List.isEmpty_nil, popProvideCacheW, alHas,
    Option.isSome_some, alDel, hW3, hW5, hW6.1, hW6.2.1, hW6.2.2.1, hW6.2.2.2, List.append_nil, hpc, hpr]
  have hW7 : W.cap = w.cap ∧ W.events = w.events ∧ W.rcLeak = w.rcLeak := by rw [hWdef]; exact ⟨rfl, rfl, rfl⟩
  rw [hW7.1, hW7.2.1, hW7.2.2]

/-! ### the reading of the properties on the same page -/

open Djc.SpecRender Djc.Proofs.LeafSpec

/-- every `inject()` of the component asks for the key `key` -/
def injectsKey (key : Str) : List (Str × Src) → Prop
  | [] => True
  | (_, .inject k _) :: rest => k = key ∧ injectsKey key rest
  | _ :: rest => injectsKey key rest

theorem dataOf_inj (id : Nat) (key : Str) (payload : Layer) (prov : List (Str × Layer)) (kw : List (Str × Val)) :
    ∀ (data : List (Str × Src)) (acc : Layer), injectsKey key data →
      dataOf id ((key, payload) :: prov) kw data acc = .ok (dataInj id kw payload data acc)
  | [], acc, _ => rfl
  | (out, src) :: rest, acc, h => by
    cases src with
    | inject k dflt =>
      simp only [injectsKey] at h
      simp only [dataOf, injectSpec, h.1, List.find?_cons, decide_true, dataInj, srcValI]
      exact dataOf_inj id key payload prov kw rest _ h.2
    | kwarg k => simp only [injectsKey] at h; simp only [dataOf, dataInj, srcValI, srcVal]; exact dataOf_inj id key payload prov kw rest _ h
    | const v => simp only [injectsKey] at h; simp only [dataOf, dataInj, srcValI, srcVal]; exact dataOf_inj id key payload prov kw rest _ h
    | selfId => simp only [injectsKey] at h; simp only [dataOf, dataInj, srcValI, srcVal]; exact dataOf_inj id key payload prov kw rest _ h
    | side => simp only [injectsKey] at h; simp only [dataOf, dataInj, srcValI, srcVal]; exact dataOf_inj id key payload prov kw rest _ h

/-- the variables the reading gives the consumer's template -/
def specVarsI (lexical : Bool) (vars : Ctx) (id : Nat) (kw : List (Str × Val)) (payload : Layer) (d : CompDef) : Ctx :=
  (if lexical then [[]] else vars) ++ [dataInj id kw payload d.data []] ++ [[(compVarsKey, compVarsOf [])]]

theorem sNode_provide_consumer (env : Env) (m : Nat) (key : Str) (kwP : List (Str × Expr)) (name : Str)
    (kwargs : List (Str × Expr)) (only dyn : Bool) (e : SEnv) (s : SState) (d : CompDef) (toks : List Tok) (st : Nat)
    (hkey : isIdentifier key = true)
    (hd : findDef env name = some d) (hdyn : isDynName name = false)
    (hp : plainL d.template = true) (hinj : injectsKey key d.data)
    (hsteps : ¬ s.steps + 1 ≥ env.maxSteps) (hid : ¬ s.nextId > env.maxInst)
    (hc : ctxFree (specVarsI (only || env.isolated) e.vars s.nextId (evalKwargs e.vars kwargs) (evalKwargs e.vars kwP) d) = true)
    (hok : pNodes env.maxSteps m d.template (specVarsI (only || env.isolated) e.vars s.nextId (evalKwargs e.vars kwargs)
      (evalKwargs e.vars kwP) d) (s.steps + 2) = (.ok toks, st)) :
    ∃ s', (sNode env (m + 3) (.provide key kwP [.comp name kwargs only dyn []]) e).run s =
      .ok (.marker name s.nextId :: addRootAttrs [idAttr s.nextId] toks, s') ∧ s'.steps = st := by
  have hst0 : ¬ s.steps ≥ env.maxSteps := by omega
  unfold sNode
  simp only [srun_bind, srun_get, hst0, ↓reduceIte, srun_set, hkey, Bool.not_true, Bool.false_eq_true]
  simp only [sNodes, srun_bind]
  unfold sNode
  have hv : ∀ (X : Ctx) p i dd, (SEnv.mk X p i dd).vars = X := fun _ _ _ _ => rfl
  have hpv : ∀ (X : Ctx) p i dd, (SEnv.mk X p i dd).prov = p := fun _ _ _ _ => rfl
  simp only [srun_bind, srun_get, hsteps, ↓reduceIte, srun_set, hdyn, Bool.false_eq_true, srun_pure, hd, srun_modify,
    List.isEmpty_nil, List.all_nil, freshId, hid, hv, hpv, dataOf_inj _ _ _ _ _ _ _ hinj]
  have hsp := (spec_plain env m).1 d.template
    (SEnv.mk (specVarsI (only || env.isolated) e.vars s.nextId (evalKwargs e.vars kwargs) (evalKwargs e.vars kwP) d)
      ((key, evalKwargs e.vars kwP) :: e.prov)
      (some (Inst.mk s.nextId [] (List.length (if (only || env.isolated) = true then [[]] else e.vars)) (only || env.isolated))) [])
    { nextId := s.nextId + 1, defaults := s.defaults, nextRef := s.nextRef, cap := s.cap, path := s.path ++ [name], steps := s.steps + 1 + 1, paths := s.paths ++ [s.path ++ [name]] }
    hp hc
  rw [hv] at hsp
  unfold specVarsI at hsp hok
  rw [hsp, hok]
  simp only [asSpec_ok, List.append_nil]
  exact ⟨_, rfl, rfl⟩

theorem leaf_sameVarsI (ctx' base : Ctx) (id : Nat) (kw : List (Str × Val)) (payload : Layer) (d : CompDef)
    (hbase : ∀ k, internal k = false → ctxGet ctx' k = ctxGet base k) :
    SameVars (leafCtxI ctx' id kw payload d) (base ++ [dataInj id kw payload d.data []] ++ [[(compVarsKey, compVarsOf [])]]) := by
  intro k hk
  unfold leafCtxI
  rw [snapshot_get _ _ (ne_of_internal k permKey hk (by decide)) (Ne.symm (ne_of_internal k rcRootKey hk (by decide)))]
  rw [ctxGet_append_one, ctxGet_append_one, ctxGet_append_one, ctxGet_append_one, hbase k hk]
  have hck : ¬ compKey = k := ne_of_internal k compKey hk (by decide)
  simp only [lookupL, hck, ↓reduceIte]
  rfl

/-- **One provider, one consumer, the whole page: the model of the code and the reading print the same**, and the
consumer's `inject()` yields exactly the provider's keyword arguments as evaluated at the `{% provide %}` tag. -/
theorem provide_consumer_model_eq_spec (env : Env) (i : Nat) (key ik : Str) (kwP : List (Str × Expr)) (name : Str)
    (kwargs : List (Str × Expr)) (only dyn : Bool) (ctx ctx1 ctx' : Ctx) (w : World) (e : SEnv) (s : SState) (d : CompDef)
    (toks : List Tok) (st : Nat)
    (hkey : isIdentifier key = true) (hik : ik = injectPrefix ++ key)
    (hctx1 : ctx1 = ctx ++ [[(ik, .provRef w.nextId)]])
    (hctx' : ctx' = if only || env.isolated then isolatedCopy ctx1 else ctx1)
    (hr : env.raiseAt = none) (hd : findDef env name = some d) (hdyn : isDynName name = false)
    (hp : plainL d.template = true) (ho : okNamesL d.template = true)
    (hkwok : kwargs.all (fun kv => okExpr kv.2) = true)
    (hsteps : ¬ w.steps + 1 ≥ env.maxSteps) (hgcd : w.gcds < env.maxInst)
    (hext : isExtracting ctx1 = false)
    (hpar : ∀ p, ctxGet ctx' compKey ≠ some (.compRef p))
    (hpc : w.provideCache = []) (hpr : w.provideRefs = [])
    (hids : provIdsOf ctx' = [w.nextId]) (hinj : injectsFrom ctx' w.nextId d.data) (hinjk : injectsKey key d.data)
    (hf1 : alGet (w.nextId + 1) w.ctxCache = none) (hf2 : alGet (w.nextId + 1) w.rendererCache = none)
    (hf3 : alGet (w.nextId + 1) w.childAttrs = none) (hf4 : w.allRefIds.contains (w.nextId + 1) = false)
    (hc : ctxFree (leafCtxI ctx' (w.nextId + 1) (evalKwargs ctx1 kwargs) (evalKwargs ctx kwP) d) = true)
    (hok : pNodes env.maxSteps (i + 1) d.template (leafCtxI ctx' (w.nextId + 1) (evalKwargs ctx1 kwargs) (evalKwargs ctx kwP) d)
      (w.steps + 2) = (.ok toks, st))
    (he : e.vars = ctx) (hsid : s.nextId = w.nextId + 1) (hss : s.steps = w.steps) (hidle : ¬ s.nextId > env.maxInst)
    (hc2 : ctxFree (specVarsI (only || env.isolated) ctx (w.nextId + 1) (evalKwargs ctx kwargs) (evalKwargs ctx kwP) d) = true)
    (hbase : ∀ k, internal k = false → ctxGet ctx' k = ctxGet (if only || env.isolated then [[]] else ctx) k) :
    (renderNode env (i + 8) (.provide key kwP [.comp name kwargs only dyn []]) ctx).run.run w =
        (.ok (.marker name (w.nextId + 1) :: addRootAttrs [idAttr (w.nextId + 1)] toks),
          { w with nextId := w.nextId + 2, steps := st, gcds := w.gcds + 1,
                   events := w.events ++ [.gcd (w.nextId + 1)] ++ injEvents (w.nextId + 1) d.data ++
                     [.before (w.nextId + 1), .after (w.nextId + 1)] }) ∧
      ∃ s', (sNode env (i + 8) (.provide key kwP [.comp name kwargs only dyn []]) e).run s =
        .ok (.marker name (w.nextId + 1) :: addRootAttrs [idAttr (w.nextId + 1)] toks, s') ∧ s'.steps = st := by
  refine ⟨provide_consumer_page env i key ik kwP name kwargs only dyn ctx ctx1 ctx' w d toks st hkey hik hctx1 hctx' hr hd hdyn hp
    hsteps hgcd hext hpar hpc hpr hids hinj hf1 hf2 hf3 hf4 hc hok, ?_⟩
  subst he
  -- the keyword arguments are evaluated alike with and without the provider's layer
  have hsv1 : SameVars ctx1 e.vars := by
    rw [hctx1]
    exact sameVars_push_inject e.vars e.vars ik _ (by rw [hik]; exact internal_injectKey key) (sameVars_refl _)
  have hkw : evalKwargs ctx1 kwargs = evalKwargs e.vars kwargs := by
    unfold evalKwargs
    apply List.map_congr_left
    intro kv hkv
    rw [evalExpr_same ctx1 e.vars kv.2 hsv1 (List.all_eq_true.mp hkwok kv hkv)]
  have hsame := leaf_sameVarsI ctx' (if only || env.isolated then [[]] else e.vars) (w.nextId + 1) (evalKwargs e.vars kwargs)
    (evalKwargs e.vars kwP) d hbase
  rw [hkw] at hok
  have h1 : pNodes env.maxSteps (i + 1) d.template
      (specVarsI (only || env.isolated) e.vars (w.nextId + 1) (evalKwargs e.vars kwargs) (evalKwargs e.vars kwP) d) (w.steps + 2) = (.ok toks, st) := by
    rw [← hok]
    exact ((pNodes_same env.maxSteps (i + 1)).1 d.template _ _ _ hp ho hsame).symm
  have h2 : pNodes env.maxSteps (i + 1 + 4) d.template
      (specVarsI (only || env.isolated) e.vars (w.nextId + 1) (evalKwargs e.vars kwargs) (evalKwargs e.vars kwP) d) (w.steps + 2) = (.ok toks, st) := by
    rw [pNodes_mono_add _ _ _ _ _ _ (by rw [h1]; simp [notFuel]), h1]
  rw [← hsid, ← hss] at h2
  rw [← hsid] at hc2
  obtain ⟨s', hs', hst⟩ := sNode_provide_consumer env (i + 5) key kwP name kwargs only dyn e s d toks st hkey hd hdyn hp hinjk
    (by rw [hss]; exact hsteps) hidle hc2 h2
  rw [← hsid]
  exact ⟨s', hs', hst⟩

/-! ### siblings under one provider (the shape of the repaired defect 2193c9f) -/

/-- `{% provide %}` around any body that hands the provider's registries back as it found them -/
theorem provide_wrap (env : Env) (n : Nat) (key ik : Str) (kwP : List (Str × Expr)) (body : List Node) (ctx ctx1 : Ctx)
    (w W W' : World) (out : List Tok)
    (hkey : isIdentifier key = true) (hik : ik = injectPrefix ++ key)
    (hctx1 : ctx1 = ctx ++ [[(ik, .provRef w.nextId)]])
    (hsteps : ¬ w.steps ≥ env.maxSteps)
    (hW : W = holdSelfW w.nextId ({ w with steps := w.steps + 1, nextId := w.nextId + 1, provideCache := alSet w.nextId (evalKwargs ctx kwP) w.provideCache } : World))
    (hbody : (renderNodes env n body ctx1).run.run W = (.ok out, W'))
    (h1 : W'.provideCache = [(w.nextId, evalKwargs ctx kwP)]) (h2 : W'.provideRefs = [(w.nextId, [w.nextId])]) :
    (renderNode env (n + 1) (.provide key kwP body) ctx).run.run w =
      (.ok out, { W' with provideCache := [], provideRefs := [] }) := by
  unfold renderNode
  simp only [run_bind, run_get, hsteps, ↓reduceIte, run_set, hkey, Bool.not_true, Bool.false_eq_true, run_genId, run_modify,
    run_tryCatch, ← hik, ← hctx1, ← hW, hbody, run_pure]
  simp only [cacheCleanup, run_liftW, cacheCleanupW, h1, h2, alGet, ↓reduceIte, alSet, List.filter_cons, ne_eq,
    not_true_eq_false, decide_false, Bool.false_eq_true, List.filter_nil, List.isEmpty_nil, popProvideCacheW, alHas,
    Option.isSome_some, alDel]

/-- **Two consumers side by side under one provider**: when the first has finished — and unregistered its reference —
the provided data is still there for the second, and after both the registries are what they were. -/
theorem two_consumers_under_provider (env : Env) (i : Nat) (name1 name2 : Str) (kw1 kw2 : List (Str × Expr))
    (only1 dyn1 only2 dyn2 : Bool) (ctx ctx1' ctx2' : Ctx) (w : World) (d1 d2 : CompDef) (pid : Nat) (payload : Layer)
    (toks1 toks2 : List Tok) (st1 st2 : Nat)
    (hctx1' : ctx1' = if only1 || env.isolated then isolatedCopy ctx else ctx)
    (hctx2' : ctx2' = if only2 || env.isolated then isolatedCopy ctx else ctx)
    (hr : env.raiseAt = none)
    (hd1 : findDef env name1 = some d1) (hdyn1 : isDynName name1 = false) (hp1 : plainL d1.template = true)
    (hd2 : findDef env name2 = some d2) (hdyn2 : isDynName name2 = false) (hp2 : plainL d2.template = true)
    (hsteps1 : ¬ w.steps ≥ env.maxSteps) (hsteps2 : ¬ st1 ≥ env.maxSteps) (hgcd : w.gcds + 1 < env.maxInst)
    (hext : isExtracting ctx = false)
    (hpar1 : ∀ p, ctxGet ctx1' compKey ≠ some (.compRef p)) (hpar2 : ∀ p, ctxGet ctx2' compKey ≠ some (.compRef p))
    (hpc : w.provideCache = [(pid, payload)]) (hpr : w.provideRefs = [(pid, [pid])])
    (hne1 : pid ≠ w.nextId) (hne2 : pid ≠ w.nextId + 1)
    (hids1 : provIdsOf ctx1' = [pid]) (hinj1 : injectsFrom ctx1' pid d1.data)
    (hids2 : provIdsOf ctx2' = [pid]) (hinj2 : injectsFrom ctx2' pid d2.data)
    (hf1 : ∀ k, w.nextId ≤ k → alGet k w.ctxCache = none ∧ alGet k w.rendererCache = none ∧ alGet k w.childAttrs = none ∧
      w.allRefIds.contains k = false)
    (hc1 : ctxFree (leafCtxI ctx1' w.nextId (evalKwargs ctx kw1) payload d1) = true)
    (hok1 : pNodes env.maxSteps (i + 2) d1.template (leafCtxI ctx1' w.nextId (evalKwargs ctx kw1) payload d1) (w.steps + 1) = (.ok toks1, st1))
    (hc2 : ctxFree (leafCtxI ctx2' (w.nextId + 1) (evalKwargs ctx kw2) payload d2) = true)
    (hok2 : pNodes env.maxSteps (i + 1) d2.template (leafCtxI ctx2' (w.nextId + 1) (evalKwargs ctx kw2) payload d2) (st1 + 1) = (.ok toks2, st2)) :
    (renderNodes env (i + 8) [.comp name1 kw1 only1 dyn1 [], .comp name2 kw2 only2 dyn2 []] ctx).run.run w =
      (.ok ((.marker name1 w.nextId :: addRootAttrs [idAttr w.nextId] toks1) ++
            ((.marker name2 (w.nextId + 1) :: addRootAttrs [idAttr (w.nextId + 1)] toks2) ++ [])),
        { w with nextId := w.nextId + 2, steps := st2, gcds := w.gcds + 2,
                 events := w.events ++ [.gcd w.nextId] ++ injEvents w.nextId d1.data ++ [.before w.nextId, .after w.nextId] ++
                   [.gcd (w.nextId + 1)] ++ injEvents (w.nextId + 1) d2.data ++ [.before (w.nextId + 1), .after (w.nextId + 1)] }) := by
  obtain ⟨a1, a2, a3, a4⟩ := hf1 w.nextId (Nat.le_refl _)
  obtain ⟨b1, b2, b3, b4⟩ := hf1 (w.nextId + 1) (Nat.le_succ _)
  have hfirst := consumer_under_provider env (i + 1) name1 kw1 only1 dyn1 ctx ctx1' w d1 pid payload toks1 st1 hctx1' hr hd1 hdyn1 hp1
    hsteps1 (by omega) hext hpar1 hpc hpr hne1 hids1 hinj1 a1 a2 a3 a4 hc1 hok1
  have hW1 : ∃ W1 : World, W1 = ({ w with nextId := w.nextId + 1, steps := st1, gcds := w.gcds + 1, events := w.events ++ [.gcd w.nextId] ++ injEvents w.nextId d1.data ++ [.before w.nextId, .after w.nextId] } : World) := ⟨_, rfl⟩
  obtain ⟨W1, hW1⟩ := hW1
  rw [← hW1] at hfirst
  have e1 : W1.nextId = w.nextId + 1 := by rw [hW1]
  have e2 : W1.steps = st1 := by rw [hW1]
  have e3 : W1.gcds = w.gcds + 1 := by rw [hW1]
  have e4 : W1.provideCache = [(pid, payload)] ∧ W1.provideRefs = [(pid, [pid])] := by rw [hW1]; exact ⟨hpc, hpr⟩
  have e5 : W1.ctxCache = w.ctxCache ∧ W1.rendererCache = w.rendererCache ∧ W1.childAttrs = w.childAttrs ∧ W1.allRefIds = w.allRefIds := by
    rw [hW1]; exact ⟨rfl, rfl, rfl, rfl⟩
  have hsecond := consumer_under_provider env i name2 kw2 only2 dyn2 ctx ctx2' W1 d2 pid payload toks2 st2 hctx2' hr hd2 hdyn2 hp2
    (by rw [e2]; exact hsteps2) (by rw [e3]; exact hgcd) hext hpar2 e4.1 e4.2 (by rw [e1]; exact hne2) hids2 hinj2
    (by rw [e1, e5.1]; exact b1) (by rw [e1, e5.2.1]; exact b2) (by rw [e1, e5.2.2.1]; exact b3) (by rw [e1, e5.2.2.2]; exact b4)
    (by rw [e1]; exact hc2) (by rw [e1, e2]; exact hok2)
  simp only [renderNodes, run_bind, hfirst, hsecond, run_pure]
  rw [hW1]

end Djc.Proofs.Inject
