import Djc.Model.Deps
namespace Djc.Proofs.Deps
open Djc.Model.Deps

/-! ### list arithmetic for the two insertions -/

theorem take_insert_ge (s C : List Char) (h b : Nat) (hh : h ≤ s.length) (hb : h ≤ b) :
    (s.take h ++ C ++ s.drop h).take (b + C.length) = s.take h ++ C ++ (s.drop h).take (b - h) := by
  have hl : (s.take h).length = h := by simp [List.length_take]; omega
  rw [List.append_assoc, List.take_append, hl]
  have h1 : (s.take h).take (b + C.length) = s.take h := by
    apply List.take_of_length_le; omega
  rw [h1, List.take_append]
  have h2 : C.take (b + C.length - h) = C := by
    apply List.take_of_length_le; omega
  rw [h2]
  have h3 : b + C.length - h - C.length = b - h := by omega
  rw [h3, List.append_assoc]

theorem drop_insert_ge (s C : List Char) (h b : Nat) (hh : h ≤ s.length) (hb : h ≤ b) :
    (s.take h ++ C ++ s.drop h).drop (b + C.length) = s.drop b := by
  have hl : (s.take h).length = h := by simp [List.length_take]; omega
  rw [List.append_assoc, List.drop_append, hl]
  have h1 : (s.take h).drop (b + C.length) = [] := by
    apply List.drop_of_length_le; omega
  rw [h1, List.nil_append, List.drop_append]
  have h2 : C.drop (b + C.length - h) = [] := by
    apply List.drop_of_length_le; omega
  rw [h2, List.nil_append, List.drop_drop]
  congr 1; omega

theorem take_insert_lt (s C : List Char) (h b : Nat) (hh : h ≤ s.length) (hb : b ≤ h) :
    (s.take h ++ C ++ s.drop h).take b = s.take b := by
  have hl : (s.take h).length = h := by simp [List.length_take]; omega
  rw [List.append_assoc, List.take_append, hl]
  have h0 : b - h = 0 := by omega
  rw [h0, List.take_zero, List.append_nil, List.take_take]
  congr 1; omega

theorem drop_insert_lt (s C : List Char) (h b : Nat) (hh : h ≤ s.length) (hb : b ≤ h) :
    (s.take h ++ C ++ s.drop h).drop b = (s.drop b).take (h - b) ++ C ++ s.drop h := by
  have hl : (s.take h).length = h := by simp [List.length_take]; omega
  rw [List.append_assoc, List.drop_append, hl]
  have h0 : b - h = 0 := by omega
  rw [h0, List.drop_zero, List.append_assoc]
  congr 1
  rw [List.take_drop]
  congr 1
  have : b + (h - b) = h := by omega
  rw [this]

/-! ### scanning for the end tags -/

theorem firstHead_spec (ci : Bool) (s : List Char) :
    (∀ h, firstHead ci s = some h →
        matchEndTag ci (s.drop h) = some .head ∧ h < s.length ∧
        ∀ k, k < h → matchEndTag ci (s.drop k) ≠ some .head) ∧
    (firstHead ci s = none → ∀ k, matchEndTag ci (s.drop k) ≠ some .head) := by
  induction s with
  | nil =>
    refine ⟨by simp [firstHead], ?_⟩
    intro _ k; simp [matchEndTag]
  | cons c cs ih =>
    by_cases hm : matchEndTag ci (c :: cs) = some .head
    · simp only [firstHead, hm, if_true]
      refine ⟨?_, by simp⟩
      intro h hh
      simp at hh; subst hh
      exact ⟨by simpa using hm, by simp, by intro k hk; omega⟩
    · simp only [firstHead, hm, if_false]
      constructor
      · intro h hh
        cases hf : firstHead ci cs with
        | none => simp [hf] at hh
        | some h' =>
          simp [hf] at hh; subst hh
          have := ih.1 h' hf
          refine ⟨by simpa using this.1, by simp; omega, ?_⟩
          intro k hk
          cases k with
          | zero => simpa using hm
          | succ k' => simpa using this.2.2 k' (by omega)
      · intro hn k
        cases hf : firstHead ci cs with
        | some h' => simp [hf] at hn
        | none =>
          cases k with
          | zero => simpa using hm
          | succ k' => simpa using ih.2 hf k'

theorem lastBody_spec (ci : Bool) (s : List Char) :
    (∀ b, lastBody ci s = some b →
        matchEndTag ci (s.drop b) = some .body ∧ b < s.length ∧
        ∀ k, b < k → matchEndTag ci (s.drop k) ≠ some .body) ∧
    (lastBody ci s = none → ∀ k, matchEndTag ci (s.drop k) ≠ some .body) := by
  induction s with
  | nil =>
    refine ⟨by simp [lastBody], ?_⟩
    intro _ k; simp [matchEndTag]
  | cons c cs ih =>
    cases hl : lastBody ci cs with
    | some i =>
      simp only [lastBody, hl]
      have := ih.1 i hl
      refine ⟨?_, by simp⟩
      intro b hb
      simp at hb; subst hb
      refine ⟨by simpa using this.1, by simp; omega, ?_⟩
      intro k hk
      cases k with
      | zero => omega
      | succ k' => simpa using this.2.2 k' (by omega)
    | none =>
      simp only [lastBody, hl]
      have hnone := ih.2 hl
      by_cases hm : matchEndTag ci (c :: cs) = some .body
      · simp only [hm, if_true]
        refine ⟨?_, by simp⟩
        intro b hb
        simp at hb; subst hb
        refine ⟨by simpa using hm, by simp, ?_⟩
        intro k hk
        cases k with
        | zero => omega
        | succ k' => simpa using hnone k'
      · simp only [hm, if_false]
        refine ⟨by simp, ?_⟩
        intro _ k
        cases k with
        | zero => simpa using hm
        | succ k' => simpa using hnone k'

/-! ### regex substitution -/

theorem subAllGo_skip (m : List Char → Option (Nat × List Char)) (k : Nat) (s : List Char) :
    subAllGo m k s = subAllGo m 0 (s.drop k) := by
  induction k generalizing s with
  | zero => simp
  | succ k ih =>
    cases s with
    | nil => simp [subAllGo]
    | cons c cs => simp [subAllGo, ih]

theorem subAll_nil (m : List Char → Option (Nat × List Char)) : subAll m [] = [] := by
  simp [subAll, subAllGo]

theorem subAll_cons (m : List Char → Option (Nat × List Char)) (c : Char) (cs : List Char) :
    subAll m (c :: cs) =
      match m (c :: cs) with
      | some (n, r) => r ++ subAll m (cs.drop n)
      | none => c :: subAll m cs := by
  simp only [subAll, subAllGo]
  cases hm : m (c :: cs) with
  | none => rfl
  | some p => obtain ⟨n, r⟩ := p; simp [subAllGo_skip m n cs]

/-- induction along the scan of `subAll` -/
theorem scan_induct (m : List Char → Option (Nat × List Char)) (P : List Char → Prop)
    (hnil : P [])
    (hhit : ∀ c cs n r, m (c :: cs) = some (n, r) → P (cs.drop n) → P (c :: cs))
    (hkeep : ∀ c cs, m (c :: cs) = none → P cs → P (c :: cs)) : ∀ s, P s := by
  intro s
  generalize hl : s.length = len
  induction len using Nat.strongRecOn generalizing s with
  | _ len ih =>
    cases s with
    | nil => exact hnil
    | cons c cs =>
      cases hm : m (c :: cs) with
      | none => exact hkeep c cs hm (ih cs.length (by simp at hl; omega) cs rfl)
      | some p =>
        obtain ⟨n, r⟩ := p
        refine hhit c cs n r hm (ih (cs.drop n).length ?_ _ rfl)
        have := List.length_drop (i := n) (l := cs)
        simp at hl; omega

/-- "`out` is `s` with some matches of `m` replaced and every other character kept, in order". -/
inductive EditScript (m : List Char → Option (Nat × List Char)) : List Char → List Char → Prop where
  | nil : EditScript m [] []
  | keep (c : Char) (cs out : List Char) :
      m (c :: cs) = none → EditScript m cs out → EditScript m (c :: cs) (c :: out)
  | hit (c : Char) (cs out r : List Char) (n : Nat) :
      m (c :: cs) = some (n, r) → EditScript m (cs.drop n) out →
      EditScript m (c :: cs) (r ++ out)

theorem subAll_editScript (m : List Char → Option (Nat × List Char)) (s : List Char) :
    EditScript m s (subAll m s) := by
  induction s using scan_induct m with
  | hnil => rw [subAll_nil]; exact .nil
  | hhit c cs n r hm ih =>
    rw [subAll_cons]; simp only [hm]
    exact .hit c cs _ r n hm ih
  | hkeep c cs hm ih =>
    rw [subAll_cons]; simp only [hm]
    exact .keep c cs _ hm ih

theorem subAll_sublist_of_delete (m : List Char → Option (Nat × List Char))
    (hdel : ∀ s n r, m s = some (n, r) → r = []) (s : List Char) :
    List.Sublist (subAll m s) s := by
  induction s using scan_induct m with
  | hnil => rw [subAll_nil]; exact List.Sublist.slnil
  | hhit c cs n r hm ih =>
    rw [subAll_cons]; simp only [hm]
    rw [hdel _ _ _ hm, List.nil_append]
    exact (ih.trans (List.drop_sublist n cs)).trans (List.sublist_cons_self c cs)
  | hkeep c cs hm ih =>
    rw [subAll_cons]; simp only [hm]
    exact List.Sublist.cons_cons c ih

theorem subAll_noop (m : List Char → Option (Nat × List Char)) (s : List Char)
    (h : ∀ k, m (s.drop k) = none) : subAll m s = s := by
  induction s with
  | nil => rw [subAll_nil]
  | cons c cs ih =>
    have h0 : m (c :: cs) = none := by simpa using h 0
    rw [subAll_cons]; simp only [h0]
    congr 1
    apply ih
    intro k
    simpa using h (k + 1)

theorem foundKind_false (k : Kind) (s : List Char)
    (h : ∀ i, matchPlaceholder (s.drop i) = none) : foundKind k s = false := by
  induction s with
  | nil => simp [foundKind, foundGo]
  | cons c cs ih =>
    have h0 : matchPlaceholder (c :: cs) = none := by simpa using h 0
    simp only [foundKind, foundGo, h0]
    apply ih
    intro i
    simpa using h (i + 1)

end Djc.Proofs.Deps
