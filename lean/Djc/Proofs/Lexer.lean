import Djc.Model.Lexer
namespace Djc.Proofs.Lexer
open Djc.Model.Lexer

/-! ### scanners -/

theorem findCloser_bound (d : Bool) (c1 c2 : Char) (s : Str) (k : Nat)
    (h : findCloser d c1 c2 s = some k) : k + 2 ≤ s.length := by
  induction s generalizing k with
  | nil => simp [findCloser] at h
  | cons a rest ih =>
    rw [findCloser] at h
    split at h
    · rename_i hc
      cases h
      cases rest with
      | nil => simp at hc
      | cons b tl => simp
    · split at h
      · cases h
      · generalize findCloser d c1 c2 rest = r at h ih
        cases r with
        | none => simp at h
        | some k' =>
          simp at h; subst h
          have := ih k' rfl
          simp; omega

theorem findTag_bound (d : Bool) (s : Str) (a len : Nat) (h : findTag d s = some (a, len)) :
    a + len ≤ s.length ∧ 4 ≤ len := by
  induction s generalizing a len with
  | nil => simp [findTag] at h
  | cons x rest ih =>
    simp only [findTag] at h
    split at h
    · rename_i len' hhere
      cases h
      -- `here = some len'`
      split at hhere
      · cases rest with
        | nil => simp at hhere
        | cons c body =>
          simp only at hhere
          cases hc : closerOf c with
          | none => simp [hc] at hhere
          | some cc =>
            obtain ⟨c1, c2⟩ := cc
            simp only [hc] at hhere
            cases hf : findCloser d c1 c2 body with
            | none => simp [hf] at hhere
            | some k =>
              simp [hf] at hhere; subst hhere
              have := findCloser_bound d c1 c2 body k hf
              simp; omega
      · cases hhere
    · cases hr : findTag d rest with
      | none => simp [hr] at h
      | some p =>
        obtain ⟨a', l'⟩ := p
        simp [hr] at h
        obtain ⟨rfl, rfl⟩ := h
        have := ih a' l' hr
        simp; omega

theorem mkTagTok_span (verb : Option Str) (tag : Str) (start lineno : Nat) :
    (mkTagTok verb tag start lineno).1.start = start ∧
    (mkTagTok verb tag start lineno).1.stop = start + tag.length ∧
    (mkTagTok verb tag start lineno).1.lineno = lineno := by
  unfold mkTagTok
  simp only
  split
  · split
    · split <;> simp
    · simp
  · split <;> simp
  · split <;> simp

/-! ### contiguity -/

/-- the tokens' spans chain from `a` to `b`, each of them non-empty -/
def Contig : List Tok → Nat → Nat → Prop
  | [], a, b => a = b
  | t :: ts, a, b => t.start = a ∧ t.start < t.stop ∧ Contig ts t.stop b

theorem contig_append {xs ys : List Tok} {a m b : Nat} (h1 : Contig xs a m) (h2 : Contig ys m b) :
    Contig (xs ++ ys) a b := by
  induction xs generalizing a with
  | nil => simp [Contig] at h1; subst h1; exact h2
  | cons t ts ih => exact ⟨h1.1, h1.2.1, ih h1.2.2⟩

theorem contig_split {xs ys : List Tok} {a b : Nat} (h : Contig (xs ++ ys) a b) :
    ∃ m, Contig xs a m ∧ Contig ys m b := by
  induction xs generalizing a with
  | nil => exact ⟨a, rfl, h⟩
  | cons t ts ih =>
    obtain ⟨m, h1, h2⟩ := ih h.2.2
    exact ⟨m, ⟨h.1, h.2.1, h1⟩, h2⟩

theorem contig_le {xs : List Tok} {a b : Nat} (h : Contig xs a b) : a ≤ b := by
  induction xs generalizing a with
  | nil => simp [Contig] at h; omega
  | cons t ts ih => have := ih h.2.2; have := h.1; have := h.2.1; omega

theorem contig_mem_bounds {xs : List Tok} {a b : Nat} (h : Contig xs a b) (t : Tok) (ht : t ∈ xs) :
    a ≤ t.start ∧ t.start < t.stop ∧ t.stop ≤ b := by
  induction xs generalizing a with
  | nil => cases ht
  | cons x ts ih =>
    rcases List.mem_cons.mp ht with e | e
    · subst e
      exact ⟨by have := h.1; omega, h.2.1, contig_le h.2.2⟩
    · have hrec := ih h.2.2 e
      have h1 := h.1; have h2 := h.2.1
      exact ⟨by omega, hrec.2.1, hrec.2.2⟩

/-- every token's line number is one plus the number of newlines before its start -/
def LineOK (text : Str) (toks : List Tok) : Prop :=
  ∀ t, t ∈ toks → t.lineno = 1 + countNl (text.take t.start)

theorem countNl_take_add (text : Str) (p a : Nat) :
    countNl (text.take (p + a)) = countNl (text.take p) + countNl ((text.drop p).take a) := by
  simp [countNl, List.take_add, List.count_append]

theorem stockGo_spec (d : Bool) (text : Str) :
    ∀ (fuel : Nat) (pos lineno : Nat) (verb : Option Str),
      (text.drop pos).length < fuel → pos ≤ text.length →
      lineno = 1 + countNl (text.take pos) →
      Contig (stockGo d fuel (text.drop pos) pos lineno verb) pos text.length ∧
      LineOK text (stockGo d fuel (text.drop pos) pos lineno verb) := by
  intro fuel
  induction fuel with
  | zero => intro pos lineno verb h; omega
  | succ fuel ih =>
    intro pos lineno verb hfuel hpos hline
    have hlen : (text.drop pos).length = text.length - pos := by simp
    simp only [stockGo]
    by_cases hemp : (text.drop pos).isEmpty = true
    · simp only [hemp, if_true]
      have : (text.drop pos).length = 0 := by simp [List.isEmpty_iff.mp hemp]
      refine ⟨?_, by intro t ht; cases ht⟩
      simp only [Contig]; omega
    · simp only [hemp, Bool.false_eq_true, if_false]
      have hne : 0 < (text.drop pos).length := by
        cases h : text.drop pos with
        | nil => simp [h] at hemp
        | cons x xs => simp
      cases hft : findTag d (text.drop pos) with
      | none =>
        simp only
        constructor
        · simp only [Contig]
          refine ⟨trivial, ?_, ?_⟩ <;> omega
        · intro t ht
          simp at ht; subst ht
          simpa using hline
      | some p =>
        obtain ⟨a, len⟩ := p
        have hb := findTag_bound d _ a len hft
        simp only
        -- abbreviations
        have htaglen : ((text.drop pos).drop a |>.take len).length = len := by
          simp [List.length_take]; omega
        have hspan := mkTagTok_span verb ((text.drop pos).drop a |>.take len) (pos + a)
          (lineno + countNl ((text.drop pos).take a))
        have hrest : (text.drop pos).drop (a + len) = text.drop (pos + a + len) := by
          simp [List.drop_drop, Nat.add_assoc]
        have hln1 : lineno + countNl ((text.drop pos).take a) = 1 + countNl (text.take (pos + a)) := by
          rw [countNl_take_add, hline]; omega
        have hln2 : lineno + countNl ((text.drop pos).take a)
              + countNl ((text.drop pos).drop a |>.take len)
            = 1 + countNl (text.take (pos + a + len)) := by
          rw [hln1, countNl_take_add text (pos + a) len]
          simp [List.drop_drop]; omega
        have hrec := ih (pos + a + len)
          (lineno + countNl ((text.drop pos).take a) + countNl ((text.drop pos).drop a |>.take len))
          (mkTagTok verb ((text.drop pos).drop a |>.take len) (pos + a)
            (lineno + countNl ((text.drop pos).take a))).2
          (by simp; omega) (by omega) hln2
        rw [hrest]
        constructor
        · -- contiguity
          have htail : Contig
              ((mkTagTok verb ((text.drop pos).drop a |>.take len) (pos + a)
                  (lineno + countNl ((text.drop pos).take a))).1 ::
                stockGo d fuel (text.drop (pos + a + len)) (pos + a + len)
                  (lineno + countNl ((text.drop pos).take a)
                    + countNl ((text.drop pos).drop a |>.take len))
                  (mkTagTok verb ((text.drop pos).drop a |>.take len) (pos + a)
                    (lineno + countNl ((text.drop pos).take a))).2)
              (pos + a) text.length := by
            refine ⟨hspan.1, ?_, ?_⟩
            · rw [hspan.1, hspan.2.1, htaglen]; omega
            · rw [hspan.2.1, htaglen]; exact hrec.1
          by_cases hpre : ((text.drop pos).take a).isEmpty = true
          · have ha0 : a = 0 := by
              have : ((text.drop pos).take a).length = 0 := by simp [List.isEmpty_iff.mp hpre]
              simp [List.length_take] at this; omega
            subst ha0
            simpa [hpre] using htail
          · simp only [hpre, Bool.false_eq_true, if_false]
            have ha : 0 < a := by
              cases a with
              | zero => simp at hpre
              | succ n => omega
            exact ⟨rfl, by simp; omega, htail⟩
        · -- line numbers
          intro t ht
          simp only [List.mem_append, List.mem_cons] at ht
          rcases ht with ht | ht | ht
          · by_cases hpre : ((text.drop pos).take a).isEmpty = true
            · simp [hpre] at ht
            · simp [hpre] at ht; subst ht; simpa using hline
          · subst ht
            rw [hspan.2.2, hspan.1]; exact hln1
          · exact hrec.2 t ht

/-! ### the quote-aware scanner -/

theorem scanStrAux_length (q : Char) (s : Str) :
    ∀ esc, (scanStrAux q esc s).1 ++ (scanStrAux q esc s).2 = s := by
  induction s with
  | nil => intro esc; cases esc <;> simp [scanStrAux]
  | cons a rest ih =>
    intro esc
    cases esc with
    | true => simp [scanStrAux, ih false]
    | false =>
      simp only [scanStrAux]
      split
      · simp [ih true]
      · split
        · simp
        · simp [ih false]

theorem takeWhile_append_dropWhile' (p : Char → Bool) (s : Str) :
    s.takeWhile p ++ s.dropWhile p = s := List.takeWhile_append_dropWhile

/-- invariant of the main loop: what was consumed so far is `content`, and
`used + remaining.length` is constant -/
theorem detailedGo_spec :
    ∀ (fuel : Nat) (rest content : Str) (used : Nat) (out : Str) (n : Nat),
      detailedGo fuel rest content used = .ok (out, n) →
      ∃ mid tail, rest = mid ++ '%' :: '}' :: tail ∧ out = content ++ mid ∧
        n = used + mid.length + 2 := by
  intro fuel
  induction fuel with
  | zero => intro rest content used out n h; simp [detailedGo] at h
  | succ fuel ih =>
    intro rest content used out n h
    cases rest with
    | nil => simp [detailedGo] at h
    | cons c cs =>
      simp only [detailedGo] at h
      by_cases hq : c = '\'' ∨ c = '"'
      · -- quoted string
        simp only [hq, if_true] at h
        have hsplit : (scanStr c cs).1 ++ (scanStr c cs).2 = cs := scanStrAux_length c cs false
        by_cases hh : (scanStr c cs).2.head? = some c
        · simp only [hh, if_true] at h
          obtain ⟨mid, tail, h1, h2, h3⟩ := ih _ _ _ _ _ h
          have h2nd : (scanStr c cs).2 = c :: (scanStr c cs).2.tail := by
            cases hr : (scanStr c cs).2 with
            | nil => simp [hr] at hh
            | cons x xs => simp [hr] at hh; simp [hh]
          refine ⟨c :: (scanStr c cs).1 ++ c :: mid, tail, ?_, ?_, ?_⟩
          · calc c :: cs = c :: ((scanStr c cs).1 ++ (scanStr c cs).2) := by rw [hsplit]
              _ = c :: ((scanStr c cs).1 ++ c :: (scanStr c cs).2.tail) := by rw [← h2nd]
              _ = c :: ((scanStr c cs).1 ++ c :: (mid ++ '%' :: '}' :: tail)) := by rw [h1]
              _ = (c :: (scanStr c cs).1 ++ c :: mid) ++ '%' :: '}' :: tail := by simp
          · rw [h2]; simp
          · rw [h3]; simp; omega
        · simp [hh] at h
      · simp only [hq, if_false] at h
        by_cases hp : c = '%'
        · simp only [hp, if_true] at h
          by_cases hb : cs.head? = some '}'
          · simp only [hb, if_true] at h
            cases h
            cases cs with
            | nil => simp at hb
            | cons x xs =>
              simp at hb; subst hb
              exact ⟨[], xs, by simp [hp], by simp, by simp⟩
          · simp only [hb, if_false] at h
            obtain ⟨mid, tail, h1, h2, h3⟩ := ih _ _ _ _ _ h
            refine ⟨'%' :: mid, tail, ?_, ?_, ?_⟩
            · rw [hp, h1]; simp
            · rw [h2]; simp
            · rw [h3]; simp; omega
        · simp only [hp, if_false] at h
          obtain ⟨mid, tail, h1, h2, h3⟩ := ih _ _ _ _ _ h
          refine ⟨(c :: cs).takeWhile isPlain ++ mid, tail, ?_, ?_, ?_⟩
          · calc c :: cs = (c :: cs).takeWhile isPlain ++ (c :: cs).dropWhile isPlain :=
                  (takeWhile_append_dropWhile' isPlain (c :: cs)).symm
              _ = (c :: cs).takeWhile isPlain ++ (mid ++ '%' :: '}' :: tail) := by rw [h1]
              _ = ((c :: cs).takeWhile isPlain ++ mid) ++ '%' :: '}' :: tail := by simp
          · rw [h2]; simp
          · rw [h3]; simp; omega

theorem detailed_spec (text : Str) (lineno start : Nat) (t : Tok)
    (h : detailed text lineno start = .ok t) :
    t.typ = .block ∧ t.start = start ∧ t.lineno = lineno ∧
    ∃ mid tail, text.drop 2 = mid ++ '%' :: '}' :: tail ∧ t.contents = strip mid ∧
      t.stop = start + (mid.length + 4) := by
  unfold detailed at h
  cases hd : detailedGo (text.length + 1) (text.drop 2) [] 2 with
  | error e => simp [hd] at h
  | ok r =>
    obtain ⟨out, n⟩ := r
    simp [hd] at h
    subst h
    obtain ⟨mid, tail, h1, h2, h3⟩ := detailedGo_spec _ _ _ _ _ _ hd
    refine ⟨rfl, rfl, rfl, mid, tail, h1, by simp [h2], by simp [h3]; omega⟩

theorem dropWhile_nil_of_all {α : Type} (p : α → Bool) (l : List α) (h : ∀ x, x ∈ l → p x = true) :
    l.dropWhile p = [] := by
  induction l with
  | nil => rfl
  | cons x xs ih => simp [List.dropWhile, h x (by simp), ih (fun y hy => h y (by simp [hy]))]

theorem takeWhile_self_of_all {α : Type} (p : α → Bool) (l : List α) (h : ∀ x, x ∈ l → p x = true) :
    l.takeWhile p = l := by
  induction l with
  | nil => rfl
  | cons x xs ih => simp [List.takeWhile, h x (by simp), ih (fun y hy => h y (by simp [hy]))]

end Djc.Proofs.Lexer
