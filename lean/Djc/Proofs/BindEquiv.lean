/-
  C11: the tag behaves as the Python call (inside the hypothesis `H` of `Djc/Spec/Bind.lean`).
  Helper lemmas for `Djc/Props/C11.lean: tagCall_eq_pyCall_partial`.
-/
import Djc.Proofs.Bind
import Djc.Spec.Bind
namespace Djc.Proofs.BindEquiv
open Djc.AList Djc.Model.Bind Djc.Spec.Bind Djc.Proofs.Bind

set_option linter.unusedSectionVars false
variable {κ : Type} [DecidableEq κ]

def posL (P : List Nat) : List (Arg κ) := P.map .pos
def kwL (K : List (κ × Nat)) : List (Arg κ) := K.map (fun e => .kw e.1 e.2)

@[simp] theorem posL_nil : (posL [] : List (Arg κ)) = [] := rfl
@[simp] theorem kwL_nil : (kwL ([] : List (κ × Nat))) = [] := rfl
@[simp] theorem posL_cons (v : Nat) (P : List Nat) : (posL (v :: P) : List (Arg κ)) = .pos v :: posL P := rfl
@[simp] theorem kwL_cons (k : κ) (v : Nat) (K : List (κ × Nat)) : kwL ((k, v) :: K) = .kw k v :: kwL K := rfl

/-! ### shape of the argument list -/

theorem splitArgs_some : ∀ {L : List (Arg κ)} {P : List Nat} {K : List (κ × Nat)},
    splitArgs L = some (P, K) → L = posL P ++ kwL K
  | [], P, K, h => by simp [splitArgs] at h; obtain ⟨rfl, rfl⟩ := h; rfl
  | .pos v :: rest, P, K, h => by
    simp only [splitArgs] at h
    cases hr : splitArgs rest with
    | none => simp [hr] at h
    | some pk =>
      obtain ⟨p, k⟩ := pk
      simp only [hr, Option.some.injEq, Prod.mk.injEq] at h
      obtain ⟨rfl, rfl⟩ := h
      simp [splitArgs_some hr]
  | .kw k v :: rest, P, K, h => by
    simp only [splitArgs] at h
    cases hr : splitArgs rest with
    | none => simp [hr] at h
    | some pk =>
      obtain ⟨p, ks⟩ := pk
      cases p with
      | cons x xs => simp [hr] at h
      | nil =>
        simp only [hr, Option.some.injEq, Prod.mk.injEq] at h
        obtain ⟨rfl, rfl⟩ := h
        have := splitArgs_some hr
        simp at this
        simp [this]

theorem hasPos_posL_append (x : Nat) (xs : List Nat) (L : List (Arg κ)) : hasPos (posL (x :: xs) ++ L) = true := by
  simp [hasPos]

theorem splitArgs_none : ∀ {L : List (Arg κ)}, splitArgs L = none → posAfterKw L = true
  | [], h => by simp [splitArgs] at h
  | .pos v :: rest, h => by
    simp only [splitArgs] at h
    cases hr : splitArgs rest with
    | none => simpa [posAfterKw] using splitArgs_none hr
    | some pk => obtain ⟨p, k⟩ := pk; simp [hr] at h
  | .kw k v :: rest, h => by
    simp only [splitArgs] at h
    simp only [posAfterKw, Bool.or_eq_true]
    cases hr : splitArgs rest with
    | none => exact Or.inr (splitArgs_none hr)
    | some pk =>
      obtain ⟨p, ks⟩ := pk
      cases p with
      | nil => simp [hr] at h
      | cons x xs =>
        left
        rw [splitArgs_some hr]
        exact hasPos_posL_append x xs _

/-! ### a positional after a keyword is refused -/

theorem vloop_posAfterKw (path : Path) (s : Sig κ) : ∀ (L : List (Arg κ)) (st : VState κ),
    ((st.seenKw = true ∧ hasPos L = true) ∨ posAfterKw L = true) → ∃ e, vloop path s st L = .error e
  | [], st, h => by simp [hasPos, posAfterKw] at h
  | .pos v :: rest, st, h => by
    simp only [vloop]
    cases hv : vstep path s st (.pos v) with
    | error e => exact ⟨e, rfl⟩
    | ok st' =>
      simp only
      have hsk : st.seenKw = false := by
        cases hk : st.seenKw with
        | false => rfl
        | true => simp [vstep, hk] at hv
      have hsk' : st'.seenKw = false := by
        simp only [vstep, hsk, Bool.false_eq_true, if_false] at hv
        split at hv
        · cases hv
        · split at hv
          · split at hv
            · cases hv
            · cases hv; rfl
          · cases hv; rfl
      refine vloop_posAfterKw path s rest st' ?_
      rcases h with ⟨h1, _⟩ | h
      · rw [hsk] at h1; cases h1
      · right; simpa [posAfterKw] using h
  | .kw k v :: rest, st, h => by
    simp only [vloop]
    cases hv : vstep path s st (.kw k v) with
    | error e => exact ⟨e, rfl⟩
    | ok st' =>
      simp only
      have hsk' : st'.seenKw = true := by
        simp only [vstep] at hv
        split at hv
        · cases hv
        · split at hv
          · cases hv
          · cases hv; rfl
      refine vloop_posAfterKw path s rest st' ?_
      rcases h with ⟨_, h2⟩ | h
      · left; exact ⟨hsk', by simpa [hasPos] using h2⟩
      · simp only [posAfterKw, Bool.or_eq_true] at h
        rcases h with h | h
        · left; exact ⟨hsk', h⟩
        · right; exact h

/-! ### `wrapper_render`: what is kept, what goes to `invalid_kwargs` -/

def nonspecial (special : κ → Bool) : Arg κ → Bool
  | .pos _ => true
  | .kw k _ => !special k

def specials (special : κ → Bool) : List (Arg κ) → List (κ × Nat)
  | [] => []
  | .pos _ :: rest => specials special rest
  | .kw k v :: rest => if special k then (k, v) :: specials special rest else specials special rest

theorem splitSpecial_ok (special : κ → Bool) : ∀ (L : List (Arg κ)) (st sp : Split κ),
    splitSpecial special st L = .ok sp →
      sp.keep = st.keep ++ L.filter (nonspecial special) ∧ sp.invalid = updateAll st.invalid (specials special L)
  | [], st, sp, h => by simp [splitSpecial] at h; subst h; simp [specials, updateAll]
  | .pos v :: rest, st, sp, h => by
    simp only [splitSpecial] at h
    split at h
    · cases h
    · have := splitSpecial_ok special rest _ sp h
      simp [this.1, this.2, List.filter_cons, nonspecial, specials]
  | .kw k v :: rest, st, sp, h => by
    simp only [splitSpecial] at h
    split at h
    · rename_i hk
      have := splitSpecial_ok special rest _ sp h
      simp [this.1, this.2, List.filter_cons, nonspecial, specials, hk, updateAll]
    · rename_i hk
      have := splitSpecial_ok special rest _ sp h
      simp [this.1, this.2, List.filter_cons, nonspecial, specials, hk]

theorem splitSpecial_seen_hasPos (special : κ → Bool) : ∀ (L : List (Arg κ)) (st : Split κ),
    st.seenSpecial = true → hasPos L = true → ∃ e, splitSpecial special st L = .error e
  | [], st, _, h => by simp [hasPos] at h
  | .pos v :: rest, st, hs, _ => by simp [splitSpecial, hs]
  | .kw k v :: rest, st, hs, h => by
    simp only [splitSpecial]
    split
    · exact splitSpecial_seen_hasPos special rest _ rfl (by simpa [hasPos] using h)
    · exact splitSpecial_seen_hasPos special rest _ hs (by simpa [hasPos] using h)

theorem posAfterKw_hasPos : ∀ (L : List (Arg κ)), posAfterKw L = true → hasPos L = true
  | [], h => by simp [posAfterKw] at h
  | .pos v :: rest, _ => by simp [hasPos]
  | .kw k v :: rest, h => by
    simp only [posAfterKw, Bool.or_eq_true] at h
    simp only [hasPos]
    rcases h with h | h
    · exact h
    · exact posAfterKw_hasPos rest h

theorem hasPos_filter (special : κ → Bool) : ∀ (L : List (Arg κ)), hasPos L = true → hasPos (L.filter (nonspecial special)) = true
  | [], h => by simp [hasPos] at h
  | .pos v :: rest, _ => by simp [List.filter_cons, hasPos, nonspecial]
  | .kw k v :: rest, h => by
    simp only [hasPos] at h
    have ih := hasPos_filter special rest h
    by_cases hk : nonspecial special (Arg.kw k v) = true
    · rw [List.filter_cons, if_pos hk]; simpa [hasPos] using ih
    · rw [List.filter_cons, if_neg hk]; exact ih

theorem posAfterKw_filter (special : κ → Bool) : ∀ (L : List (Arg κ)) (st sp : Split κ),
    st.seenSpecial = false → splitSpecial special st L = .ok sp → posAfterKw L = true →
    posAfterKw (L.filter (nonspecial special)) = true
  | [], _, _, _, _, h => by simp [posAfterKw] at h
  | .pos v :: rest, st, sp, hs, hok, h => by
    simp only [splitSpecial, hs, Bool.false_eq_true, if_false] at hok
    have := posAfterKw_filter special rest { st with keep := st.keep ++ [.pos v], seenSpecial := false } sp rfl hok (by simpa [posAfterKw] using h)
    simpa [List.filter_cons, nonspecial, posAfterKw] using this
  | .kw k v :: rest, st, sp, hs, hok, h => by
    simp only [splitSpecial] at hok
    simp only [posAfterKw, Bool.or_eq_true] at h
    have hp : hasPos rest = true := by
      rcases h with h | h
      · exact h
      · exact posAfterKw_hasPos rest h
    split at hok
    · obtain ⟨e, he⟩ := splitSpecial_seen_hasPos special rest { st with invalid := aset k v st.invalid, seenSpecial := true } rfl hp
      rw [he] at hok; cases hok
    · rename_i hk
      have hk' : special k = false := by simpa using hk
      simp only [List.filter_cons, nonspecial, hk', Bool.not_false, if_true, posAfterKw, Bool.or_eq_true]
      rcases h with h | h
      · exact Or.inl (hasPos_filter special rest h)
      · exact Or.inr (posAfterKw_filter special rest { st with keep := st.keep ++ [.kw k v] } sp hs hok h)

/-- **A positional argument after a keyword argument is refused** (where the Python call is a syntax error). -/
theorem tagCall_posAfterKw (path : Path) (special : κ → Bool) (s : Sig κ) (args : List (Arg κ))
    (h : posAfterKw args = true) : rejects (tagCall path special s args) = true := by
  unfold tagCall
  cases hs : splitSpecial special { keep := [], invalid := [], seenSpecial := false } args with
  | error e => rfl
  | ok sp =>
    simp only
    have hk := (splitSpecial_ok special args _ sp hs).1
    simp only [List.nil_append] at hk
    have hp := posAfterKw_filter special args _ sp rfl hs h
    rw [← hk] at hp
    obtain ⟨e, he⟩ := vloop_posAfterKw path s sp.keep vinit (Or.inr hp)
    simp [validate, he, rejects]

/-! ### arguments in Python order: positionals, then keywords -/

theorem hasPos_kwL (K : List (κ × Nat)) : hasPos (kwL K) = false := by
  induction K with
  | nil => rfl
  | cons e K ih => obtain ⟨k, v⟩ := e; simpa [hasPos] using ih

theorem posAfterKw_kwL (K : List (κ × Nat)) : posAfterKw (kwL K) = false := by
  induction K with
  | nil => rfl
  | cons e K ih => obtain ⟨k, v⟩ := e; simp [posAfterKw, ih, hasPos_kwL]

theorem posAfterKw_ordered (P : List Nat) (K : List (κ × Nat)) : posAfterKw (posL P ++ kwL K) = false := by
  induction P with
  | nil => simpa using posAfterKw_kwL K
  | cons v P ih => simpa [posAfterKw] using ih

theorem filter_ordered (special : κ → Bool) (P : List Nat) (K : List (κ × Nat)) :
    (posL P ++ kwL K).filter (nonspecial special) = posL P ++ kwL (K.filter (fun e => !special e.1)) := by
  induction P with
  | cons v P ih => simp [List.filter_cons, nonspecial, ih]
  | nil =>
    simp only [posL_nil, List.nil_append]
    induction K with
    | nil => rfl
    | cons e K ih =>
      obtain ⟨k, v⟩ := e
      by_cases hk : special k = true
      · simp [List.filter_cons, nonspecial, hk, ih]
      · simp [List.filter_cons, nonspecial, hk, ih]

theorem specials_ordered (special : κ → Bool) (P : List Nat) (K : List (κ × Nat)) :
    specials special (posL P ++ kwL K) = K.filter (fun e => special e.1) := by
  induction P with
  | cons v P ih => simpa [specials] using ih
  | nil =>
    simp only [posL_nil, List.nil_append]
    induction K with
    | nil => rfl
    | cons e K ih =>
      obtain ⟨k, v⟩ := e
      by_cases hk : special k = true
      · simp [List.filter_cons, specials, hk, ih]
      · simp [List.filter_cons, specials, hk, ih]

/-- `wrapper_render` on arguments in Python order -/
theorem splitSpecial_ordered (special : κ → Bool) (P : List Nat) (K : List (κ × Nat)) :
    ∃ sp, splitSpecial special { keep := [], invalid := [], seenSpecial := false } (posL P ++ kwL K) = .ok sp ∧
      sp.keep = posL P ++ kwL (K.filter (fun e => !special e.1)) ∧
      sp.invalid = updateAll [] (K.filter (fun e => special e.1)) := by
  cases hs : splitSpecial special { keep := [], invalid := [], seenSpecial := false } (posL P ++ kwL K) with
  | error e =>
    have := (splitSpecial_error _ hs).2
    rw [posAfterKw_ordered] at this
    simp at this
  | ok sp =>
    have := splitSpecial_ok special _ _ sp hs
    have h1 := this.1
    have h2 := this.2
    simp only [List.nil_append] at h1
    rw [filter_ordered] at h1
    rw [specials_ordered] at h2
    exact ⟨sp, rfl, h1, h2⟩

/-! ### the positional phase of `validate_params` -/

theorem nodup_getElem_not_mem_take {α} : ∀ (l : List α) (i : Nat) (h : i < l.length), l.Nodup → l[i] ∉ l.take i
  | [], i, h, _ => by simp at h
  | a :: t, 0, _, _ => by simp
  | a :: t, j + 1, h, hn => by
    rw [List.nodup_cons] at hn
    simp only [List.getElem_cons_succ, List.take_succ_cons, List.mem_cons, not_or]
    refine ⟨?_, nodup_getElem_not_mem_take t j (by simpa using h) hn.2⟩
    intro e
    exact hn.1 (e ▸ List.getElem_mem _)

/-- the validator's state after the positional values `V` -/
def posSt (s : Sig κ) (V : List Nat) : VState κ :=
  { seenKw := false, used := s.names.take (min V.length s.np), vargs := V, vkw := [], next := V.length }

theorem np_le_names (s : Sig κ) : s.np ≤ s.names.length := by
  simp [Sig.np, Sig.names, Sig.posParams]

theorem vstep_pos (path : Path) (s : Sig κ) (hn : s.names.Nodup) (V : List Nat) (v : Nat) :
    vstep path s (posSt s V) (.pos v) =
      if s.varargs.isNone ∧ s.np ≤ V.length then .error .type else .ok (posSt s (V ++ [v])) := by
  have hnp := np_le_names s
  simp only [vstep, posSt, Bool.false_eq_true, if_false]
  by_cases h1 : s.varargs.isNone ∧ s.np ≤ V.length
  · simp [h1]
  · simp only [h1, ↓reduceIte]
    by_cases h2 : V.length < s.np
    · have hlt : V.length < s.names.length := by omega
      have hmin : min V.length s.np = V.length := by omega
      have hmin' : min (V ++ [v]).length s.np = V.length + 1 := by simp; omega
      have hmem : ¬ (s.names[V.length] ∈ List.take V.length s.names) := nodup_getElem_not_mem_take s.names V.length hlt hn
      simp only [h2, ↓reduceIte]
      rw [List.getElem?_eq_getElem hlt]
      simp only [hmin, hmem, ↓reduceIte, hmin']
      have e1 : List.take (V.length + 1) s.names = List.take V.length s.names ++ [s.names[V.length]] := by
        rw [List.take_succ, List.getElem?_eq_getElem hlt]; rfl
      have e2 : (V ++ [v]).length = V.length + 1 := by simp
      rw [e1, e2]
    · have hmin : min V.length s.np = s.np := by omega
      have hmin' : min (V ++ [v]).length s.np = s.np := by simp; omega
      simp only [h2, ↓reduceIte, hmin, hmin']
      simp

theorem vloop_positional (path : Path) (s : Sig κ) (hn : s.names.Nodup) : ∀ (P V : List Nat) (L : List (Arg κ)),
    ¬ (s.varargs.isNone ∧ s.np < V.length) →
    vloop path s (posSt s V) (posL P ++ L) =
      if s.varargs.isNone ∧ s.np < V.length + P.length then .error .type else vloop path s (posSt s (V ++ P)) L
  | [], V, L, hinv => by
    simp only [posL_nil, List.nil_append, List.length_nil, Nat.add_zero, List.append_nil]
    rw [if_neg hinv]
  | v :: P, V, L, hinv => by
    simp only [posL_cons, List.cons_append, vloop, vstep_pos path s hn V v]
    by_cases h1 : s.varargs.isNone ∧ s.np ≤ V.length
    · have h2 : s.varargs.isNone ∧ s.np < V.length + (v :: P).length := ⟨h1.1, by simp; omega⟩
      simp only [h1, and_self, ↓reduceIte, h2]
    · simp only [h1, ↓reduceIte]
      have hinv' : ¬ (s.varargs.isNone ∧ s.np < (V ++ [v]).length) := by
        intro h; apply h1; exact ⟨h.1, by have := h.2; simp at this; omega⟩
      rw [vloop_positional path s hn P (V ++ [v]) L hinv']
      have e : (V ++ [v]).length + P.length = V.length + (v :: P).length := by simp; omega
      rw [e, List.append_assoc]
      rfl

/-! ### the keyword phase -/

/-- the checks the loop makes on the keywords, in loop order -/
def kwOk (path : Path) (s : Sig κ) (U : List κ) : List (κ × Nat) → Bool
  | [] => true
  | (k, _) :: rest => !decide (k ∈ U) && validKey path s k && kwOk path s (U ++ [k]) rest

theorem vloop_keywords (path : Path) (s : Sig κ) : ∀ (K : List (κ × Nat)) (st : VState κ),
    vloop path s st (kwL K) =
      if kwOk path s st.used K then
        .ok { st with seenKw := st.seenKw || !K.isEmpty, vkw := updateAll st.vkw K, used := st.used ++ akeys K }
      else .error .type
  | [], st => by simp [vloop, kwOk, updateAll, akeys]
  | (k, v) :: rest, st => by
    simp only [kwL_cons, vloop, vstep, kwOk]
    by_cases h1 : k ∈ st.used
    · simp [h1]
    · by_cases h2 : validKey path s k = true
      · simp only [h1, ↓reduceIte, h2, not_true_eq_false, decide_false, Bool.not_false, Bool.and_self, Bool.true_and]
        rw [vloop_keywords path s rest]
        simp [updateAll, akeys]
      · simp [h1, h2]

theorem kwOk_iff (path : Path) (s : Sig κ) : ∀ (K : List (κ × Nat)) (U : List κ),
    kwOk path s U K = true ↔ (akeys K).Nodup ∧ ∀ k ∈ akeys K, k ∉ U ∧ validKey path s k = true
  | [], U => by simp [kwOk, akeys]
  | (k, v) :: rest, U => by
    simp only [kwOk, Bool.and_eq_true, Bool.not_eq_true', decide_eq_false_iff_not, kwOk_iff path s rest (U ++ [k]), akeys,
      List.map_cons, List.nodup_cons, List.mem_cons, forall_eq_or_imp, List.mem_append, List.mem_singleton, not_or]
    constructor
    · rintro ⟨⟨h1, h2⟩, h3, h4⟩
      refine ⟨⟨?_, h3⟩, ⟨h1, h2⟩, fun a ha => ⟨(h4 a ha).1.1, (h4 a ha).2⟩⟩
      intro hk
      exact (h4 k hk).1.2.1 rfl
    · rintro ⟨⟨h1, h2⟩, ⟨h3, h4⟩, h5⟩
      refine ⟨⟨h3, h4⟩, h2, fun a ha => ⟨⟨(h5 a ha).1, ?_, by simp⟩, (h5 a ha).2⟩⟩
      intro e; subst e; exact h1 ha

/-! ### `validated_kwargs.update(...)` and the defaults loop -/

theorem aset_append_of_not_mem (k : κ) (v : Nat) : ∀ (D : List (κ × Nat)), k ∉ akeys D → aset k v D = D ++ [(k, v)]
  | [], _ => rfl
  | (k', v') :: D, h => by
    simp only [akeys, List.map_cons, List.mem_cons, not_or] at h
    have hne : ¬ k' = k := fun e => h.1 e.symm
    simp [aset, hne, aset_append_of_not_mem k v D (by simpa [akeys] using h.2)]

theorem updateAll_append : ∀ (L D : List (κ × Nat)), (akeys L).Nodup → (∀ k ∈ akeys L, k ∉ akeys D) → updateAll D L = D ++ L
  | [], D, _, _ => by simp [updateAll]
  | (k, v) :: rest, D, hn, hd => by
    simp only [akeys, List.map_cons, List.nodup_cons] at hn
    have hk : k ∉ akeys D := hd k (by simp [akeys])
    simp only [updateAll, aset_append_of_not_mem k v D hk]
    rw [updateAll_append rest (D ++ [(k, v)]) hn.2]
    · simp
    · intro a ha
      simp only [akeys, List.map_append, List.map_cons, List.map_nil, List.mem_append, List.mem_singleton, not_or]
      refine ⟨hd a (by simp [akeys] at ha ⊢; exact Or.inr ha), ?_⟩
      intro e; subst e; exact hn.1 ha

/-- the entries the defaults loop appends (`none`: a parameter without value and without default) -/
def dfl (used : List κ) (base : List (κ × Nat)) : List (Param κ) → Option (List (κ × Nat))
  | [] => some []
  | p :: rest =>
    if p.name ∈ used ∨ ahas p.name base then dfl used base rest
    else
      match p.dflt with
      | none => none
      | some d => (dfl used base rest).map ((p.name, d) :: ·)

theorem ahas_append_of_not_mem (k : κ) (base acc : List (κ × Nat)) (h : k ∉ akeys acc) :
    ahas k (base ++ acc) = ahas k base := by
  induction base with
  | nil =>
    simp only [List.nil_append, ahas]
    have : alookup k acc = none := by
      rw [← not_mem_akeys_iff]; exact h
    simp [this, alookup]
  | cons e base ih =>
    obtain ⟨k', v'⟩ := e
    simp only [ahas, List.cons_append, alookup] at ih ⊢
    split
    · rfl
    · exact ih

theorem defaultsLoop_eq (s : Sig κ) (used : List κ) (nargs : Nat) (base : List (κ × Nat)) :
    ∀ (L : List (Param κ × Nat)) (acc : List (κ × Nat)),
    (L.map (fun e => e.1.name)).Nodup →
    (∀ e ∈ L, e.2 < s.np → e.1.name ∉ used → nargs ≤ e.2) →
    (∀ e ∈ L, e.1.name ∉ akeys acc) →
    defaultsLoop s used nargs L (base ++ acc) =
      match dfl used base (L.map (·.1)) with
      | none => .error .type
      | some E => .ok (base ++ acc ++ E)
  | [], acc, _, _, _ => by simp [defaultsLoop, dfl]
  | (p, i) :: rest, acc, hn, hidx, hacc => by
    simp only [List.map_cons, List.nodup_cons] at hn
    have hrec := fun acc' h => defaultsLoop_eq s used nargs base rest acc' hn.2
      (fun e he => hidx e (List.mem_cons_of_mem _ he)) h
    have hp : p.name ∉ akeys acc := hacc (p, i) (List.mem_cons_self ..)
    simp only [defaultsLoop, List.map_cons, dfl, ahas_append_of_not_mem p.name base acc hp]
    by_cases h1 : p.name ∈ used ∨ ahas p.name base = true
    · simp only [h1, ↓reduceIte]
      exact hrec acc (fun e he => hacc e (List.mem_cons_of_mem _ he))
    · simp only [h1, ↓reduceIte]
      have hnu : p.name ∉ used := fun h => h1 (Or.inl h)
      have hnb : p.name ∉ akeys (base ++ acc) := by
        simp only [akeys, List.map_append, List.mem_append, not_or]
        refine ⟨?_, hp⟩
        intro hm
        apply h1; right
        have := (mem_akeys_iff p.name base).mp hm
        simpa [ahas] using this
      cases hd : p.dflt with
      | none => simp
      | some d =>
        have hacc' : ∀ e ∈ rest, e.1.name ∉ akeys (acc ++ [(p.name, d)]) := by
          intro e he
          simp only [akeys, List.map_append, List.map_cons, List.map_nil, List.mem_append, List.mem_singleton, not_or]
          refine ⟨hacc e (List.mem_cons_of_mem _ he), ?_⟩
          intro heq
          exact hn.1 (List.mem_map.mpr ⟨e, he, heq⟩)
        have hset : aset p.name d (base ++ acc) = base ++ (acc ++ [(p.name, d)]) := by
          rw [aset_append_of_not_mem p.name d _ hnb, List.append_assoc]
        by_cases h2 : i < s.np
        · have h3 : nargs ≤ i := hidx (p, i) (List.mem_cons_self ..) h2 hnu
          simp only [h2, ↓reduceIte, h3, hset, hrec _ hacc']
          cases dfl used base (rest.map (·.1)) <;> simp
        · simp only [h2, ↓reduceIte, hset, hrec _ hacc']
          cases dfl used base (rest.map (·.1)) <;> simp

/-! ### `validate_params` on arguments in Python order -/

def Sig.params (s : Sig κ) : List (Param κ) := s.posonly ++ s.poskw ++ s.kwonly

theorem names_eq (s : Sig κ) : s.names = (Sig.params s).map Param.name := rfl

theorem posSt_nil (s : Sig κ) : posSt s [] = vinit := by simp [posSt, vinit]

theorem getElem_mem_take {α} (l : List α) (i n : Nat) (h : i < l.length) (hin : i < n) : l[i] ∈ l.take n := by
  rw [List.mem_take_iff_getElem]
  exact ⟨i, by omega, rfl⟩

theorem validate_ordered (path : Path) (s : Sig κ) (P : List Nat) (Kn Ks : List (κ × Nat))
    (hn : s.names.Nodup) (hKs : (akeys Ks).Nodup) (hdis : ∀ k ∈ akeys Ks, k ∉ akeys Kn) :
    validate path s (posL P ++ kwL Kn) (updateAll [] Ks) =
      if s.varargs.isNone ∧ s.np < P.length then .error .type
      else if kwOk path s (s.names.take (min P.length s.np)) Kn = false then .error .type
      else if Ks ≠ [] ∧ s.varkw.isNone then .error .type
      else
        match dfl (s.names.take (min P.length s.np) ++ akeys Kn) (Kn ++ Ks) (Sig.params s) with
        | none => .error .type
        | some E => .ok (P, Kn ++ Ks ++ E) := by
  have hKs' : updateAll [] Ks = Ks := by
    rw [updateAll_append Ks [] hKs (by intro k _; simp [akeys])]; simp
  unfold validate
  rw [← posSt_nil s, vloop_positional path s hn P [] (kwL Kn) (by simp), vloop_keywords]
  simp only [List.length_nil, Nat.zero_add, List.nil_append, hKs']
  by_cases h1 : s.varargs.isNone ∧ s.np < P.length
  · simp [h1]
  · simp only [h1, ↓reduceIte]
    cases hk : kwOk path s (posSt s P).used Kn with
    | false =>
      have : kwOk path s (s.names.take (min P.length s.np)) Kn = false := hk
      simp [this]
    | true =>
      have hk' : kwOk path s (s.names.take (min P.length s.np)) Kn = true := hk
      have hKn := ((kwOk_iff path s Kn _).mp hk').1
      have hKn' : updateAll [] Kn = Kn := by
        rw [updateAll_append Kn [] hKn (by intro k _; simp [akeys])]; simp
      simp only [↓reduceIte, hk', Bool.true_eq_false]
      have hvkw : (posSt s P).vkw = [] := rfl
      have hused : (posSt s P).used = s.names.take (min P.length s.np) := rfl
      have hvargs : (posSt s P).vargs = P := rfl
      simp only [hvkw, hused, hvargs, hKn', updateAll_append Ks Kn hKs hdis]
      by_cases h3 : Ks ≠ [] ∧ s.varkw.isNone
      · have : ¬ Ks.isEmpty = true ∧ s.varkw.isNone := ⟨by simpa using h3.1, h3.2⟩
        simp [this, h3]
      · have : ¬ (¬ Ks.isEmpty = true ∧ s.varkw.isNone) := by
          intro h; apply h3; exact ⟨by simpa using h.1, h.2⟩
        simp only [this, ↓reduceIte, h3]
        have hL : ((s.posonly ++ s.poskw ++ s.kwonly).zipIdx.map (fun e => e.1.name)) = s.names := by
          have : (fun (e : Param κ × Nat) => e.1.name) = Param.name ∘ Prod.fst := rfl
          rw [this, ← List.map_map, List.zipIdx_map_fst]; rfl
        have := defaultsLoop_eq s (s.names.take (min P.length s.np) ++ akeys Kn) P.length (Kn ++ Ks)
          ((s.posonly ++ s.poskw ++ s.kwonly).zipIdx) [] (by rw [hL]; exact hn) ?_ (by intro e _; simp [akeys])
        · simp only [List.append_nil] at this
          rw [this]
          have hm : ((s.posonly ++ s.poskw ++ s.kwonly).zipIdx.map (·.1)) = Sig.params s := List.zipIdx_map_fst 0 _
          rw [hm]
          cases dfl (List.take (min P.length s.np) s.names ++ akeys Kn) (Kn ++ Ks) (Sig.params s) <;> rfl
        · intro e he hi hnu
          rw [List.mem_zipIdx_iff_getElem?] at he
          apply Nat.le_of_not_lt
          intro hlt
          apply hnu
          have hlen : e.2 < (s.posonly ++ s.poskw ++ s.kwonly).length := by
            rcases Nat.lt_or_ge e.2 (s.posonly ++ s.poskw ++ s.kwonly).length with h | h
            · exact h
            · rw [List.getElem?_eq_none h] at he; cases he
          have hlen' : e.2 < s.names.length := by simpa [Sig.names] using hlen
          have hname : s.names[e.2] = e.1.name := by
            rw [List.getElem?_eq_getElem hlen] at he
            simp only [Sig.names, List.getElem_map]
            have he' := Option.some.inj he
            rw [he']
          rw [List.mem_append]; left
          rw [← hname]
          exact getElem_mem_take s.names e.2 _ hlen' (by omega)

/-! ### what the defaults loop appends -/

theorem dfl_none (used : List κ) (base : List (κ × Nat)) : ∀ (L : List (Param κ)), dfl used base L = none →
    ∃ p ∈ L, p.name ∉ used ∧ ahas p.name base = false ∧ p.dflt = none
  | [], h => by simp [dfl] at h
  | p :: rest, h => by
    simp only [dfl] at h
    by_cases h1 : p.name ∈ used ∨ ahas p.name base = true
    · simp only [h1, ↓reduceIte] at h
      obtain ⟨q, hq, hr⟩ := dfl_none used base rest h
      exact ⟨q, List.mem_cons_of_mem _ hq, hr⟩
    · simp only [h1, ↓reduceIte] at h
      have hnu : p.name ∉ used := fun hh => h1 (Or.inl hh)
      have hnb : ahas p.name base = false := by
        cases hb : ahas p.name base with
        | false => rfl
        | true => exact absurd (Or.inr hb) h1
      cases hd : p.dflt with
      | none => exact ⟨p, List.mem_cons_self .., hnu, hnb, hd⟩
      | some d =>
        simp only [hd, Option.map_eq_none_iff] at h
        obtain ⟨q, hq, hr⟩ := dfl_none used base rest h
        exact ⟨q, List.mem_cons_of_mem _ hq, hr⟩

theorem dfl_some (used : List κ) (base : List (κ × Nat)) : ∀ (L : List (Param κ)) (E : List (κ × Nat)),
    (L.map Param.name).Nodup → dfl used base L = some E →
      (akeys E).Sublist (L.map Param.name) ∧
      (∀ k ∈ akeys E, k ∉ used ∧ ahas k base = false) ∧
      (∀ p ∈ L, p.name ∉ used → ahas p.name base = false → alookup p.name E = p.dflt)
  | [], E, _, h => by
    simp only [dfl, Option.some.injEq] at h; subst h
    simp [akeys]
  | p :: rest, E, hn, h => by
    simp only [List.map_cons, List.nodup_cons] at hn
    simp only [dfl] at h
    by_cases h1 : p.name ∈ used ∨ ahas p.name base = true
    · simp only [h1, ↓reduceIte] at h
      obtain ⟨a, b, c⟩ := dfl_some used base rest E hn.2 h
      refine ⟨List.Sublist.cons _ a, b, ?_⟩
      intro q hq hqu hqb
      rcases List.mem_cons.mp hq with rfl | hq
      · rcases h1 with h1 | h1
        · exact absurd h1 hqu
        · rw [hqb] at h1; cases h1
      · exact c q hq hqu hqb
    · simp only [h1, ↓reduceIte] at h
      have hnu : p.name ∉ used := fun hh => h1 (Or.inl hh)
      have hnb : ahas p.name base = false := by
        cases hb : ahas p.name base with
        | false => rfl
        | true => exact absurd (Or.inr hb) h1
      cases hd : p.dflt with
      | none => simp [hd] at h
      | some d =>
        simp only [hd, Option.map_eq_some_iff] at h
        obtain ⟨E', hE', rfl⟩ := h
        obtain ⟨a, b, c⟩ := dfl_some used base rest E' hn.2 hE'
        refine ⟨by simpa [akeys] using List.Sublist.cons₂ p.name a, ?_, ?_⟩
        · intro k hk
          simp only [akeys, List.map_cons, List.mem_cons] at hk
          rcases hk with rfl | hk
          · exact ⟨hnu, hnb⟩
          · exact b k hk
        · intro q hq hqu hqb
          rcases List.mem_cons.mp hq with rfl | hq
          · simp [alookup, hd]
          · have hne : ¬ p.name = q.name := by
              intro e
              exact hn.1 (e ▸ List.mem_map_of_mem hq)
            simp only [alookup, hne, ↓reduceIte]
            exact c q hq hqu hqb

/-! ### lookups -/

theorem alookup_append (k : κ) : ∀ (A B : List (κ × Nat)),
    alookup k (A ++ B) = match alookup k A with | some v => some v | none => alookup k B
  | [], B => rfl
  | (k', v') :: A, B => by
    simp only [List.cons_append, alookup]
    split
    · rfl
    · exact alookup_append k A B

theorem alookup_filter (f : κ → Bool) (k : κ) : ∀ (K : List (κ × Nat)),
    alookup k (K.filter (fun e => f e.1)) = if f k then alookup k K else none
  | [] => by simp [alookup]
  | (k', v') :: K => by
    have ih := alookup_filter f k K
    by_cases hf : f k' = true
    · simp only [List.filter_cons, hf, ↓reduceIte, alookup]
      by_cases hk : k' = k
      · subst hk; simp [hf]
      · simp [hk, ih]
    · simp only [List.filter_cons, hf, Bool.false_eq_true, ↓reduceIte, alookup]
      by_cases hk : k' = k
      · subst hk; simp [hf, ih]
      · simp [hk, ih]

theorem alookup_none_of_not_mem (k : κ) (K : List (κ × Nat)) (h : k ∉ akeys K) : alookup k K = none := by
  rw [← not_mem_akeys_iff]; exact h

/-! ### Python's binding: when it refuses, and when two keyword lists bind alike -/

/-- the "multiple values" test of `pyBind` -/
def c3 (s : Sig κ) (n : Nat) (e : κ × Nat) : Bool :=
  decide (e.1 ∈ (s.posParams.take n).map Param.name ∧ e.1 ∈ s.kwNames)
/-- the "unexpected keyword" test of `pyBind` -/
def c4 (s : Sig κ) (e : κ × Nat) : Bool := decide (e.1 ∉ s.kwNames)

def pvList (s : Sig κ) (P : List Nat) (K : List (κ × Nat)) : List (Option (κ × Nat)) :=
  (s.posParams.zipIdx).map (fun (p, i) => (posValue s P K i p).map (fun v => (p.name, v)))
def kvList (s : Sig κ) (K : List (κ × Nat)) : List (Option (κ × Nat)) :=
  s.kwonly.map (fun p => (kwValue K p).map (fun v => (p.name, v)))

theorem pyBind_unfold (s : Sig κ) (P : List Nat) (K : List (κ × Nat)) :
    pyBind s P K =
      if ¬ (akeys K).Nodup then .error .type
      else if s.varargs.isNone ∧ s.np < P.length then .error .type
      else if K.any (c3 s P.length) then .error .type
      else if s.varkw.isNone ∧ K.any (c4 s) then .error .type
      else
        match allSome (pvList s P K ++ kvList s K) with
        | none => .error .type
        | some ps => .ok { params := ps, varargs := P.drop s.np, varkw := K.filter (c4 s) } := rfl

theorem pyBind_refuses (s : Sig κ) (P : List Nat) (K : List (κ × Nat))
    (h : ¬ (akeys K).Nodup ∨ (s.varargs.isNone ∧ s.np < P.length) ∨ K.any (c3 s P.length) = true ∨
      (s.varkw.isNone ∧ K.any (c4 s) = true) ∨ allSome (pvList s P K ++ kvList s K) = none) :
    ∃ e, pyBind s P K = .error e := by
  rw [pyBind_unfold]
  by_cases h1 : ¬ (akeys K).Nodup
  · exact ⟨_, if_pos h1⟩
  · rw [if_neg h1]
    by_cases h2 : s.varargs.isNone ∧ s.np < P.length
    · exact ⟨_, if_pos h2⟩
    · rw [if_neg h2]
      by_cases h3 : K.any (c3 s P.length) = true
      · exact ⟨_, if_pos h3⟩
      · rw [if_neg h3]
        by_cases h4 : s.varkw.isNone ∧ K.any (c4 s) = true
        · exact ⟨_, if_pos h4⟩
        · rw [if_neg h4]
          rcases h with h | h | h | h | h
          · exact absurd h h1
          · exact absurd h h2
          · exact absurd h h3
          · exact absurd h h4
          · rw [h]; exact ⟨_, rfl⟩

theorem agree_error_left (e : Err) (r : Except Err (Binding κ)) (h : ∃ e', r = .error e') :
    agree (.error e) r = true := by
  obtain ⟨e', rfl⟩ := h; rfl

theorem pyBind_agree (s : Sig κ) (P : List Nat) (K K' : List (κ × Nat))
    (h1 : (akeys K).Nodup) (h1' : (akeys K').Nodup)
    (h3 : K.any (c3 s P.length) = false) (h3' : K'.any (c3 s P.length) = false)
    (h4 : K'.any (c4 s) = K.any (c4 s))
    (hpv : pvList s P K' = pvList s P K) (hkv : kvList s K' = kvList s K)
    (hvk : (K'.filter (c4 s)).Perm (K.filter (c4 s))) :
    agree (pyBind s P K') (pyBind s P K) = true := by
  rw [pyBind_unfold, pyBind_unfold]
  simp only [h1, h1', not_true_eq_false, ↓reduceIte, h3, h3', Bool.false_eq_true, h4, hpv, hkv]
  by_cases h2 : s.varargs.isNone ∧ s.np < P.length
  · simp [h2, agree]
  · simp only [h2, ↓reduceIte]
    by_cases h5 : s.varkw.isNone ∧ K.any (c4 s) = true
    · simp [h5, agree]
    · simp only [h5, ↓reduceIte]
      cases allSome (pvList s P K ++ kvList s K) with
      | none => rfl
      | some ps =>
        simp only [agree, sameBinding, decide_true, Bool.true_and]
        exact List.isPerm_iff.mpr hvk

/-! ### facts about well-formed signatures -/

theorem names_sublist_allNames (s : Sig κ) : s.names.Sublist s.allNames := by
  simp only [Sig.names, Sig.allNames, List.map_append, List.append_assoc]
  refine (List.Sublist.refl _).append ((List.Sublist.refl _).append ?_)
  exact List.sublist_append_of_sublist_right (List.sublist_append_left _ _)

theorem nodup_names (s : Sig κ) (h : s.allNames.Nodup) : s.names.Nodup := h.sublist (names_sublist_allNames s)

theorem kwNames_eq_names (s : Sig κ) (hpo : s.posonly = []) : s.kwNames = s.names := by
  simp [Sig.kwNames, Sig.names, hpo]

theorem take_names (s : Sig κ) (n : Nat) : (s.posParams.take n).map Param.name = s.names.take (min n s.np) := by
  have : s.names = s.posParams.map Param.name ++ s.kwonly.map Param.name := by
    simp [Sig.names, Sig.posParams]
  rw [this, List.take_append_of_le_length (by simp [Sig.np]; omega), ← List.map_take]
  congr 1
  simp only [Sig.np]
  rw [List.take_eq_take_iff]
  omega

theorem mem_names_of_param (s : Sig κ) (p : Param κ) (h : p ∈ Sig.params s) : p.name ∈ s.names :=
  List.mem_map_of_mem h

theorem mem_akeys_filter (f : κ → Bool) (k : κ) (K : List (κ × Nat)) :
    k ∈ akeys (K.filter (fun e => f e.1)) ↔ k ∈ akeys K ∧ f k = true := by
  simp only [akeys, List.mem_map, List.mem_filter]
  constructor
  · rintro ⟨e, ⟨he, hf⟩, rfl⟩; exact ⟨⟨e, he, rfl⟩, hf⟩
  · rintro ⟨⟨e, he, rfl⟩, hf⟩; exact ⟨e, ⟨he, hf⟩, rfl⟩

/-! ### the equivalence on arguments in Python order -/

theorem mem_K_iff (special : κ → Bool) (K : List (κ × Nat)) (k : κ) :
    k ∈ akeys K ↔ (k ∈ akeys (K.filter (fun e => !special e.1)) ∨ k ∈ akeys (K.filter (fun e => special e.1))) := by
  rw [mem_akeys_filter (fun k => !special k), mem_akeys_filter special]
  constructor
  · intro h
    cases hs : special k with
    | true => exact Or.inr ⟨h, rfl⟩
    | false => exact Or.inl ⟨h, by simp [hs]⟩
  · rintro (h | h) <;> exact h.1

theorem any_of_mem_akeys (f : κ × Nat → Bool) (g : κ → Bool) (hfg : ∀ e, f e = g e.1) (K : List (κ × Nat)) (k : κ)
    (hk : k ∈ akeys K) (hg : g k = true) : K.any f = true := by
  simp only [akeys, List.mem_map] at hk
  obtain ⟨e, he, rfl⟩ := hk
  exact List.any_eq_true.mpr ⟨e, he, by rw [hfg]; exact hg⟩

theorem not_mem_take_of_ge {α} (l : List α) (hn : l.Nodup) (i m : Nat) (h : i < l.length) (hm : m ≤ i) : l[i] ∉ l.take m := by
  intro hmem
  rw [List.mem_take_iff_getElem] at hmem
  obtain ⟨j, hj, he⟩ := hmem
  have hjl : j < l.length := by omega
  have := (List.getElem?_inj hjl hn (i := j) (j := i)).mp (by
    rw [List.getElem?_eq_getElem hjl, List.getElem?_eq_getElem h, he])
  omega

theorem allSome_none_of_mem {α} : ∀ (l : List (Option α)), none ∈ l → allSome l = none
  | [], h => by cases h
  | none :: _, _ => rfl
  | some x :: xs, h => by
    have : none ∈ xs := by
      rcases List.mem_cons.mp h with h | h
      · cases h
      · exact h
    simp [allSome, allSome_none_of_mem xs this]

theorem alookup_nonspecial (special : κ → Bool) (K : List (κ × Nat)) (k : κ) (h : special k = false) :
    alookup k (K.filter (fun e => !special e.1)) = alookup k K ∧ alookup k (K.filter (fun e => special e.1)) = none := by
  have a := alookup_filter (fun k => !special k) k K
  have b := alookup_filter special k K
  simp only [h, Bool.not_false, ↓reduceIte, Bool.false_eq_true] at a b
  exact ⟨a, b⟩

theorem tagCall_agree_ordered (path : Path) (special : κ → Bool) (s : Sig κ) (P : List Nat) (K : List (κ × Nat))
    (hwf : WF special s) (hpo : s.posonly = [])
    (hsp : (akeys (K.filter (fun e => special e.1))).Nodup) :
    agree (tagCall path special s (posL P ++ kwL K)) (pyBind s P K) = true := by
  obtain ⟨sp, hsp1, hkeep, hinv⟩ := splitSpecial_ordered special P K
  have hn := nodup_names s hwf.1
  have hnsp : ∀ k ∈ s.names, special k = false := fun k hk => hwf.2 k ((mem_names_allNames s k).mpr (Or.inl hk))
  have hkwn := kwNames_eq_names s hpo
  have hdis : ∀ k ∈ akeys (K.filter (fun e => special e.1)), k ∉ akeys (K.filter (fun e => !special e.1)) := by
    intro k hk hk'
    have a := (mem_akeys_filter special k K).mp hk
    have b := (mem_akeys_filter (fun k => !special k) k K).mp hk'
    simp [a.2] at b
  unfold tagCall
  rw [hsp1]
  simp only
  rw [hkeep, hinv, validate_ordered path s P _ _ hn hsp hdis]
  by_cases c_many : s.varargs.isNone ∧ s.np < P.length
  · rw [if_pos c_many]
    exact agree_error_left _ _ (pyBind_refuses s P K (Or.inr (Or.inl c_many)))
  · rw [if_neg c_many]
    cases hk : kwOk path s (s.names.take (min P.length s.np)) (K.filter (fun e => !special e.1)) with
    | false =>
      simp only [↓reduceIte]
      apply agree_error_left
      apply pyBind_refuses
      have hnot : ¬ ((akeys (K.filter (fun e => !special e.1))).Nodup ∧
          ∀ k ∈ akeys (K.filter (fun e => !special e.1)), k ∉ s.names.take (min P.length s.np) ∧ validKey path s k = true) := by
        rw [← kwOk_iff]; simp [hk]
      by_cases hnd : (akeys (K.filter (fun e => !special e.1))).Nodup
      · have : ¬ ∀ k ∈ akeys (K.filter (fun e => !special e.1)), k ∉ s.names.take (min P.length s.np) ∧ validKey path s k = true :=
          fun h => hnot ⟨hnd, h⟩
        obtain ⟨k, hk2⟩ := Classical.not_forall.mp this
        obtain ⟨hkm, hbad⟩ := Classical.not_imp.mp hk2
        have hkK : k ∈ akeys K := (mem_K_iff special K k).mpr (Or.inl hkm)
        by_cases hku : k ∈ s.names.take (min P.length s.np)
        · -- multiple values
          right; right; left
          refine any_of_mem_akeys (c3 s P.length) (fun k => decide (k ∈ (s.posParams.take P.length).map Param.name ∧ k ∈ s.kwNames))
            (fun e => rfl) K k hkK ?_
          rw [take_names, hkwn]
          simp only [decide_eq_true_eq]
          exact ⟨hku, List.mem_of_mem_take hku⟩
        · -- unexpected keyword
          have hvk : validKey path s k = false := by
            cases hv : validKey path s k with
            | false => rfl
            | true => exact absurd ⟨hku, hv⟩ hbad
          right; right; right; left
          have hnone : s.varkw.isNone = true ∧ k ∉ s.names := by
            cases path with
            | code =>
              simp only [validKey, Bool.or_eq_false_iff, decide_eq_false_iff_not, Bool.and_eq_false_iff,
                Bool.not_eq_false', decide_eq_true_eq] at hvk
              refine ⟨?_, hvk.1⟩
              rcases hvk.2 with h | h
              · cases hs : s.varkw <;> simp_all
              · exact absurd h hvk.1
            | sig =>
              simp only [validKey, Bool.or_eq_false_iff, decide_eq_false_iff_not] at hvk
              refine ⟨by cases hs : s.varkw <;> simp_all, ?_⟩
              intro hmem
              exact hvk.2 ((mem_names_allNames s k).mpr (Or.inl hmem))
          refine ⟨hnone.1, any_of_mem_akeys (c4 s) (fun k => decide (k ∉ s.kwNames)) (fun e => rfl) K k hkK ?_⟩
          rw [hkwn]; simpa using hnone.2
      · -- a keyword repeated
        left
        intro hK
        apply hnd
        have : (akeys (K.filter (fun e => !special e.1))).Sublist (akeys K) := by
          simp only [akeys]; exact (List.filter_sublist).map _
        exact hK.sublist this
    | true =>
      simp only [Bool.true_eq_false, ↓reduceIte]
      obtain ⟨hKnd, hKnk⟩ := (kwOk_iff path s _ _).mp hk
      by_cases c_sp : K.filter (fun e => special e.1) ≠ [] ∧ s.varkw.isNone
      · rw [if_pos c_sp]
        apply agree_error_left
        apply pyBind_refuses
        right; right; right; left
        obtain ⟨e, he⟩ := List.exists_mem_of_ne_nil _ c_sp.1
        have hes : special e.1 = true := (List.mem_filter.mp he).2
        have heK : e ∈ K := (List.mem_filter.mp he).1
        refine ⟨c_sp.2, List.any_eq_true.mpr ⟨e, heK, ?_⟩⟩
        simp only [c4, decide_eq_true_eq]
        rw [hkwn]
        intro hm
        have := hnsp _ hm
        rw [hes] at this; cases this
      · rw [if_neg c_sp]
        have hpn : (Sig.params s).map Param.name = s.names := rfl
        cases hd : dfl (s.names.take (min P.length s.np) ++ akeys (K.filter (fun e => !special e.1)))
            (K.filter (fun e => !special e.1) ++ K.filter (fun e => special e.1)) (Sig.params s) with
        | none =>
          simp only
          apply agree_error_left
          apply pyBind_refuses
          right; right; right; right
          obtain ⟨p, hp, hpu, _, hpd⟩ := dfl_none _ _ _ hd
          have hpname : p.name ∈ s.names := mem_names_of_param s p hp
          have hpK : alookup p.name K = none := by
            apply alookup_none_of_not_mem
            intro hm
            rcases (mem_K_iff special K p.name).mp hm with h | h
            · exact hpu (List.mem_append_right _ h)
            · have := (mem_akeys_filter special p.name K).mp h
              rw [hnsp _ hpname] at this; cases this.2
          apply allSome_none_of_mem
          simp only [Sig.params, List.append_assoc, List.mem_append] at hp
          rw [List.mem_append]
          have hpos_or : p ∈ s.posParams ∨ p ∈ s.kwonly := by
            simp only [Sig.posParams, List.mem_append]
            rcases hp with h | h | h
            · exact Or.inl (Or.inl h)
            · exact Or.inl (Or.inr h)
            · exact Or.inr h
          rcases hpos_or with hpp | hpk
          · left
            obtain ⟨i, hi⟩ := List.mem_iff_getElem?.mp hpp
            have hmem : (p, i) ∈ s.posParams.zipIdx := List.mem_zipIdx_iff_getElem?.mpr hi
            have hilt : i < s.posParams.length := by
              rcases Nat.lt_or_ge i s.posParams.length with h | h
              · exact h
              · rw [List.getElem?_eq_none h] at hi; cases hi
            have hnm : s.names[i]'(by have := np_le_names s; simp only [Sig.np] at this; omega) = p.name := by
              have : s.names = s.posParams.map Param.name ++ s.kwonly.map Param.name := by simp [Sig.names, Sig.posParams]
              simp only [this]
              rw [List.getElem_append_left (by simpa using hilt)]
              rw [List.getElem?_eq_getElem hilt] at hi
              simp only [List.getElem_map]
              rw [Option.some.inj hi]
            have hPi : P[i]? = none := by
              apply List.getElem?_eq_none
              apply Nat.le_of_not_lt
              intro hlt
              apply hpu
              apply List.mem_append_left
              rw [← hnm]
              exact getElem_mem_take s.names i _ _ (by simp only [Sig.np]; omega)
            refine List.mem_map.mpr ⟨(p, i), hmem, ?_⟩
            simp [posValue, hPi, hpK, hpd]
          · right
            refine List.mem_map.mpr ⟨p, hpk, ?_⟩
            simp [kwValue, hpK, hpd]
        | some E =>
          simp only
          obtain ⟨hEsub, hEk, hEv⟩ := dfl_some _ _ (Sig.params s) E (by rw [hpn]; exact hn) hd
          have hEnames : ∀ k ∈ akeys E, k ∈ s.names := fun k hk => hpn ▸ hEsub.subset hk
          have hEnd : (akeys E).Nodup := hn.sublist (hpn ▸ hEsub)
          -- keys of the three parts are pairwise disjoint
          have hEbase : ∀ k ∈ akeys E, k ∉ akeys (K.filter (fun e => !special e.1)) ∧ k ∉ akeys (K.filter (fun e => special e.1)) := by
            intro k hkE
            refine ⟨fun h => (hEk k hkE).1 (List.mem_append_right _ h), fun h => ?_⟩
            have := (mem_akeys_filter special k K).mp h
            rw [hnsp _ (hEnames k hkE)] at this; cases this.2
          have hperm : (K.filter (fun e => special e.1) ++ K.filter (fun e => !special e.1)).Perm K :=
            List.filter_append_perm (fun e => special e.1) K
          have hK1 : (akeys K).Nodup := by
            have := (hperm.map Prod.fst).nodup_iff
            simp only [akeys] at hsp hKnd ⊢
            rw [← this, List.map_append, List.nodup_append]
            refine ⟨hsp, hKnd, ?_⟩
            intro a ha b hb e
            subst e
            exact hdis a ha hb
          have hK1' : (akeys (K.filter (fun e => !special e.1) ++ K.filter (fun e => special e.1) ++ E)).Nodup := by
            simp only [akeys, List.map_append] at hsp hKnd hEnd ⊢
            rw [List.nodup_append]
            refine ⟨?_, hEnd, ?_⟩
            · rw [List.nodup_append]
              refine ⟨hKnd, hsp, ?_⟩
              intro a ha b hb e
              subst e
              exact hdis a hb ha
            · intro a ha b hb e
              subst e
              rcases List.mem_append.mp ha with h | h
              · exact (hEbase a hb).1 h
              · exact (hEbase a hb).2 h
          have hc3 : ∀ e : κ × Nat, c3 s P.length e = true → e.1 ∈ s.names.take (min P.length s.np) := by
            intro e he
            simp only [c3, decide_eq_true_eq] at he
            rw [← take_names]; exact he.1
          have hK3 : K.any (c3 s P.length) = false := by
            cases h : K.any (c3 s P.length) with
            | false => rfl
            | true =>
              obtain ⟨e, he, hce⟩ := List.any_eq_true.mp h
              have hu := hc3 e hce
              have hek : e.1 ∈ akeys K := List.mem_map_of_mem he
              rcases (mem_K_iff special K e.1).mp hek with h | h
              · exact absurd hu (hKnk e.1 h).1
              · have := (mem_akeys_filter special e.1 K).mp h
                rw [hnsp _ (List.mem_of_mem_take hu)] at this; cases this.2
          have hK3' : (K.filter (fun e => !special e.1) ++ K.filter (fun e => special e.1) ++ E).any (c3 s P.length) = false := by
            cases h : (K.filter (fun e => !special e.1) ++ K.filter (fun e => special e.1) ++ E).any (c3 s P.length) with
            | false => rfl
            | true =>
              obtain ⟨e, he, hce⟩ := List.any_eq_true.mp h
              have hu := hc3 e hce
              rcases List.mem_append.mp he with he | he
              · rcases List.mem_append.mp he with he | he
                · exact absurd hu (hKnk e.1 (List.mem_map_of_mem he)).1
                · have := (List.mem_filter.mp he).2
                  rw [hnsp _ (List.mem_of_mem_take hu)] at this; cases this
              · exact absurd (List.mem_append_left _ hu) (hEk e.1 (List.mem_map_of_mem he)).1
          have hEc4 : ∀ e ∈ E, c4 s e = false := by
            intro e he
            simp only [c4, decide_eq_false_iff_not, Classical.not_not]
            rw [hkwn]; exact hEnames e.1 (List.mem_map_of_mem he)
          have hK4 : (K.filter (fun e => !special e.1) ++ K.filter (fun e => special e.1) ++ E).any (c4 s) = K.any (c4 s) := by
            rw [Bool.eq_iff_iff, List.any_eq_true, List.any_eq_true]
            constructor
            · rintro ⟨e, he, hce⟩
              rcases List.mem_append.mp he with he | he
              · rcases List.mem_append.mp he with he | he
                · exact ⟨e, (List.mem_filter.mp he).1, hce⟩
                · exact ⟨e, (List.mem_filter.mp he).1, hce⟩
              · rw [hEc4 e he] at hce; cases hce
            · rintro ⟨e, he, hce⟩
              refine ⟨e, ?_, hce⟩
              apply List.mem_append_left
              cases hs : special e.1 with
              | true => exact List.mem_append_right _ (List.mem_filter.mpr ⟨he, hs⟩)
              | false => exact List.mem_append_left _ (List.mem_filter.mpr ⟨he, by simp [hs]⟩)
          -- values: every parameter is looked up alike
          have hlook : ∀ p ∈ Sig.params s,
              alookup p.name (K.filter (fun e => !special e.1) ++ K.filter (fun e => special e.1) ++ E) = alookup p.name K ∨
              (alookup p.name K = none ∧
                alookup p.name (K.filter (fun e => !special e.1) ++ K.filter (fun e => special e.1) ++ E) = p.dflt) := by
            intro p hp
            have hns := hnsp _ (mem_names_of_param s p hp)
            obtain ⟨ha, hb⟩ := alookup_nonspecial special K p.name hns
            rw [alookup_append, alookup_append, ha, hb]
            cases hl : alookup p.name K with
            | some v => left; rfl
            | none =>
              simp only
              by_cases hcond : p.name ∉ (s.names.take (min P.length s.np) ++ akeys (K.filter (fun e => !special e.1))) ∧
                  ahas p.name (K.filter (fun e => !special e.1) ++ K.filter (fun e => special e.1)) = false
              · right; exact ⟨trivial, hEv p hp hcond.1 hcond.2⟩
              · left
                apply alookup_none_of_not_mem
                intro hm
                exact hcond (hEk _ hm)
          have hposmem : ∀ e ∈ s.posParams.zipIdx, e.1 ∈ Sig.params s := by
            intro e he
            have := List.mem_zipIdx_iff_getElem?.mp he
            have hm : e.1 ∈ s.posParams := List.mem_of_getElem? this
            simp only [Sig.params, Sig.posParams] at hm ⊢
            exact List.mem_append_left _ hm
          apply pyBind_agree s P K _ hK1 hK1' hK3 hK3' hK4
          · -- positional parameters
            apply List.map_congr_left
            intro e he
            obtain ⟨p, i⟩ := e
            have hl := hlook p (hposmem (p, i) he)
            simp only [posValue, hpo, List.length_nil, Nat.zero_le, ↓reduceIte]
            cases P[i]? with
            | some v => rfl
            | none =>
              simp only
              rcases hl with h | ⟨h1, h2⟩
              · rw [h]
              · rw [h1, h2]; cases p.dflt <;> rfl
          · -- keyword-only parameters
            apply List.map_congr_left
            intro p hp
            have hl := hlook p (by simp only [Sig.params]; exact List.mem_append_right _ hp)
            simp only [kwValue]
            rcases hl with h | ⟨h1, h2⟩
            · rw [h]
            · rw [h1, h2]; cases p.dflt <;> rfl
          · -- **kwargs
            have hE0 : E.filter (c4 s) = [] := by
              rw [List.filter_eq_nil_iff]
              intro e he; simp [hEc4 e he]
            rw [List.filter_append, List.filter_append, hE0, List.append_nil]
            have h1 := (hperm.filter (c4 s)).symm
            rw [List.filter_append] at h1
            exact (List.perm_append_comm).trans h1.symm

/-! ### all argument lists -/

theorem specialKeys_ordered (special : κ → Bool) (P : List Nat) (K : List (κ × Nat)) :
    specialKeys special (posL P ++ kwL K) = akeys (K.filter (fun e => special e.1)) := by
  induction P with
  | cons v P ih => simpa [specialKeys] using ih
  | nil =>
    simp only [posL_nil, List.nil_append]
    induction K with
    | nil => rfl
    | cons e K ih =>
      obtain ⟨k, v⟩ := e
      by_cases hk : special k = true
      · simp [List.filter_cons, specialKeys, hk, ih, akeys]
      · simp [List.filter_cons, specialKeys, hk, ih, akeys]

/-- **Inside `H`, the tag behaves as the Python call**: any key type, any signature, any argument list, both
validator paths. -/
theorem tagCall_agrees_with_pyCall (path : Path) (special : κ → Bool) (s : Sig κ) (args : List (Arg κ))
    (hwf : WF special s) (hH : H special s args) :
    agree (tagCall path special s args) (pyCall s args) = true := by
  unfold pyCall
  cases hs : splitArgs args with
  | none =>
    simp only
    have := tagCall_posAfterKw path special s args (splitArgs_none hs)
    cases h : tagCall path special s args with
    | error e => rfl
    | ok b => rw [h] at this; simp [rejects] at this
  | some pk =>
    obtain ⟨P, K⟩ := pk
    simp only
    have hargs := splitArgs_some hs
    subst hargs
    exact tagCall_agree_ordered path special s P K hwf hH.1 (by rw [← specialKeys_ordered special P K]; exact hH.2)

end Djc.Proofs.BindEquiv
