/-
  One component across the whole deferred pipeline (model of the code): `{% component name kwargs %}{% endcomponent %}`
  at a place with no enclosing component, whose template is in the plain fragment and whose data come from the call
  (keyword arguments, constants, the instance id).  `ComponentNode.render` → `_render_impl` (id, context entry,
  `get_context_data`, snapshot, renderer) → `component_post_render` (renderer run, attributes, placeholders, the
  `on_component_rendered` bookkeeping): the output is the template's tokens with the id on its root elements behind
  the render marker, and every registry is as before.
-/
import Djc.Proofs.Calm
namespace Djc.Proofs.Leaf
open Djc.Tpl Djc.Render Djc.Proofs.Plain Djc.Proofs.Calm Djc.Proofs.Render

/-! ### callbacks without fault injection -/

theorem run_tick_plain (env : Env) (e : Ev) (w : World) (hr : env.raiseAt = none) (he : ∀ id, e ≠ .gcd id) :
    (tick env e).run.run w = (.ok ⟨⟩, { w with events := w.events ++ [e] }) := by
  unfold tick
  cases e with
  | gcd id => exact absurd rfl (he id)
  | _ => simp only [hr, run_bind, run_get, run_pure, run_set]

theorem run_tick_gcd (env : Env) (id : Nat) (w : World) (hr : env.raiseAt = none) (hg : w.gcds < env.maxInst) :
    (tick env (.gcd id)).run.run w = (.ok ⟨⟩, { w with gcds := w.gcds + 1, events := w.events ++ [.gcd id] }) := by
  unfold tick
  have : ¬ w.gcds ≥ env.maxInst := by omega
  simp only [hr, run_bind, run_get, this, ↓reduceIte, run_pure, run_set]

/-! ### data that come from the call -/

def pureSrc : Src → Bool
  | .inject _ _ => false
  | _ => true

def srcVal (id : Nat) (kw : List (Str × Val)) : Src → Val
  | .kwarg k => kwGet k kw
  | .const v => v
  | .selfId => .idBox id
  | _ => .str []

def dataPure (id : Nat) (kw : List (Str × Val)) : List (Str × Src) → Layer → Layer
  | [], acc => acc
  | (out, src) :: rest, acc => dataPure id kw rest (setL out (srcVal id kw src) acc)

theorem getContextData_pure (env : Env) (id : Nat) (ctx : Ctx) (kw : List (Str × Val)) :
    ∀ (data : List (Str × Src)) (acc : Layer) (w : World), data.all (fun kv => pureSrc kv.2) = true →
      (getContextData env id ctx kw data acc).run.run w = (.ok (dataPure id kw data acc), w)
  | [], acc, w, _ => rfl
  | (out, src) :: rest, acc, w, h => by
    simp only [List.all_cons, Bool.and_eq_true] at h
    unfold getContextData
    cases src with
    | inject k d => simp [pureSrc] at h
    | kwarg k => simp only [run_bind, run_pure]; exact getContextData_pure env id ctx kw rest _ w h.2
    | const v => simp only [run_bind, run_pure]; exact getContextData_pure env id ctx kw rest _ w h.2
    | selfId => simp only [run_bind, run_pure]; exact getContextData_pure env id ctx kw rest _ w h.2
    | side => simp only [run_bind, run_pure]; exact getContextData_pure env id ctx kw rest _ w h.2

/-! ### plain output holds no placeholder -/

def noHole : Tok → Bool
  | .hole _ _ => false
  | _ => true

theorem pNodes_noHole (mx : Nat) : ∀ n,
    (∀ nodes ctx st toks st', pNodes mx n nodes ctx st = (.ok toks, st') → toks.all noHole = true) ∧
    (∀ x items i body ctx st toks st', pFor mx n x items i body ctx st = (.ok toks, st') → toks.all noHole = true) ∧
    (∀ nd ctx st toks st', pNode mx n nd ctx st = (.ok toks, st') → toks.all noHole = true) := by
  intro n
  induction n with
  | zero =>
    refine ⟨?_, ?_, ?_⟩
    · intro nodes ctx st toks st' h; simp [pNodes] at h
    · intro x items i body ctx st toks st' h; simp [pFor] at h
    · intro nd ctx st toks st' h; simp [pNode] at h
  | succ n ih =>
    obtain ⟨ihN, ihF, ihD⟩ := ih
    have hseq : ∀ (r1 : PR) (g : List Tok → Nat → PR) toks st',
        (∀ a s1, r1 = (.ok a, s1) → a.all noHole = true) →
        (∀ a s1 b s2, g a s1 = (.ok b, s2) → a.all noHole = true → b.all noHole = true) →
        pbind r1 g = (.ok toks, st') → toks.all noHole = true := by
      intro r1 g toks st' h1 h2 h
      rcases r1 with ⟨r, s1⟩
      cases r with
      | error e => simp [pbind] at h
      | ok a => exact h2 a s1 toks st' h (h1 a s1 rfl)
    refine ⟨?_, ?_, ?_⟩
    · intro nodes ctx st toks st' h
      cases nodes with
      | nil => simp only [pNodes, Prod.mk.injEq, Except.ok.injEq] at h; rw [← h.1]; rfl
      | cons nd rest =>
        simp only [pNodes] at h
        refine hseq _ _ toks st' (fun a s1 e => ihD nd ctx st a s1 e) ?_ h
        intro a s1 b s2 hb ha
        refine hseq _ _ b s2 (fun c s3 e => ihN rest ctx s1 c s3 e) ?_ hb
        intro c s3 d s4 hd hc
        simp only [Prod.mk.injEq, Except.ok.injEq] at hd
        rw [← hd.1, List.all_append, ha, hc]; rfl
    · intro x items i body ctx st toks st' h
      cases items with
      | nil => simp only [pFor, Prod.mk.injEq, Except.ok.injEq] at h; rw [← h.1]; rfl
      | cons item items =>
        simp only [pFor] at h
        refine hseq _ _ toks st' (fun a s1 e => ihN body _ st a s1 e) ?_ h
        intro a s1 b s2 hb ha
        refine hseq _ _ b s2 (fun c s3 e => ihF x items (i + 1) body ctx s1 c s3 e) ?_ hb
        intro c s3 d s4 hd hc
        simp only [Prod.mk.injEq, Except.ok.injEq] at hd
        rw [← hd.1, List.all_append, ha, hc]; rfl
    · intro nd ctx st toks st' h
      unfold pNode at h
      by_cases hst : st ≥ mx
      · simp [hst] at h
      · simp only [hst, ↓reduceIte] at h
        cases nd with
        | text s => simp only [Prod.mk.injEq, Except.ok.injEq] at h; rw [← h.1]; rfl
        | out e => simp only [Prod.mk.injEq, Except.ok.injEq] at h; rw [← h.1]; rfl
        | ifn c t e =>
          simp only at h
          split at h
          · exact ihN t ctx _ toks st' h
          · exact ihN e ctx _ toks st' h
        | forn x e body => exact ihF x _ 0 body ctx _ toks st' h
        | withn x e body => exact ihN body _ _ toks st' h
        | elem tag body =>
          simp only at h
          refine hseq _ _ toks st' (fun a s1 e => ihN body ctx _ a s1 e) ?_ h
          intro a s1 b s2 hb ha
          simp only [Prod.mk.injEq, Except.ok.injEq] at hb
          rw [← hb.1]
          simp [List.all_append, ha, noHole]
        | _ => simp at h

theorem rootHolesAux_noHole (attrs : List Str) : ∀ (toks : List Tok) (d : Nat), toks.all noHole = true → rootHolesAux attrs d toks = []
  | [], _, _ => rfl
  | t :: rest, d, h => by
    simp only [List.all_cons, Bool.and_eq_true] at h
    cases t with
    | hole i a => simp [noHole] at h
    | opn tg a => simp only [rootHolesAux]; exact rootHolesAux_noHole attrs rest _ h.2
    | cls tg => simp only [rootHolesAux]; exact rootHolesAux_noHole attrs rest _ h.2
    | text s => simp only [rootHolesAux]; exact rootHolesAux_noHole attrs rest _ h.2
    | marker c i => simp only [rootHolesAux]; exact rootHolesAux_noHole attrs rest _ h.2

theorem addRootAttrsAux_noHole (attrs : List Str) : ∀ (toks : List Tok) (d : Nat), toks.all noHole = true →
    (addRootAttrsAux attrs d toks).all noHole = true
  | [], _, _ => rfl
  | t :: rest, d, h => by
    simp only [List.all_cons, Bool.and_eq_true] at h
    cases t with
    | hole i a => simp [noHole] at h
    | opn tg a => simp only [addRootAttrsAux, List.all_cons, noHole, Bool.true_and]; exact addRootAttrsAux_noHole attrs rest _ h.2
    | cls tg => simp only [addRootAttrsAux, List.all_cons, noHole, Bool.true_and]; exact addRootAttrsAux_noHole attrs rest _ h.2
    | text s => simp only [addRootAttrsAux, List.all_cons, noHole, Bool.true_and]; exact addRootAttrsAux_noHole attrs rest _ h.2
    | marker c i => simp only [addRootAttrsAux, List.all_cons, noHole, Bool.true_and]; exact addRootAttrsAux_noHole attrs rest _ h.2

theorem splitHoles_noHole (me : Nat) (parent : Option Nat) : ∀ (toks acc : List Tok), toks.all noHole = true →
    splitHoles me parent acc toks = [{ before := acc ++ toks, child := none, parent := some me, grand := parent }]
  | [], acc, _ => by simp [splitHoles]
  | t :: rest, acc, h => by
    simp only [List.all_cons, Bool.and_eq_true] at h
    cases t with
    | hole i a => simp [noHole] at h
    | opn tg a => simp only [splitHoles]; rw [splitHoles_noHole me parent rest _ h.2]; simp
    | cls tg => simp only [splitHoles]; rw [splitHoles_noHole me parent rest _ h.2]; simp
    | text s => simp only [splitHoles]; rw [splitHoles_noHole me parent rest _ h.2]; simp
    | marker c i => simp only [splitHoles]; rw [splitHoles_noHole me parent rest _ h.2]; simp

/-! ### the renderer closure on a plain template -/

theorem runRenderer_plain (env : Env) (i : Nat) (r : Renderer) (d : CompDef) (w : World) (toks : List Tok) (st : Nat)
    (hr : env.raiseAt = none) (hdyn : r.dynInner = none) (hd : findDef env r.name = some d)
    (hp : plainL d.template = true) (hc : ctxFree r.ctx = true)
    (hok : pNodes env.maxSteps i d.template r.ctx w.steps = (.ok toks, st)) :
    (runRenderer env (i + 1) r []).run.run w =
      (.ok (.marker r.name r.id :: addRootAttrs [idAttr r.id] toks, rootHoles [idAttr r.id] toks),
        { w with events := w.events ++ [.before r.id], steps := st }) := by
  unfold runRenderer
  simp only [hdyn, Option.isNone_none, ↓reduceIte, run_bind, run_tick_plain env (.before r.id) w hr (by intro id h; cases h), hd]
  have := (model_plain env i).1 d.template r.ctx { w with events := w.events ++ [.before r.id] } hp hc
  rw [this]
  have hs : ({ w with events := w.events ++ [.before r.id] } : World).steps = w.steps := rfl
  rw [hs, hok]
  simp only [asWorld_ok, run_pure, List.nil_append]
  rfl

/-! ### `component_post_render` for one renderer without nested components -/

theorem postRender_leaf (env : Env) (i id : Nat) (r : Renderer) (cc : CompCtx) (d : CompDef) (w : World)
    (toks : List Tok) (st : Nat)
    (hr : env.raiseAt = none)
    (hrc : alGet id w.rendererCache = some r) (hrid : r.id = id) (hdyn : r.dynInner = none)
    (hca : alGet id w.childAttrs = none)
    (hcc : alGet id w.ctxCache = some cc) (hname : isDynName cc.name = false)
    (href : w.allRefIds.contains id = false)
    (hd : findDef env r.name = some d) (hp : plainL d.template = true) (hc : ctxFree r.ctx = true)
    (hok : pNodes env.maxSteps (i + 1) d.template r.ctx w.steps = (.ok toks, st)) :
    (postRender env (i + 3) [{ before := [], child := some id, parent := none, grand := none }] [] []).run.run w =
      (.ok (.marker r.name id :: addRootAttrs [idAttr id] toks),
        { w with rendererCache := alDel id w.rendererCache, childAttrs := alDel id w.childAttrs,
                 ctxCache := alDel id w.ctxCache,
                 events := w.events ++ [.before id, .after id], steps := st }) := by
  subst hrid
  have hnh : toks.all noHole = true := (pNodes_noHole env.maxSteps (i + 1)).1 _ _ _ _ _ hok
  have hnh' : (Tok.marker r.name r.id :: addRootAttrs [idAttr r.id] toks).all noHole = true := by
    simp only [List.all_cons, noHole, Bool.true_and, addRootAttrs]
    exact addRootAttrsAux_noHole _ _ _ hnh
  unfold postRender
  simp only [List.isEmpty_nil, ↓reduceIte, run_bind, run_pure, run_get, hrc, hca, Option.getD_none, run_set]
  have hw' : pNodes env.maxSteps (i + 1) d.template r.ctx
      ({ w with rendererCache := alDel r.id w.rendererCache, childAttrs := alDel r.id w.childAttrs } : World).steps = (.ok toks, st) := hok
  rw [runRenderer_plain env (i + 1) r d _ toks st hr hdyn hd hp hc hw']
  simp only [run_modify, rootHoles, rootHolesAux_noHole _ _ _ hnh, List.foldl_nil, List.append_nil]
  rw [splitHoles_noHole r.id none _ [] hnh']
  unfold postRender
  simp only [List.nil_append, run_bind, run_get, partsGet, alGet, Option.getD_none, alDel]
  have htick := fun w' => run_tick_plain env (Ev.after r.id) w' hr (by intro id h; cases h)
  simp only [hcc, Option.map_some, Option.getD_some, hname, Bool.not_false, ↓reduceIte, run_bind, htick, run_modify,
    unregisterRef, run_liftW, unregisterRefW, href, Bool.not_false, postRender, run_pure]
  simp

/-! ### the whole pipeline for one leaf component -/

/-- the Context the component's template is rendered in (`ctx'`: the caller's context or its isolated copy) -/
def leafCtx (ctx' : Ctx) (id : Nat) (kw : List (Str × Val)) (d : CompDef) : Ctx :=
  snapshot (ctx' ++ [dataPure id kw d.data []] ++ [[(compKey, .compRef id), (compVarsKey, compVars [])]])

abbrev leafCC (name : Str) (id : Nat) (ctx : Ctx) : CompCtx :=
  { name := name, id := id, path := [name], fills := [], isDyn := false, defaultSlot := none, outer := Option.map snapshot (some ctx) }
abbrev leafR (name : Str) (id : Nat) (ctx snap : Ctx) : Renderer :=
  { id := id, name := name, ctx := snap, outer := some ctx }

abbrev leafW (w : World) (name : Str) (ctx snap : Ctx) (rc : Nat) : World :=
  { nextId := w.nextId + 1, ctxCache := alSet w.nextId (leafCC name w.nextId ctx) w.ctxCache, rendererCache := alSet w.nextId (leafR name w.nextId ctx snap) w.rendererCache, childAttrs := w.childAttrs, provideCache := [], provideRefs := w.provideRefs, allRefIds := w.allRefIds, cap := w.cap, events := w.events ++ [Ev.gcd w.nextId], rcLeak := rc, gcds := w.gcds + 1, steps := w.steps + 1 }

theorem registerRefW_noProviders (ctx : Ctx) (id : Nat) (w : World) (h : w.provideCache = []) : registerRefW ctx id w = w := by
  simp [registerRefW, h]

theorem leaf_component (env : Env) (i : Nat) (name : Str) (kwargs : List (Str × Expr)) (only dyn : Bool)
    (ctx ctx' : Ctx) (w : World) (d : CompDef) (toks : List Tok) (st : Nat)
    (hctx' : ctx' = if only || env.isolated then isolatedCopy ctx else ctx)
    (hr : env.raiseAt = none) (hd : findDef env name = some d) (hdyn : isDynName name = false)
    (hp : plainL d.template = true) (hsrc : d.data.all (fun kv => pureSrc kv.2) = true)
    (hsteps : ¬ w.steps ≥ env.maxSteps) (hgcd : w.gcds < env.maxInst)
    (hext : isExtracting ctx = false)
    (hpar : ∀ p, ctxGet ctx' compKey ≠ some (.compRef p))
    (hprov : w.provideCache = [])
    (hf1 : alGet w.nextId w.ctxCache = none) (hf2 : alGet w.nextId w.rendererCache = none)
    (hf3 : alGet w.nextId w.childAttrs = none) (hf4 : w.allRefIds.contains w.nextId = false)
    (hc : ctxFree (leafCtx ctx' w.nextId (evalKwargs ctx kwargs) d) = true)
    (hok : pNodes env.maxSteps (i + 1) d.template (leafCtx ctx' w.nextId (evalKwargs ctx kwargs) d) (w.steps + 1) = (.ok toks, st)) :
    (renderNode env (i + 6) (.comp name kwargs only dyn []) ctx).run.run w =
      (.ok (.marker name w.nextId :: addRootAttrs [idAttr w.nextId] toks),
        { w with nextId := w.nextId + 1, steps := st, gcds := w.gcds + 1,
                 events := w.events ++ [.gcd w.nextId, .before w.nextId, .after w.nextId] }) := by
  have hparent : (match ctxGet ctx' compKey with | some (.compRef p) => some p | _ => (none : Option Nat)) = none := by
    cases hg : ctxGet ctx' compKey with
    | none => rfl
    | some v => cases v <;> first | rfl | exact absurd hg (hpar _)
  unfold renderNode
  simp only [run_bind, run_get, hsteps, ↓reduceIte, run_set]
  unfold renderCompTag
  simp only [hext, Bool.false_eq_true, ↓reduceIte, hd, run_bind, run_pure]
  unfold resolveFills
  simp only [List.isEmpty_nil, ↓reduceIte, run_pure, ← hctx']
  unfold renderImpl
  simp only [run_bind, run_genId, hparent, run_pure, Option.isNone_none, Bool.true_and, Option.isSome_none,
    Bool.false_eq_true, ↓reduceIte, hdyn, Bool.not_false]
  have htg := fun w' (h : w'.gcds < env.maxInst) => run_tick_gcd env w.nextId w' hr h
  have hgd := fun w' => getContextData_pure env w.nextId ctx' (evalKwargs ctx kwargs) d.data [] w' hsrc
  cases hrc : hasRootRc ctx' with
  | true =>
    simp only [↓reduceIte, run_bind, run_modify, registerRefW, hprov, List.isEmpty_nil, htg, hgcd, hd, hgd, run_pure]
    have hdel1 := alDel_alSet_fresh w.nextId (leafCC name w.nextId ctx) w.ctxCache hf1
    have hdel2 := alDel_alSet_fresh w.nextId (leafR name w.nextId ctx (leafCtx ctx' w.nextId (evalKwargs ctx kwargs) d)) w.rendererCache hf2
    have hdel3 := alDel_of_absent w.nextId w.childAttrs hf3
    refine (postRender_leaf env i w.nextId (leafR name w.nextId ctx (leafCtx ctx' w.nextId (evalKwargs ctx kwargs) d))
      (leafCC name w.nextId ctx) d (leafW w name ctx (leafCtx ctx' w.nextId (evalKwargs ctx kwargs) d) (w.rcLeak + 1 - 1)) toks st hr
      (alGet_alSet_same ..) rfl rfl hf3 (alGet_alSet_same ..) hdyn hf4 hd hp hc hok).trans ?_
    simp only [leafW, hdel1, hdel2, hdel3, List.append_assoc, List.cons_append, List.nil_append, Nat.add_sub_cancel, hprov]
  | false =>
    simp only [Bool.false_eq_true, ↓reduceIte, run_bind, run_modify, registerRefW, hprov, List.isEmpty_nil, htg, hgcd, hd, hgd, run_pure]
    have hdel1 := alDel_alSet_fresh w.nextId (leafCC name w.nextId ctx) w.ctxCache hf1
    have hdel2 := alDel_alSet_fresh w.nextId (leafR name w.nextId ctx (leafCtx ctx' w.nextId (evalKwargs ctx kwargs) d)) w.rendererCache hf2
    have hdel3 := alDel_of_absent w.nextId w.childAttrs hf3
    refine (postRender_leaf env i w.nextId (leafR name w.nextId ctx (leafCtx ctx' w.nextId (evalKwargs ctx kwargs) d))
      (leafCC name w.nextId ctx) d (leafW w name ctx (leafCtx ctx' w.nextId (evalKwargs ctx kwargs) d) w.rcLeak) toks st hr
      (alGet_alSet_same ..) rfl rfl hf3 (alGet_alSet_same ..) hdyn hf4 hd hp hc hok).trans ?_
    simp only [leafW, hdel1, hdel2, hdel3, List.append_assoc, List.cons_append, List.nil_append, Nat.add_sub_cancel, hprov]

end Djc.Proofs.Leaf
