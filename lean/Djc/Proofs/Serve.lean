import Djc.Proofs.AList
import Djc.Model.Serve
namespace Djc.Proofs.Serve
open Djc.AList Djc.Model.Serve

/-! ### strings with separators -/

theorem split_at_sep (c : Char) (a b r s : Str) (ha : c ∉ a) (hb : c ∉ b)
    (h : a ++ c :: r = b ++ c :: s) : a = b ∧ r = s := by
  induction a generalizing b with
  | nil =>
    cases b with
    | nil => simp at h; exact ⟨rfl, h⟩
    | cons y ys =>
      simp at h
      exact absurd (h.1 ▸ List.mem_cons_self) hb
  | cons x xs ih =>
    cases b with
    | nil =>
      simp at h
      exact absurd (h.1 ▸ List.mem_cons_self) ha
    | cons y ys =>
      simp only [List.cons_append, List.cons.injEq] at h
      have := ih ys (fun m => ha (List.mem_cons_of_mem _ m)) (fun m => hb (List.mem_cons_of_mem _ m)) h.2
      exact ⟨by rw [h.1, this.1], this.2⟩

theorem splitDots_plain (a : Str) (ha : '.' ∉ a) : splitDots a = [a] := by
  induction a with
  | nil => rfl
  | cons c cs ih =>
    have hc : c ≠ '.' := fun e => ha (e ▸ List.mem_cons_self)
    have := ih (fun m => ha (List.mem_cons_of_mem _ m))
    simp [splitDots, this, hc]

theorem splitDots_sep (a rest : Str) (ha : '.' ∉ a) :
    splitDots (a ++ '.' :: rest) = a :: splitDots rest := by
  induction a with
  | nil =>
    simp only [List.nil_append, splitDots]
    cases h : splitDots rest with
    | nil =>
      -- splitDots never returns []
      exfalso
      cases rest with
      | nil => simp [splitDots] at h
      | cons d ds =>
        simp only [splitDots] at h
        cases h2 : splitDots ds with
        | nil => simp [h2] at h
        | cons sg sgs => simp only [h2] at h; split at h <;> cases h
    | cons seg segs => simp
  | cons c cs ih =>
    have hc : c ≠ '.' := fun e => ha (e ▸ List.mem_cons_self)
    have := ih (fun m => ha (List.mem_cons_of_mem _ m))
    simp [splitDots, this, hc]

/-- what a class hash / kind / input hash must look like for the URL and the key to be unambiguous -/
def Plain (s : Str) : Prop := s ≠ [] ∧ '.' ∉ s ∧ '/' ∉ s ∧ ':' ∉ s

theorem isEmpty_false_of_ne {s : Str} (h : s ≠ []) : s.isEmpty = false := by
  cases s with
  | nil => exact absurd rfl h
  | cons a b => rfl

theorem parse3_three (h i k : Str) (hh : h ≠ []) (hi : i ≠ []) (hk : k ≠ []) :
    parse3 [h, i, k] = some (h, i, k) := by
  simp [parse3, parse2, splitsDesc, joinDots, List.findSome?, hh, hi, hk]

theorem parse3_two (h k : Str) : parse3 [h, k] = none := by
  simp [parse3, parse2, splitsDesc, joinDots, List.findSome?]
  by_cases e : h = [] <;> simp [e]

theorem parse2_two (h k : Str) (hh : h ≠ []) (hk : k ≠ []) : parse2 [h, k] = some (h, k) := by
  simp [parse2, splitsDesc, joinDots, List.findSome?, hh, hk]

theorem contains_false {s : Str} {c : Char} (h : c ∉ s) : s.contains c = false := by
  cases hc : s.contains c with
  | false => rfl
  | true => exact absurd (List.contains_iff_mem.mp hc) h

theorem resolve_mkUrl (h k : Str) (hh : Plain h) (hk : Plain k) :
    resolve (mkUrl h none k) = some (h, none, k) ∧
    ∀ i, Plain i → resolve (mkUrl h (some i) k) = some (h, some i, k) := by
  have pfx : ∀ x : Str, cachePfx.isPrefixOf (cachePfx ++ x) = true := by
    intro x; exact List.isPrefixOf_iff_prefix.mpr (List.prefix_append _ _)
  have drp : ∀ x : Str, (cachePfx ++ x).drop cachePfx.length = x := by
    intro x; exact List.drop_left' rfl
  constructor
  · have hns : ¬ '/' ∈ h ++ '.' :: k := by
      simp only [List.mem_append, List.mem_cons, not_or]
      exact ⟨hh.2.2.1, by decide, hk.2.2.1⟩
    have hsplit : splitDots (h ++ '.' :: k) = [h, k] := by
      rw [splitDots_sep h k hh.2.1, splitDots_plain k hk.2.1]
    simp only [resolve, mkUrl, List.append_assoc, pfx, drp, if_true, contains_false hns,
      Bool.false_eq_true, if_false, hsplit, parse3_two, parse2_two h k hh.1 hk.1]
  · intro i hi
    have hns : ¬ '/' ∈ h ++ '.' :: (i ++ '.' :: k) := by
      simp only [List.mem_append, List.mem_cons, not_or]
      exact ⟨hh.2.2.1, by decide, hi.2.2.1, by decide, hk.2.2.1⟩
    have hsplit : splitDots (h ++ '.' :: (i ++ '.' :: k)) = [h, i, k] := by
      rw [splitDots_sep h _ hh.2.1, splitDots_sep i k hi.2.1, splitDots_plain k hk.2.1]
    have e : cachePfx ++ h ++ '.' :: i ++ '.' :: k = cachePfx ++ (h ++ '.' :: (i ++ '.' :: k)) := by
      simp
    simp only [resolve, mkUrl, e, pfx, drp, if_true, contains_false hns, Bool.false_eq_true,
      if_false, hsplit, parse3_three h i k hh.1 hi.1 hk.1]

/-! ### cache keys -/

def KindOK (k : Str) : Prop := k = jsK ∨ k = cssK

/-- an input hash as the code produces it (6 hex digits): non-empty, no ':' -/
def InpOK : Option Str → Prop
  | none => True
  | some i => i ≠ [] ∧ ':' ∉ i

theorem kind_no_colon {k : Str} (h : KindOK k) : ':' ∉ k := by
  rcases h with rfl | rfl <;> decide

theorem genKey_inj (h1 h2 k1 k2 : Str) (i1 i2 : Option Str)
    (hh1 : ':' ∉ h1) (hh2 : ':' ∉ h2) (hk1 : KindOK k1) (hk2 : KindOK k2)
    (hi1 : InpOK i1) (hi2 : InpOK i2)
    (e : genKey h1 k1 i1 = genKey h2 k2 i2) : h1 = h2 ∧ k1 = k2 ∧ i1 = i2 := by
  have tail : ∀ (h k : Str) (i : Option Str), InpOK i →
      genKey h k i = keyPfx ++ (h ++ ':' :: (k ++ (match i with
        | some x => ':' :: x
        | none => []))) := by
    intro h k i hi
    cases i with
    | none => simp [genKey]
    | some x =>
      have : x.isEmpty = false := isEmpty_false_of_ne hi.1
      simp [genKey, this]
  rw [tail h1 k1 i1 hi1, tail h2 k2 i2 hi2] at e
  have e2 := List.append_cancel_left e
  have s1 := split_at_sep ':' h1 h2 _ _ hh1 hh2 e2
  refine ⟨s1.1, ?_⟩
  have e3 := s1.2
  have c1 := kind_no_colon hk1
  have c2 := kind_no_colon hk2
  cases i1 with
  | none =>
    cases i2 with
    | none => simp at e3; exact ⟨e3, rfl⟩
    | some y =>
      simp only [List.append_nil] at e3
      exact absurd (e3 ▸ (List.mem_append_right k2 List.mem_cons_self)) c1
  | some x =>
    cases i2 with
    | none =>
      simp only [List.append_nil] at e3
      exact absurd (e3.symm ▸ (List.mem_append_right k1 List.mem_cons_self)) c2
    | some y =>
      have := split_at_sep ':' k1 k2 x y c1 c2 e3
      exact ⟨this.1, by rw [this.2]⟩

/-! ### the cache invariant -/

/-- what the cache holds for (class, kind, input) -/
def bodyOf (c : Cls) (kind : Str) : Option Str → Option Str
  | none => (script c kind).map strip
  | some _ => some []

/-- every cache entry belongs to a registered class and holds that class's script -/
def Inv (s : State) : Prop :=
  (∀ h, h ∈ akeys s.classes → Plain h) ∧
  ∀ key body, alookup key s.cache = some body →
    ∃ h c kind inp, alookup h s.classes = some c ∧ KindOK kind ∧ InpOK inp ∧
      key = genKey h kind inp ∧ bodyOf c kind inp = some body

theorem inv_init : Inv { classes := [], cache := [] } := by
  constructor
  · intro h hh; simp [akeys] at hh
  · intro key body h; simp [alookup] at h

theorem inv_clear {s : State} (hi : Inv s) : Inv { s with cache := [] } :=
  ⟨hi.1, by intro key body h; simp [alookup] at h⟩

theorem inv_define {s : State} (hi : Inv s) (h : Str) (c : Cls) (hp : Plain h)
    (hfresh : h ∉ akeys s.classes) : Inv { s with classes := aset h c s.classes } := by
  constructor
  · intro h' hh
    rcases (mem_akeys_aset h h' c s.classes).mp hh with e | e
    · exact e ▸ hp
    · exact hi.1 h' e
  · intro key body hk
    obtain ⟨h0, c0, kind, inp, h1, h2, h3, h4, h5⟩ := hi.2 key body hk
    have hne : h0 ≠ h := by
      intro e; subst e; exact hfresh (mem_akeys_of_alookup h1)
    exact ⟨h0, c0, kind, inp, by simp [alookup_aset_ne _ _ hne, h1], h2, h3, h4, h5⟩

theorem inv_set {s : State} (hi : Inv s) (h : Str) (c : Cls) (kind : Str) (inp : Option Str)
    (body : Str) (hc : alookup h s.classes = some c) (hk : KindOK kind) (hin : InpOK inp)
    (hb : bodyOf c kind inp = some body) :
    Inv { s with cache := aset (genKey h kind inp) body s.cache } := by
  refine ⟨hi.1, ?_⟩
  intro key b hkey
  simp only [alookup_aset] at hkey
  by_cases e : key = genKey h kind inp
  · simp [e] at hkey; subst hkey
    exact ⟨h, c, kind, inp, hc, hk, hin, e, hb⟩
  · simp [e] at hkey
    exact hi.2 key b hkey

theorem inv_cacheScript {s : State} (hi : Inv s) (h : Str) (c : Cls) (kind : Str)
    (hc : alookup h s.classes = some c) (hk : KindOK kind) : Inv (cacheScript s h c kind) := by
  unfold cacheScript
  cases hs : script c kind with
  | none => exact hi
  | some src =>
    simp only
    split
    · exact inv_set hi h c kind none (strip src) hc hk trivial (by simp [bodyOf, hs])
    · exact hi

theorem inv_cacheVars {s : State} (hi : Inv s) (h : Str) (c : Cls) (kind : Str) (inp : Option Str)
    (hc : alookup h s.classes = some c) (hk : KindOK kind) (hin : InpOK inp) :
    Inv (cacheVars s h c kind inp) := by
  unfold cacheVars
  cases inp with
  | none => exact hi
  | some i =>
    simp only
    split
    · exact inv_set hi h c kind (some i) [] hc hk hin (by simp [bodyOf])
    · exact hi

theorem cacheScript_classes (s : State) (h : Str) (c : Cls) (kind : Str) :
    (cacheScript s h c kind).classes = s.classes := by
  unfold cacheScript
  cases script c kind with
  | none => rfl
  | some src => simp only; split <;> rfl

theorem cacheVars_classes (s : State) (h : Str) (c : Cls) (kind : Str) (inp : Option Str) :
    (cacheVars s h c kind inp).classes = s.classes := by
  unfold cacheVars
  cases inp with
  | none => rfl
  | some i => simp only; split <;> rfl

/-- an entry, once present, survives the caching steps (they only add absent keys) -/
theorem cacheScript_keeps {s : State} (h : Str) (c : Cls) (kind : Str) {key body : Str}
    (hk : alookup key s.cache = some body) : alookup key (cacheScript s h c kind).cache = some body := by
  unfold cacheScript
  cases script c kind with
  | none => exact hk
  | some src =>
    simp only
    split
    · rename_i hcond
      simp only [Bool.and_eq_true, Bool.not_eq_true', ahas] at hcond
      have hne : key ≠ genKey h kind none := by
        intro e; subst e; rw [hk] at hcond; simp at hcond
      simp [alookup_aset_ne _ _ hne, hk]
    · exact hk

theorem cacheVars_keeps {s : State} (h : Str) (c : Cls) (kind : Str) (inp : Option Str) {key body : Str}
    (hk : alookup key s.cache = some body) :
    alookup key (cacheVars s h c kind inp).cache = some body := by
  unfold cacheVars
  cases inp with
  | none => exact hk
  | some i =>
    simp only
    split
    · rename_i hcond
      simp only [Bool.and_eq_true, Bool.not_eq_true', ahas] at hcond
      have hne : key ≠ genKey h kind (some i) := by
        intro e; subst e; rw [hk] at hcond; simp at hcond
      simp [alookup_aset_ne _ _ hne, hk]
    · exact hk

/-- after `cache_component_js/css` a non-empty script has an entry -/
theorem cacheScript_present (s : State) (h : Str) (c : Cls) (kind : Str)
    (hne : nonemptyStr (script c kind) = true) :
    (alookup (genKey h kind none) (cacheScript s h c kind).cache).isSome = true := by
  unfold cacheScript
  cases hs : script c kind with
  | none => simp [hs, nonemptyStr] at hne
  | some src =>
    simp only
    rw [hs] at hne
    by_cases hp : ahas (genKey h kind none) s.cache = true
    · simp only [hne, hp, Bool.not_true, Bool.and_false, Bool.false_eq_true, if_false]
      simpa [ahas] using hp
    · simp only [hne, hp, Bool.not_false, Bool.and_self, if_true, alookup_aset_self]
      rfl

theorem cacheVars_present (s : State) (h : Str) (c : Cls) (kind i : Str)
    (hne : nonemptyStr (script c kind) = true) :
    (alookup (genKey h kind (some i)) (cacheVars s h c kind (some i)).cache).isSome = true := by
  unfold cacheVars
  simp only
  by_cases hp : ahas (genKey h kind (some i)) s.cache = true
  · simp only [hne, hp, Bool.not_true, Bool.and_false, Bool.false_eq_true, if_false]
    simpa [ahas] using hp
  · simp only [hne, hp, Bool.not_false, Bool.and_self, if_true, alookup_aset_self]
    rfl

end Djc.Proofs.Serve
