/-
  Trees of components across the deferred pipeline, to any depth and width (model of the code).

  Fragment `T`: templates built from text, `{{ }}`, if, for, with, elements, `{% slot %}` tags (not flagged `default`) and
  `{% component name … %}…{% endcomponent %}` tags whose body is empty, made of `{% fill "name" [data="d"] %}` tags with
  content of the fragment, or content of the fragment without fill tags — the implicit fill of the `default` slot
  (`tnode` / `tnodes` / `fbody` / `gbody`), where every registered component's template is again in `T` — so
  components nest through templates and through fill content, repeat in loops and may even be recursive — and component
  data come from the call (keyword arguments, constants, the id).  A slot renders the fill of its name held by the
  instance its context names, else its own default content (`slot_unfolds`).

  What is proved, for every fuel, library, page, context without slot references and world — by one mutual induction over
  `renderNodes` / `renderFor` / `renderNode` / `renderCompTag` / `renderImpl` / `runRenderer` and the `while` loop of
  `component_post_render` (`postRender`) with an invariant over the *whole* queue: whenever such a render returns,

  * every placeholder in the returned tokens stands for exactly one queued renderer and one `ComponentContext` entry, with
    an id generated during this render, all distinct (`Bal`);
  * a render that is not inside a component (the deque loop runs to its end) returns tokens without placeholders and leaves
    `component_context_cache`, `component_renderer_cache`, `child_component_attrs` holding exactly the entries they held
    before, `provide_cache` / `provide_references` / `all_reference_ids` / the fill-capture list untouched — whatever the
    nesting depth, the number of children, loops around component tags, or recursion through the library;
  * the `get_context_data` calls of the render carry the ids `w.nextId, w.nextId + 1, …` in this order, each exactly once
    (distinct ids for all instances of a page).

  Partial correctness: the statements speak about renders that return.  (Without fault injection a render of this fragment
  fails only with `NotRegistered`, a `TemplateSyntaxError` of the slot / fill checks, at the instance / work budget, or —
  recursion without a base case — at fuel exhaustion; runs that raise are the subject of `TreeFail.lean`.)
-/
import Djc.Proofs.Slotty
namespace Djc.Proofs.Tree
open Djc.Tpl Djc.Render Djc.Proofs.Plain Djc.Proofs.Calm Djc.Proofs.Render Djc.Proofs.Leaf Djc.Proofs.Slotty

/-! ### the fragment -/

mutual
  def tnode : Node → Bool
    | .text _ => true
    | .out _ => true
    | .ifn _ t e => tnodes t && tnodes e
    | .forn _ _ b => tnodes b
    | .withn _ _ b => tnodes b
    | .elem _ b => tnodes b
    | .comp name _ _ _ body => (fbody body || tnodes body) && !isDynName name
    | .slot _ isDefault _ _ body => !isDefault && tnodes body
    | _ => false
  def tnodes : List Node → Bool
    | [] => true
    | nd :: rest => tnode nd && tnodes rest
  /-- the body of a component tag: nothing, or `{% fill "name" [data="d"] %}…{% endfill %}` tags with content of the fragment -/
  def fbody : List Node → Bool
    | [] => true
    | .fill (.lit _) _ none content :: rest => tnodes content && fbody rest
    | _ => false
end

/-- the body of a component tag in the fragment: `{% fill %}` tags, or content without fill tags (the implicit fill of
the `default` slot) -/
def gbody (body : List Node) : Bool := fbody body || tnodes body

def constFree : Src → Bool
  | .const v => slotFree v
  | _ => true

/-- every registered component: template in the fragment, data from the call -/
def GoodLib (env : Env) : Prop :=
  ∀ d ∈ env.lib, tnodes d.template = true ∧ d.data.all (fun kv => pureSrc kv.2 && constFree kv.2) = true

theorem findDef_mem (env : Env) (n : Str) (d : CompDef) (h : findDef env n = some d) : d ∈ env.lib :=
  List.mem_of_find?_eq_some h

/-! ### placeholders in a token list -/

def holeIds : List Tok → List Nat
  | [] => []
  | .hole i _ :: rest => i :: holeIds rest
  | _ :: rest => holeIds rest

theorem holeIds_append : ∀ (a b : List Tok), holeIds (a ++ b) = holeIds a ++ holeIds b
  | [], b => rfl
  | t :: rest, b => by
    cases t <;> simp [holeIds, holeIds_append rest b]

theorem holeIds_addRootAttrsAux (attrs : List Str) : ∀ (toks : List Tok) (d : Nat), holeIds (addRootAttrsAux attrs d toks) = holeIds toks
  | [], _ => rfl
  | t :: rest, d => by
    cases t <;> simp [addRootAttrsAux, holeIds, holeIds_addRootAttrsAux attrs rest]

theorem keys_rootHolesAux (attrs : List Str) : ∀ (toks : List Tok) (d : Nat), (rootHolesAux attrs d toks).map (·.1) = holeIds toks
  | [], _ => rfl
  | t :: rest, d => by
    cases t <;> simp [rootHolesAux, holeIds, keys_rootHolesAux attrs rest]

/-! ### association lists -/

theorem alGet_alDel_same {β} (k : Nat) (l : List (Nat × β)) : alGet k (alDel k l) = none := by
  induction l with
  | nil => rfl
  | cons a rest ih =>
    obtain ⟨ak, av⟩ := a
    by_cases h : ak = k
    · simp [alDel, h, ih]
    · simp [alDel, alGet, h, ih]

theorem alGet_foldSet {β} (k : Nat) : ∀ (kvs : List (Nat × β)) (l : List (Nat × β)), k ∉ kvs.map (·.1) →
    alGet k (kvs.foldl (fun acc kv => alSet kv.1 kv.2 acc) l) = alGet k l
  | [], _, _ => rfl
  | kv :: rest, l, h => by
    simp only [List.map_cons, List.mem_cons, not_or] at h
    simp only [List.foldl_cons]
    rw [alGet_foldSet k rest _ h.2, alGet_alSet_ne _ _ _ _ (Ne.symm h.1)]

/-! ### partial-correctness reading of the monad -/

theorem bind_ok {α β} (x : M α) (f : α → M β) (w w' : World) (b : β)
    (h : (x >>= f).run.run w = (.ok b, w')) :
    ∃ a w1, x.run.run w = (.ok a, w1) ∧ (f a).run.run w1 = (.ok b, w') := by
  rw [run_bind] at h
  rcases hx : x.run.run w with ⟨r, w1⟩
  simp only [hx] at h
  cases r with
  | error e => cases h
  | ok a => exact ⟨a, w1, rfl, h⟩

theorem snd_eq {α β} {a b : α} {c d : β} (h : (a, c) = (b, d)) : c = d := congrArg Prod.snd h
theorem fst_eq {α β} {a b : α} {c d : β} (h : (a, c) = (b, d)) : a = b := congrArg Prod.fst h

/-- a callback that returns touched nothing but the event log and the instance counter -/
theorem tick_ok (env : Env) (e : Ev) (w w' : World) (u : Unit) (h : (tick env e).run.run w = (.ok u, w')) :
    ∃ g, w' = { w with events := w.events ++ [e], gcds := g } := by
  unfold tick at h
  have tail : ∀ (a s : World), (match env.raiseAt with
      | some (i, c) =>
        if a.events.length = i then do
          set { a with events := a.events ++ [e] }
          throw (.user c)
        else set { a with events := a.events ++ [e] }
      | none => set { a with events := a.events ++ [e] } : M Unit).run.run s = (.ok u, w') →
      w' = { a with events := a.events ++ [e] } := by
    intro a s ha
    cases hr : env.raiseAt with
    | none => simp only [hr, run_set] at ha; exact (snd_eq ha).symm
    | some ic =>
      obtain ⟨i, c⟩ := ic
      simp only [hr] at ha
      split at ha
      · simp only [run_bind, run_set, run_throw] at ha; cases ha
      · simp only [run_set] at ha; exact (snd_eq ha).symm
  simp only [run_bind, run_get] at h
  cases e with
  | gcd id =>
    simp only at h
    by_cases hg : w.gcds ≥ env.maxInst
    · simp only [hg, ↓reduceIte, run_throw] at h; cases h
    · simp only [hg, ↓reduceIte, run_pure] at h
      exact ⟨_, tail { w with gcds := w.gcds + 1 } _ h⟩
  | before id => simp only [run_pure] at h; exact ⟨_, tail _ _ h⟩
  | after id => simp only [run_pure] at h; exact ⟨_, tail _ _ h⟩
  | inject id key => simp only [run_pure] at h; exact ⟨_, tail _ _ h⟩


/-! ### contexts without slot references stay so -/

theorem all_free_iff (c : Ctx) : ctxFree c = true ↔ ∀ l ∈ c, slotFreeKvs l = true := by
  simp [ctxFree, List.all_eq_true]

theorem ctxFree_rebase (c : Ctx) (h : ctxFree c = true) : ctxFree (rebase c) = true := by
  rw [all_free_iff] at h ⊢
  intro l hl
  simp only [rebase, List.mem_map] at hl
  obtain ⟨l0, hl0, e⟩ := hl
  rw [← e]
  exact setL_free _ _ _ (h l0 hl0) rfl

theorem ctxFree_snapshot (c : Ctx) (h : ctxFree c = true) : ctxFree (snapshot c) = true := by
  unfold snapshot
  apply ctxFree_rebase
  cases c with
  | nil => rfl
  | cons l0 rest =>
    rw [all_free_iff] at h ⊢
    intro l hl
    simp only [List.mem_cons] at hl
    rcases hl with e | hl
    · rw [e]; exact filter_free _ _ (h l0 (List.mem_cons_self ..))
    · exact h l (List.mem_cons_of_mem _ hl)

theorem ctxFree_setTop (c : Ctx) (k : Str) (v : Val) (h : ctxFree c = true) (hv : slotFree v = true) :
    ctxFree (ctxSetTop c k v) = true := by
  unfold ctxSetTop
  rw [all_free_iff] at h
  cases hr : c.reverse with
  | nil => simp [ctxFree, slotFreeKvs, hv]
  | cons top below =>
    rw [all_free_iff]
    intro l hl
    have hmem : ∀ x ∈ top :: below, slotFreeKvs x = true := by
      intro x hx; rw [← hr] at hx; exact h x (List.mem_reverse.mp hx)
    simp only [List.reverse_cons, List.mem_append, List.mem_reverse, List.mem_singleton] at hl
    rcases hl with hl | e
    · exact hmem l (List.mem_cons_of_mem _ hl)
    · rw [e]; exact setL_free _ _ _ (hmem top (List.mem_cons_self ..)) hv

theorem ctxFree_foldSetTop : ∀ (kvs : Layer) (c : Ctx), slotFreeKvs kvs = true → ctxFree c = true →
    ctxFree (kvs.foldl (fun b kv => ctxSetTop b kv.1 kv.2) c) = true
  | [], c, _, hc => hc
  | (k, v) :: rest, c, hk, hc => by
    simp only [slotFreeKvs, Bool.and_eq_true] at hk
    simp only [List.foldl_cons]
    exact ctxFree_foldSetTop rest _ hk.2 (ctxFree_setTop c k v hc hk.1)

theorem ctxFree_isolatedCopy (ctx : Ctx) (h : ctxFree ctx = true) : ctxFree (isolatedCopy ctx) = true := by
  unfold isolatedCopy
  apply ctxFree_rebase
  apply ctxFree_foldSetTop _ _ (injectKeys_free ctx h)
  have hl0 : slotFreeKvs (if hasRootRc ctx then [(rcRootKey, Val.none)] else []) = true := by
    split <;> rfl
  cases hf : forLayerToCopy ctx with
  | none =>
    have hbase : ctxFree [if hasRootRc ctx then [(rcRootKey, Val.none)] else []] = true := by simp [ctxFree, hl0]
    cases hg : ctxGet ctx compKey with
    | none => simpa using hbase
    | some v => simpa using ctxFree_setTop _ compKey v hbase (ctxGet_free ctx compKey v h hg)
  | some l =>
    have hl := (all_free_iff ctx).mp h l (forLayerToCopy_mem' ctx l hf)
    have hbase : ctxFree [if hasRootRc ctx then [(rcRootKey, Val.none)] else [], l] = true := by simp [ctxFree, hl0, hl]
    cases hg : ctxGet ctx compKey with
    | none => simpa using hbase
    | some v => simpa using ctxFree_setTop _ compKey v hbase (ctxGet_free ctx compKey v h hg)

theorem lookupL_free' (k : Str) (l : Layer) (h : slotFreeKvs l = true) : slotFree ((lookupL k l).getD (.str [])) = true := by
  cases hl : lookupL k l with
  | none => rfl
  | some v => exact lookupL_free k l v h hl

theorem evalKwargs_free (ctx : Ctx) (h : ctxFree ctx = true) : ∀ (kw : List (Str × Expr)), slotFreeKvs (evalKwargs ctx kw) = true
  | [] => rfl
  | (k, e) :: rest => by
    have := evalKwargs_free ctx h rest
    simp only [evalKwargs, List.map_cons, slotFreeKvs, Bool.and_eq_true] at this ⊢
    exact ⟨evalExpr_free ctx e h, this⟩

theorem dataPure_free (id : Nat) (kw : List (Str × Val)) (hkw : slotFreeKvs kw = true) :
    ∀ (data : List (Str × Src)) (acc : Layer), data.all (fun kv => pureSrc kv.2 && constFree kv.2) = true →
      slotFreeKvs acc = true → slotFreeKvs (dataPure id kw data acc) = true
  | [], acc, _, ha => ha
  | (out, src) :: rest, acc, hd, ha => by
    simp only [List.all_cons, Bool.and_eq_true] at hd
    unfold dataPure
    refine dataPure_free id kw hkw rest _ hd.2 (setL_free _ _ _ ha ?_)
    cases src with
    | kwarg k => exact lookupL_free' k kw hkw
    | const v => exact hd.1.2
    | selfId => rfl
    | inject k d => rfl
    | side => rfl

/-! ### the balance of a render -/

structure GoodR (env : Env) (r : Renderer) (k : Nat) : Prop where
  id : r.id = k
  dyn : r.dynInner = none
  free : ctxFree r.ctx = true
  reg : ∃ d, findDef env r.name = some d

/-- a `ComponentContext` entry made by a tag of the fragment: no fills, not the dynamic component, and the context at
the tag (`outer_context`) holds no slot references -/
def GoodFill (f : FillFn) : Prop :=
  tnodes f.nodes = true ∧ slotFreeKvs f.extra = true ∧ f.defaultVar = none ∧ f.content = none

def GoodFills (fills : List (Str × FillFn)) : Prop := ∀ kv ∈ fills, GoodFill kv.2

def GoodC (cc : CompCtx) : Prop := GoodFills cc.fills ∧ cc.isDyn = false ∧ ∃ oc, cc.outer = some oc ∧ ctxFree oc = true

/-- nothing is registered under ids not generated yet; no provider alive; every `ComponentContext` entry is one of the
fragment -/
structure WInv (w : World) : Prop where
  prov : w.provideCache = []
  rc : ∀ k, w.nextId ≤ k → alGet k w.rendererCache = none
  cc : ∀ k, w.nextId ≤ k → alGet k w.ctxCache = none
  ca : ∀ k, w.nextId ≤ k → alGet k w.childAttrs = none
  refs : ∀ k, w.nextId ≤ k → w.allRefIds.contains k = false
  good : ∀ k cc, alGet k w.ctxCache = some cc → GoodC cc

def gcdIds : List Ev → List Nat
  | [] => []
  | .gcd i :: rest => i :: gcdIds rest
  | _ :: rest => gcdIds rest

theorem gcdIds_append : ∀ (a b : List Ev), gcdIds (a ++ b) = gcdIds a ++ gcdIds b
  | [], b => rfl
  | e :: rest, b => by cases e <;> simp [gcdIds, gcdIds_append rest b]

/-- what a render that returned did to the world: `ids` are the placeholders it returned -/
structure Bal (env : Env) (w w' : World) (ids : List Nat) : Prop where
  next : w.nextId ≤ w'.nextId
  range : ∀ k ∈ ids, w.nextId ≤ k ∧ k < w'.nextId
  nodup : ids.Nodup
  rcNew : ∀ k ∈ ids, ∃ r, alGet k w'.rendererCache = some r ∧ GoodR env r k
  rc : ∀ k, k ∉ ids → alGet k w'.rendererCache = alGet k w.rendererCache
  ccNew : ∀ k ∈ ids, (alGet k w'.ctxCache).isSome = true
  ccGood : ∀ k ∈ ids, ∀ cc, alGet k w'.ctxCache = some cc → GoodC cc
  cc : ∀ k, k ∉ ids → alGet k w'.ctxCache = alGet k w.ctxCache
  ca : ∀ k, alGet k w'.childAttrs = alGet k w.childAttrs
  prov : w'.provideCache = w.provideCache ∧ w'.provideRefs = w.provideRefs ∧ w'.allRefIds = w.allRefIds ∧ w'.cap = w.cap
  evs : ∃ evs, w'.events = w.events ++ evs ∧ gcdIds evs = List.range' w.nextId (w'.nextId - w.nextId)

/-- the fields the balance speaks about -/
def core (w : World) := (w.nextId, w.ctxCache, w.rendererCache, w.childAttrs, w.provideCache, w.provideRefs, w.allRefIds, w.cap, w.events)

theorem core_fields {a b : World} (h : core a = core b) :
    a.nextId = b.nextId ∧ a.ctxCache = b.ctxCache ∧ a.rendererCache = b.rendererCache ∧ a.childAttrs = b.childAttrs ∧
    a.provideCache = b.provideCache ∧ a.provideRefs = b.provideRefs ∧ a.allRefIds = b.allRefIds ∧ a.cap = b.cap ∧
    a.events = b.events := by
  simpa [core] using h

theorem Bal.refl (env : Env) (w : World) : Bal env w w [] where
  next := Nat.le_refl _
  range := by intro k hk; cases hk
  nodup := List.nodup_nil
  rcNew := by intro k hk; cases hk
  rc := fun _ _ => rfl
  ccNew := by intro k hk; cases hk
  ccGood := by intro k hk; cases hk
  cc := fun _ _ => rfl
  ca := fun _ => rfl
  prov := ⟨rfl, rfl, rfl, rfl⟩
  evs := ⟨[], by simp, by simp [gcdIds]⟩

theorem Bal.left {env : Env} {a b w' : World} {ids : List Nat} (h : core a = core b) (hb : Bal env a w' ids) : Bal env b w' ids := by
  obtain ⟨h1, h2, h3, h4, h5, h6, h7, h8, h9⟩ := core_fields h
  constructor
  · rw [← h1]; exact hb.next
  · rw [← h1]; exact hb.range
  · exact hb.nodup
  · exact hb.rcNew
  · rw [← h3]; exact hb.rc
  · exact hb.ccNew
  · exact hb.ccGood
  · rw [← h2]; exact hb.cc
  · rw [← h4]; exact hb.ca
  · rw [← h5, ← h6, ← h7, ← h8]; exact hb.prov
  · rw [← h9, ← h1]; exact hb.evs

theorem Bal.right {env : Env} {w a b : World} {ids : List Nat} (h : core a = core b) (hb : Bal env w a ids) : Bal env w b ids := by
  obtain ⟨h1, h2, h3, h4, h5, h6, h7, h8, h9⟩ := core_fields h
  constructor
  · rw [← h1]; exact hb.next
  · rw [← h1]; exact hb.range
  · exact hb.nodup
  · rw [← h3]; exact hb.rcNew
  · rw [← h3]; exact hb.rc
  · rw [← h2]; exact hb.ccNew
  · rw [← h2]; exact hb.ccGood
  · rw [← h2]; exact hb.cc
  · rw [← h4]; exact hb.ca
  · rw [← h5, ← h6, ← h7, ← h8]; exact hb.prov
  · rw [← h9, ← h1]; exact hb.evs

theorem WInv.of_core {a b : World} (h : core a = core b) (ha : WInv a) : WInv b := by
  obtain ⟨h1, h2, h3, h4, h5, h6, h7, h8, h9⟩ := core_fields h
  constructor
  · rw [← h5]; exact ha.prov
  · rw [← h1, ← h3]; exact ha.rc
  · rw [← h1, ← h2]; exact ha.cc
  · rw [← h1, ← h4]; exact ha.ca
  · rw [← h1, ← h7]; exact ha.refs
  · rw [← h2]; exact ha.good

theorem WInv.step {env : Env} {w w' : World} {ids : List Nat} (hw : WInv w) (hb : Bal env w w' ids) : WInv w' := by
  have hn : ∀ k, w'.nextId ≤ k → k ∉ ids := fun k hk hmem => by have := (hb.range k hmem).2; omega
  constructor
  · rw [hb.prov.1]; exact hw.prov
  · intro k hk; rw [hb.rc k (hn k hk)]; exact hw.rc k (Nat.le_trans hb.next hk)
  · intro k hk; rw [hb.cc k (hn k hk)]; exact hw.cc k (Nat.le_trans hb.next hk)
  · intro k hk; rw [hb.ca k]; exact hw.ca k (Nat.le_trans hb.next hk)
  · intro k hk; rw [hb.prov.2.2.1]; exact hw.refs k (Nat.le_trans hb.next hk)
  · intro k cc hk
    by_cases hm : k ∈ ids
    · exact hb.ccGood k hm cc hk
    · rw [hb.cc k hm] at hk; exact hw.good k cc hk

theorem range'_glue (a b c : Nat) (h1 : a ≤ b) (h2 : b ≤ c) :
    List.range' a (b - a) ++ List.range' b (c - b) = List.range' a (c - a) := by
  have : b = a + 1 * (b - a) := by omega
  conv => lhs; rhs; rw [this]
  rw [List.range'_append]
  congr 1; omega

theorem Bal.trans {env : Env} {w w1 w2 : World} {i1 i2 : List Nat} (h1 : Bal env w w1 i1) (h2 : Bal env w1 w2 i2) :
    Bal env w w2 (i1 ++ i2) := by
  have hdisj : ∀ k, k ∈ i1 → k ∉ i2 := fun k hk hk2 => by
    have := (h1.range k hk).2; have := (h2.range k hk2).1; omega
  constructor
  · exact Nat.le_trans h1.next h2.next
  · intro k hk
    rcases List.mem_append.mp hk with hk | hk
    · exact ⟨(h1.range k hk).1, Nat.lt_of_lt_of_le (h1.range k hk).2 h2.next⟩
    · exact ⟨Nat.le_trans h1.next (h2.range k hk).1, (h2.range k hk).2⟩
  · exact List.nodup_append.mpr ⟨h1.nodup, h2.nodup, fun a ha b hb e => hdisj a ha (e ▸ hb)⟩
  · intro k hk
    rcases List.mem_append.mp hk with hk | hk
    · obtain ⟨r, hr, hg⟩ := h1.rcNew k hk
      exact ⟨r, by rw [h2.rc k (hdisj k hk)]; exact hr, hg⟩
    · exact h2.rcNew k hk
  · intro k hk
    simp only [List.mem_append, not_or] at hk
    rw [h2.rc k hk.2, h1.rc k hk.1]
  · intro k hk
    rcases List.mem_append.mp hk with hk | hk
    · rw [h2.cc k (hdisj k hk)]; exact h1.ccNew k hk
    · exact h2.ccNew k hk
  · intro k hk cc hcc
    rcases List.mem_append.mp hk with hk | hk
    · rw [h2.cc k (hdisj k hk)] at hcc; exact h1.ccGood k hk cc hcc
    · exact h2.ccGood k hk cc hcc
  · intro k hk
    simp only [List.mem_append, not_or] at hk
    rw [h2.cc k hk.2, h1.cc k hk.1]
  · intro k; rw [h2.ca k, h1.ca k]
  · obtain ⟨a1, a2, a3, a4⟩ := h1.prov
    obtain ⟨b1, b2, b3, b4⟩ := h2.prov
    exact ⟨b1.trans a1, b2.trans a2, b3.trans a3, b4.trans a4⟩
  · obtain ⟨e1, he1, hg1⟩ := h1.evs
    obtain ⟨e2, he2, hg2⟩ := h2.evs
    refine ⟨e1 ++ e2, by rw [he2, he1, List.append_assoc], ?_⟩
    rw [gcdIds_append, hg1, hg2]
    exact range'_glue _ _ _ h1.next h2.next


/-! ### the queue of `component_post_render` -/

def chIds (Q : List QItem) : List Nat := Q.filterMap (·.child)
def opIds (Q : List QItem) : List Nat := Q.filterMap (fun it => if it.child.isNone then it.parent else none)

theorem chIds_append (a b : List QItem) : chIds (a ++ b) = chIds a ++ chIds b := by simp [chIds]
theorem opIds_append (a b : List QItem) : opIds (a ++ b) = opIds a ++ opIds b := by simp [opIds]

theorem chIds_split (me : Nat) (parent : Option Nat) : ∀ (toks acc : List Tok), chIds (splitHoles me parent acc toks) = holeIds toks
  | [], acc => by simp [splitHoles, chIds, holeIds]
  | t :: rest, acc => by
    cases t <;> simp only [splitHoles, holeIds] <;> first
      | exact chIds_split me parent rest _
      | (simp only [chIds, List.filterMap_cons]; exact congrArg _ (chIds_split me parent rest []))

theorem opIds_split (me : Nat) (parent : Option Nat) : ∀ (toks acc : List Tok), opIds (splitHoles me parent acc toks) = [me]
  | [], acc => by simp [splitHoles, opIds]
  | t :: rest, acc => by
    cases t <;> simp only [splitHoles] <;> first
      | exact opIds_split me parent rest _
      | (simp only [opIds, List.filterMap_cons]; exact opIds_split me parent rest [])

theorem noh_split (me : Nat) (parent : Option Nat) : ∀ (toks acc : List Tok), holeIds acc = [] →
    ∀ it ∈ splitHoles me parent acc toks, holeIds it.before = []
  | [], acc, ha => by intro it hit; simp only [splitHoles, List.mem_singleton] at hit; rw [hit]; exact ha
  | t :: rest, acc, ha => by
    have happ : ∀ t', holeIds [t'] = [] → holeIds (acc ++ [t']) = [] := fun t' ht => by rw [holeIds_append, ha, ht]; rfl
    cases t with
    | hole i a =>
      intro it hit
      simp only [splitHoles, List.mem_cons] at hit
      rcases hit with e | hit
      · rw [e]; exact ha
      · exact noh_split me parent rest [] rfl it hit
    | text s => simp only [splitHoles]; exact noh_split me parent rest _ (happ _ rfl)
    | opn tg a => simp only [splitHoles]; exact noh_split me parent rest _ (happ _ rfl)
    | cls tg => simp only [splitHoles]; exact noh_split me parent rest _ (happ _ rfl)
    | marker c i => simp only [splitHoles]; exact noh_split me parent rest _ (happ _ rfl)

/-- the invariant of the `while` loop, over the whole queue: `w0` is the world when the loop was entered -/
structure LInv (env : Env) (w0 : World) (Q : List QItem) (w : World) : Prop where
  next : w0.nextId ≤ w.nextId
  nodup : (chIds Q ++ opIds Q).Nodup
  range : ∀ k ∈ chIds Q ++ opIds Q, w0.nextId ≤ k ∧ k < w.nextId
  rcNew : ∀ k ∈ chIds Q, ∃ r, alGet k w.rendererCache = some r ∧ GoodR env r k
  rc : ∀ k, k ∉ chIds Q → alGet k w.rendererCache = alGet k w0.rendererCache
  cc : ∀ k, k ∉ chIds Q ++ opIds Q → alGet k w.ctxCache = alGet k w0.ctxCache
  ccGood : ∀ k ∈ chIds Q ++ opIds Q, ∀ cc, alGet k w.ctxCache = some cc → GoodC cc
  ca : ∀ k, k ∉ chIds Q → alGet k w.childAttrs = alGet k w0.childAttrs
  prov : w.provideCache = w0.provideCache ∧ w.provideRefs = w0.provideRefs ∧ w.allRefIds = w0.allRefIds ∧ w.cap = w0.cap
  noh : ∀ it ∈ Q, holeIds it.before = []
  evs : ∃ evs, w.events = w0.events ++ evs ∧ gcdIds evs = List.range' w0.nextId (w.nextId - w0.nextId)

theorem LInv.of_bal {env : Env} {w0 w : World} {Q : List QItem} (hb : Bal env w0 w (chIds Q)) (ho : opIds Q = [])
    (hn : ∀ it ∈ Q, holeIds it.before = []) : LInv env w0 Q w where
  next := hb.next
  nodup := by rw [ho, List.append_nil]; exact hb.nodup
  range := by rw [ho, List.append_nil]; exact hb.range
  rcNew := hb.rcNew
  rc := hb.rc
  cc := by rw [ho, List.append_nil]; exact hb.cc
  ccGood := by rw [ho, List.append_nil]; exact hb.ccGood
  ca := fun k _ => hb.ca k
  prov := hb.prov
  noh := hn
  evs := hb.evs

theorem LInv.to_bal {env : Env} {w0 w : World} (hl : LInv env w0 [] w) : Bal env w0 w [] where
  next := hl.next
  range := by intro k hk; cases hk
  nodup := List.nodup_nil
  rcNew := by intro k hk; cases hk
  rc := fun k _ => hl.rc k (by simp [chIds])
  ccNew := by intro k hk; cases hk
  ccGood := by intro k hk; cases hk
  cc := fun k _ => hl.cc k (by simp [chIds, opIds])
  ca := fun k => hl.ca k (by simp [chIds])
  prov := hl.prov
  evs := hl.evs

theorem nodup_middle' {α} {a : α} {l1 l2 : List α} (h : (l1 ++ a :: l2).Nodup) : (a :: (l1 ++ l2)).Nodup :=
  (List.Perm.nodup_iff List.perm_middle).mp h

theorem alGet_alDel_none {β} (k c : Nat) (l : List (Nat × β)) (h : alGet k l = none) : alGet k (alDel c l) = none := by
  by_cases e : c = k
  · rw [e]; exact alGet_alDel_same k l
  · rw [alGet_alDel_ne _ _ _ e]; exact h

theorem LInv.winv {env : Env} {w0 w : World} {Q : List QItem} (h0 : WInv w0) (hl : LInv env w0 Q w) : WInv w := by
  have hn : ∀ k, w.nextId ≤ k → k ∉ chIds Q ++ opIds Q := fun k hk hmem => by have := (hl.range k hmem).2; omega
  have hn1 : ∀ k, w.nextId ≤ k → k ∉ chIds Q := fun k hk hmem => hn k hk (List.mem_append_left _ hmem)
  constructor
  · rw [hl.prov.1]; exact h0.prov
  · intro k hk; rw [hl.rc k (hn1 k hk)]; exact h0.rc k (Nat.le_trans hl.next hk)
  · intro k hk; rw [hl.cc k (hn k hk)]; exact h0.cc k (Nat.le_trans hl.next hk)
  · intro k hk; rw [hl.ca k (hn1 k hk)]; exact h0.ca k (Nat.le_trans hl.next hk)
  · intro k hk; rw [hl.prov.2.2.1]; exact h0.refs k (Nat.le_trans hl.next hk)
  · intro k cc hk
    by_cases hm : k ∈ chIds Q ++ opIds Q
    · exact hl.ccGood k hm cc hk
    · rw [hl.cc k hm] at hk; exact h0.good k cc hk

/-- finishing an instance (`on_component_rendered`): its `ComponentContext` entry goes -/
theorem LInv.finish {env : Env} {w0 w w2 : World} {item : QItem} {queue : List QItem} {pid : Nat} {evs : List Ev}
    (h0 : WInv w0) (hl : LInv env w0 (item :: queue) w) (hc : item.child = none) (hp : item.parent = some pid)
    (hev : gcdIds evs = [])
    (h2 : core w2 = core { w with ctxCache := alDel pid w.ctxCache, events := w.events ++ evs }) :
    LInv env w0 queue w2 := by
  obtain ⟨e1, e2, e3, e4, e5, e6, e7, e8, e9⟩ := core_fields h2
  simp only at e1 e2 e3 e4 e5 e6 e7 e8 e9
  have hch : chIds (item :: queue) = chIds queue := by simp [chIds, hc]
  have hop : opIds (item :: queue) = pid :: opIds queue := by simp [opIds, hc, hp]
  have hnd := hl.nodup
  rw [hch, hop] at hnd
  have hpid : pid ∉ chIds queue ++ opIds queue := by
    intro hmem
    have := (nodup_middle' hnd)
    exact (List.nodup_cons.mp this).1 hmem
  have hpr : w0.nextId ≤ pid := (hl.range pid (by rw [hch, hop]; simp)).1
  constructor
  · rw [e1]; exact hl.next
  · exact (List.nodup_cons.mp (nodup_middle' hnd)).2
  · intro k hk
    rw [e1]
    refine hl.range k ?_
    rw [hch, hop]
    rcases List.mem_append.mp hk with hk | hk
    · exact List.mem_append_left _ hk
    · exact List.mem_append_right _ (List.mem_cons_of_mem _ hk)
  · intro k hk; rw [e3]; exact hl.rcNew k (by rw [hch]; exact hk)
  · intro k hk; rw [e3]; exact hl.rc k (by rw [hch]; exact hk)
  · intro k hk
    rw [e2]
    by_cases e : pid = k
    · rw [← e, alGet_alDel_same]; exact (h0.cc pid hpr).symm
    · rw [alGet_alDel_ne _ _ _ e]
      refine hl.cc k ?_
      rw [hch, hop]
      intro hmem
      rcases List.mem_append.mp hmem with hm | hm
      · exact hk (List.mem_append_left _ hm)
      · rcases List.mem_cons.mp hm with hm | hm
        · exact e hm.symm
        · exact hk (List.mem_append_right _ hm)
  · intro k hk cc hcc
    rw [e2] at hcc
    have hkp : pid ≠ k := fun e => hpid (e ▸ hk)
    rw [alGet_alDel_ne _ _ _ hkp] at hcc
    refine hl.ccGood k ?_ cc hcc
    rw [hch, hop]
    rcases List.mem_append.mp hk with hm | hm
    · exact List.mem_append_left _ hm
    · exact List.mem_append_right _ (List.mem_cons_of_mem _ hm)
  · intro k hk; rw [e4]; exact hl.ca k (by rw [hch]; exact hk)
  · rw [e5, e6, e7, e8]; exact hl.prov
  · intro it hit; exact hl.noh it (List.mem_cons_of_mem _ hit)
  · obtain ⟨ev0, he0, hg0⟩ := hl.evs
    refine ⟨ev0 ++ evs, by rw [e9, he0, List.append_assoc], ?_⟩
    rw [gcdIds_append, hev, List.append_nil, e1]; exact hg0


/-- running the renderer of a queued child: its placeholders join the queue, its own entry leaves the renderer cache -/
theorem LInv.child {env : Env} {w0 w w1 w2 w3 : World} {item : QItem} {queue : List QItem} {cid : Nat} {content : List Tok}
    {ga : List (Nat × List Str)}
    (h0 : WInv w0) (hl : LInv env w0 (item :: queue) w) (hc : item.child = some cid)
    (h1 : core w1 = core { w with rendererCache := alDel cid w.rendererCache, childAttrs := alDel cid w.childAttrs })
    (hb : Bal env w1 w2 (holeIds content)) (hga : ga.map (·.1) = holeIds content)
    (h3 : core w3 = core { w2 with childAttrs := ga.foldl (fun acc kv => alSet kv.1 kv.2 acc) w2.childAttrs }) :
    LInv env w0 (splitHoles cid item.parent [] content ++ queue) w3 := by
  obtain ⟨a1, a2, a3, a4, a5, a6, a7, a8, a9⟩ := core_fields h1
  obtain ⟨b1, b2, b3, b4, b5, b6, b7, b8, b9⟩ := core_fields h3
  simp only at a1 a2 a3 a4 a5 a6 a7 a8 a9 b1 b2 b3 b4 b5 b6 b7 b8 b9
  have hch : chIds (item :: queue) = cid :: chIds queue := by simp [chIds, hc]
  have hop : opIds (item :: queue) = opIds queue := by simp [opIds, hc]
  have hch' : chIds (splitHoles cid item.parent [] content ++ queue) = holeIds content ++ chIds queue := by
    rw [chIds_append, chIds_split]
  have hop' : opIds (splitHoles cid item.parent [] content ++ queue) = cid :: opIds queue := by
    rw [opIds_append, opIds_split]; rfl
  have hnd := hl.nodup
  rw [hch, hop] at hnd
  have hold : ∀ k ∈ cid :: chIds queue ++ opIds queue, w0.nextId ≤ k ∧ k < w.nextId := by
    intro k hk; exact hl.range k (by rw [hch, hop]; exact hk)
  have hfresh : ∀ k ∈ holeIds content, w.nextId ≤ k ∧ k < w2.nextId := by
    intro k hk; have := hb.range k hk; rw [a1] at this; exact this
  have hcid : w0.nextId ≤ cid := (hold cid (by simp)).1
  have hcidq : cid ∉ chIds queue := fun hm => (List.nodup_cons.mp hnd).1 (List.mem_append_left _ hm)
  have hcidf : cid ∉ holeIds content := fun hm => by
    have := (hfresh cid hm).1; have := (hold cid (by simp)).2; omega
  have hqf : ∀ k ∈ chIds queue, k ∉ holeIds content := fun k hk hm => by
    have := (hfresh k hm).1; have := (hold k (by simp [hk])).2; omega
  have hn12 : w.nextId ≤ w2.nextId := by have := hb.next; rw [a1] at this; exact this
  constructor
  · rw [b1]; exact Nat.le_trans hl.next hn12
  · rw [hch', hop', List.append_assoc]
    refine List.nodup_append.mpr ⟨hb.nodup, (List.Perm.nodup_iff List.perm_middle).mpr hnd, ?_⟩
    intro a ha b hb' e
    have hb2 : b ∈ cid :: chIds queue ++ opIds queue := by
      have := (List.Perm.mem_iff (List.perm_middle (a := cid) (l₁ := chIds queue) (l₂ := opIds queue))).mp hb'
      simpa using this
    have := (hfresh a ha).1; have := (hold b hb2).2; omega
  · intro k hk
    rw [hch', hop', List.append_assoc] at hk
    rw [b1]
    rcases List.mem_append.mp hk with hk | hk
    · exact ⟨Nat.le_trans hl.next (hfresh k hk).1, (hfresh k hk).2⟩
    · have hb2 : k ∈ cid :: chIds queue ++ opIds queue := by
        have := (List.Perm.mem_iff (List.perm_middle (a := cid) (l₁ := chIds queue) (l₂ := opIds queue))).mp hk
        simpa using this
      exact ⟨(hold k hb2).1, Nat.lt_of_lt_of_le (hold k hb2).2 hn12⟩
  · intro k hk
    rw [hch'] at hk
    rw [b3]
    rcases List.mem_append.mp hk with hk | hk
    · exact hb.rcNew k hk
    · obtain ⟨r, hr, hg⟩ := hl.rcNew k (by rw [hch]; exact List.mem_cons_of_mem _ hk)
      refine ⟨r, ?_, hg⟩
      rw [hb.rc k (hqf k hk), a3, alGet_alDel_ne _ _ _ (fun e : cid = k => hcidq (by rw [e]; exact hk))]
      exact hr
  · intro k hk
    rw [hch'] at hk
    simp only [List.mem_append, not_or] at hk
    rw [b3, hb.rc k hk.1, a3]
    by_cases e : cid = k
    · rw [← e, alGet_alDel_same]; exact (h0.rc cid hcid).symm
    · rw [alGet_alDel_ne _ _ _ e]
      exact hl.rc k (by rw [hch]; simp only [List.mem_cons, not_or]; exact ⟨fun e' => e e'.symm, hk.2⟩)
  · intro k hk
    rw [hch', hop'] at hk
    simp only [List.mem_append, List.mem_cons, not_or] at hk
    rw [b2, hb.cc k hk.1.1, a2]
    refine hl.cc k ?_
    rw [hch, hop]
    simp only [List.cons_append, List.mem_cons, List.mem_append, not_or]
    exact ⟨hk.2.1, hk.1.2, hk.2.2⟩
  · intro k hk cc hcc
    rw [b2] at hcc
    by_cases hm : k ∈ holeIds content
    · exact hb.ccGood k hm cc hcc
    · rw [hb.cc k hm, a2] at hcc
      refine hl.ccGood k ?_ cc hcc
      rw [hch, hop]
      rw [hch', hop'] at hk
      simp only [List.mem_append, List.mem_cons] at hk ⊢
      rcases hk with (h1 | h1) | (h1 | h1)
      · exact absurd h1 hm
      · exact Or.inl (Or.inr h1)
      · exact Or.inl (Or.inl h1)
      · exact Or.inr h1
  · intro k hk
    rw [hch'] at hk
    simp only [List.mem_append, not_or] at hk
    rw [b4, alGet_foldSet k ga _ (by rw [hga]; exact hk.1), hb.ca k, a4]
    by_cases e : cid = k
    · rw [← e, alGet_alDel_same]; exact (h0.ca cid hcid).symm
    · rw [alGet_alDel_ne _ _ _ e]
      exact hl.ca k (by rw [hch]; simp only [List.mem_cons, not_or]; exact ⟨fun e' => e e'.symm, hk.2⟩)
  · obtain ⟨p1, p2, p3, p4⟩ := hb.prov
    obtain ⟨q1, q2, q3, q4⟩ := hl.prov
    rw [b5, b6, b7, b8, p1, p2, p3, p4, a5, a6, a7, a8]
    exact ⟨q1, q2, q3, q4⟩
  · intro it hit
    rcases List.mem_append.mp hit with hit | hit
    · exact noh_split cid item.parent content [] rfl it hit
    · exact hl.noh it (List.mem_cons_of_mem _ hit)
  · obtain ⟨e1, he1, hg1⟩ := hl.evs
    obtain ⟨e2, he2, hg2⟩ := hb.evs
    refine ⟨e1 ++ e2, by rw [b9, he2, a9, he1, List.append_assoc], ?_⟩
    rw [gcdIds_append, hg1, hg2, a1, b1]
    exact range'_glue _ _ _ hl.next hn12


/-! ### small steps -/

theorem run_if_modify (c : Bool) (f : World → World) (w : World) :
    (if c = true then modify f else pure PUnit.unit : M PUnit).run.run w = (.ok ⟨⟩, if c then f w else w) := by
  cases c <;> rfl

theorem opt_tick_ok (env : Env) (c : Bool) (e : Ev) (w w' : World) (u : PUnit)
    (h : (if c = true then tick env e else pure PUnit.unit : M PUnit).run.run w = (.ok u, w')) (he : ∀ i, e ≠ .gcd i) :
    ∃ evs g, w' = { w with events := w.events ++ evs, gcds := g } ∧ gcdIds evs = [] := by
  cases c with
  | false =>
    simp only [Bool.false_eq_true, ↓reduceIte, run_pure] at h
    exact ⟨[], w.gcds, by rw [← snd_eq h]; simp, rfl⟩
  | true =>
    simp only [↓reduceIte] at h
    obtain ⟨g, hg⟩ := tick_ok env e w w' u h
    refine ⟨[e], g, hg, ?_⟩
    cases e with
    | gcd i => exact absurd rfl (he i)
    | _ => rfl

theorem Bal.ticked (env : Env) (w : World) (evs : List Ev) (g : Nat) (he : gcdIds evs = []) :
    Bal env w { w with events := w.events ++ evs, gcds := g } [] where
  next := Nat.le_refl _
  range := by intro k hk; cases hk
  nodup := List.nodup_nil
  rcNew := by intro k hk; cases hk
  rc := fun _ _ => rfl
  ccNew := by intro k hk; cases hk
  ccGood := by intro k hk; cases hk
  cc := fun _ _ => rfl
  ca := fun _ => rfl
  prov := ⟨rfl, rfl, rfl, rfl⟩
  evs := ⟨evs, rfl, by simp [he]⟩

/-- `_render_impl` up to the point where the renderer is queued -/
theorem reg_Bal (env : Env) (w w1 : World) (cc : CompCtx) (r : Renderer) (hw : WInv w)
    (hg : GoodR env r w.nextId) (hcc : GoodC cc)
    (e1 : w1.nextId = w.nextId + 1) (e2 : w1.ctxCache = alSet w.nextId cc w.ctxCache)
    (e3 : w1.rendererCache = alSet w.nextId r w.rendererCache) (e4 : w1.childAttrs = w.childAttrs)
    (e5 : w1.provideCache = w.provideCache) (e6 : w1.provideRefs = w.provideRefs) (e7 : w1.allRefIds = w.allRefIds)
    (e8 : w1.cap = w.cap) (e9 : w1.events = w.events ++ [.gcd w.nextId]) :
    Bal env w w1 [w.nextId] where
  next := by omega
  range := by intro k hk; simp only [List.mem_singleton] at hk; omega
  nodup := by simp
  rcNew := by
    intro k hk; simp only [List.mem_singleton] at hk
    exact ⟨r, by rw [hk, e3, alGet_alSet_same], hk ▸ hg⟩
  rc := by
    intro k hk; simp only [List.mem_singleton] at hk
    rw [e3, alGet_alSet_ne _ _ _ _ (fun e => hk e.symm)]
  ccNew := by
    intro k hk; simp only [List.mem_singleton] at hk
    rw [hk, e2, alGet_alSet_same]; rfl
  ccGood := by
    intro k hk c hc; simp only [List.mem_singleton] at hk
    rw [hk, e2, alGet_alSet_same] at hc
    injection hc with hc
    rw [← hc]; exact hcc
  cc := by
    intro k hk; simp only [List.mem_singleton] at hk
    rw [e2, alGet_alSet_ne _ _ _ _ (fun e => hk e.symm)]
  ca := by intro k; rw [e4]
  prov := ⟨e5, e6, e7, e8⟩
  evs := ⟨[.gcd w.nextId], e9, by rw [e1]; simp [gcdIds, List.range']⟩


/-! ### the induction -/

def PartsOk (parts : List (Nat × List Tok)) : Prop := ∀ p, holeIds (partsGet p parts) = []

theorem partsOk_nil : PartsOk [] := fun _ => rfl

theorem partsOk_set (parts : List (Nat × List Tok)) (g : Nat) (v : List Tok) (h : PartsOk parts) (hv : holeIds v = []) :
    PartsOk (alSet g v parts) := by
  intro p
  unfold partsGet
  by_cases e : g = p
  · rw [e, alGet_alSet_same]; exact hv
  · rw [alGet_alSet_ne _ _ _ _ e]; exact h p

theorem partsOk_del (parts : List (Nat × List Tok)) (g : Nat) (h : PartsOk parts) : PartsOk (alDel g parts) := by
  intro p
  unfold partsGet
  by_cases e : g = p
  · rw [e, alGet_alDel_same]; rfl
  · rw [alGet_alDel_ne _ _ _ e]; exact h p

def parentOf (ctx : Ctx) : Option Nat :=
  match ctxGet ctx compKey with
  | some (.compRef p) => some p
  | _ => none

structure Stmt (env : Env) (n : Nat) : Prop where
  nodes : ∀ nodes ctx w toks w', tnodes nodes = true → ctxFree ctx = true → WInv w →
    (renderNodes env n nodes ctx).run.run w = (.ok toks, w') → Bal env w w' (holeIds toks)
  for_ : ∀ x items i body ctx w toks w', tnodes body = true → ctxFree ctx = true → (∀ it ∈ items, slotFree it = true) → WInv w →
    (renderFor env n x items i body ctx).run.run w = (.ok toks, w') → Bal env w w' (holeIds toks)
  node : ∀ nd ctx w toks w', tnode nd = true → ctxFree ctx = true → WInv w →
    (renderNode env n nd ctx).run.run w = (.ok toks, w') → Bal env w w' (holeIds toks)
  tag : ∀ name kwargs only dyn body ctx w toks w', isDynName name = false → gbody body = true → ctxFree ctx = true → WInv w →
    (renderCompTag env n name kwargs only dyn body ctx).run.run w = (.ok toks, w') → Bal env w w' (holeIds toks)
  impl : ∀ name kw fills o ctx w toks w', isDynName name = false → ctxFree ctx = true → ctxFree o = true → slotFreeKvs kw = true →
    GoodFills fills → WInv w →
    (renderImpl env n name kw fills (some o) ctx).run.run w = (.ok toks, w') →
      Bal env w w' (holeIds toks) ∧ (parentOf ctx = none → holeIds toks = [])
  run : ∀ r k attrs w content ga w', GoodR env r k → WInv w →
    (runRenderer env n r attrs).run.run w = (.ok (content, ga), w') →
      Bal env w w' (holeIds content) ∧ ga.map (·.1) = holeIds content
  slot : ∀ nameE isRequired data body ctx w toks w', tnodes body = true → ctxFree ctx = true → WInv w →
    (renderSlot env n nameE false isRequired data body ctx).run.run w = (.ok toks, w') → Bal env w w' (holeIds toks)
  loop : ∀ Q parts out w0 w res w', WInv w0 → LInv env w0 Q w → PartsOk parts → holeIds out = [] →
    (postRender env n Q parts out).run.run w = (.ok res, w') → LInv env w0 [] w' ∧ holeIds res = []

theorem stmt_zero (env : Env) : Stmt env 0 := by
  constructor
  · intro nodes ctx w toks w' _ _ _ h; simp only [renderNodes, run_throw] at h; cases h
  · intro x items i body ctx w toks w' _ _ _ _ h; simp only [renderFor, run_throw] at h; cases h
  · intro nd ctx w toks w' _ _ _ h; simp only [renderNode, run_throw] at h; cases h
  · intro name kwargs only dyn body ctx w toks w' _ _ _ _ h; simp only [renderCompTag, run_throw] at h; cases h
  · intro name kw fills o ctx w toks w' _ _ _ _ _ _ h; simp only [renderImpl, run_throw] at h; cases h
  · intro r k attrs w content ga w' _ _ h; simp only [runRenderer, run_throw] at h; cases h
  · intro nameE isRequired data body ctx w toks w' _ _ _ h; simp only [renderSlot, run_throw] at h; cases h
  · intro Q parts out w0 w res w' _ _ _ _ h; simp only [postRender, run_throw] at h; cases h

theorem ok_inj {α} {a b : α} {w w' : World} (h : ((Except.ok a : Except Err α), w) = (.ok b, w')) : a = b ∧ w = w' := by
  cases h; exact ⟨rfl, rfl⟩

theorem stmt_nodes (env : Env) (n : Nat) (ih : Stmt env n) :
    ∀ nodes ctx w toks w', tnodes nodes = true → ctxFree ctx = true → WInv w →
    (renderNodes env (n + 1) nodes ctx).run.run w = (.ok toks, w') → Bal env w w' (holeIds toks) := by
  intro nodes ctx w toks w' ht hc hw h
  cases nodes with
  | nil =>
    simp only [renderNodes, run_pure] at h
    obtain ⟨rfl, rfl⟩ := ok_inj h
    exact Bal.refl env w
  | cons nd rest =>
    simp only [tnodes, Bool.and_eq_true] at ht
    simp only [renderNodes] at h
    obtain ⟨a, w1, h1, h⟩ := bind_ok _ _ _ _ _ h
    obtain ⟨b, w2, h2, h⟩ := bind_ok _ _ _ _ _ h
    simp only [run_pure] at h
    obtain ⟨rfl, rfl⟩ := ok_inj h
    have b1 := ih.node nd ctx w a w1 ht.1 hc hw h1
    have b2 := ih.nodes rest ctx w1 b w2 ht.2 hc (hw.step b1) h2
    rw [holeIds_append]
    exact b1.trans b2

theorem stmt_for (env : Env) (n : Nat) (ih : Stmt env n) :
    ∀ x items i body ctx w toks w', tnodes body = true → ctxFree ctx = true → (∀ it ∈ items, slotFree it = true) → WInv w →
    (renderFor env (n + 1) x items i body ctx).run.run w = (.ok toks, w') → Bal env w w' (holeIds toks) := by
  intro x items i body ctx w toks w' ht hc hi hw h
  cases items with
  | nil =>
    simp only [renderFor, run_pure] at h
    obtain ⟨rfl, rfl⟩ := ok_inj h
    exact Bal.refl env w
  | cons item items =>
    simp only [renderFor] at h
    obtain ⟨a, w1, h1, h⟩ := bind_ok _ _ _ _ _ h
    obtain ⟨b, w2, h2, h⟩ := bind_ok _ _ _ _ _ h
    simp only [run_pure] at h
    obtain ⟨rfl, rfl⟩ := ok_inj h
    have hit := hi item (List.mem_cons_self ..)
    have b1 := ih.nodes body _ w a w1 ht (ctxFree_push ctx _ hc (forLayer_free ctx x i item hc hit)) hw h1
    have b2 := ih.for_ x items (i + 1) body ctx w1 b w2 ht hc (fun it h => hi it (List.mem_cons_of_mem _ h)) (hw.step b1) h2
    rw [holeIds_append]
    exact b1.trans b2


theorem holeIds_noHole : ∀ (toks : List Tok), toks.all noHole = true → holeIds toks = []
  | [], _ => rfl
  | t :: rest, h => by
    simp only [List.all_cons, Bool.and_eq_true] at h
    cases t with
    | hole i a => simp [noHole] at h
    | _ => simp only [holeIds]; exact holeIds_noHole rest h.2

/-- the layer `SlotNode.render` pushes: the component keys of the outer context and the provider keys — no name a template
can use except `component_vars` -/
theorem extra_lookup2 (b : Layer) (ctx : Ctx) (k : Str) (hk : internal k = false) (hkv : k ≠ compVarsKey)
    (hb : ∀ x, lookupL x b ≠ none → x = compKey ∨ x = compVarsKey) : lookupL k (updateL b (injectKeysOf ctx)) = none := by
  cases hl : lookupL k (updateL b (injectKeysOf ctx)) with
  | none => rfl
  | some v0 =>
    exfalso
    rcases keys_updateL (injectKeysOf ctx) b k (by rw [hl]; simp) with h1 | ⟨kv, hkv', e⟩
    · rcases hb k h1 with e1 | e2
      · rw [e1] at hk; revert hk; decide
      · exact hkv e2
    · have := injectKeys_prefixed ctx kv hkv'
      rw [e, notInject_of_usable k hk] at this; cases this

theorem slotChecks_named (d : Bool) (ds : Option Str) (nm : Str) (fills : List (Str × FillFn)) :
    slotChecks false d ds nm fills = .ok (nm, ds) := by
  simp [slotChecks, chooseFillName]

theorem sGet_mem (k : Str) : ∀ (l : List (Str × FillFn)) (f : FillFn), sGet k l = some f → ∃ k', (k', f) ∈ l
  | [], _, h => by simp [sGet] at h
  | (k', v) :: rest, f, h => by
    simp only [sGet] at h
    split at h
    · injection h with h; exact ⟨k', by rw [h]; exact List.mem_cons_self ..⟩
    · obtain ⟨k2, hk2⟩ := sGet_mem k rest f h
      exact ⟨k2, List.mem_cons_of_mem _ hk2⟩

theorem ctxFree_insert (i : Nat) (l : Layer) (c : Ctx) (h : ctxFree c = true) (hl : slotFreeKvs l = true) :
    ctxFree (insertAt i l c) = true := by
  have : insertAt i l c = c.take i ++ (l :: c.drop i) := by simp [insertAt]
  rw [this]
  simp only [ctxFree, List.all_append, List.all_cons, hl, Bool.true_and, Bool.and_eq_true]
  have hall : ∀ x ∈ c, slotFreeKvs x = true := by simpa [ctxFree] using h
  simp only [List.all_eq_true]
  exact ⟨fun x hx => hall x (List.mem_of_mem_take hx), fun x hx => hall x (List.mem_of_mem_drop hx)⟩

theorem foldl_lastIndex_bound {α} (p : α → Bool) : ∀ (xs : List α) (k : Nat) (acc : Option Nat) (j : Nat),
    (∀ a, acc = some a → a < k) →
    (xs.zipIdx k).foldl (fun acc (x, i) => if p x then some i else acc) acc = some j → j < k + xs.length
  | [], k, acc, j, ha, h => by
    simp only [List.zipIdx_nil, List.foldl_nil] at h
    have := ha j h; simp only [List.length_nil, Nat.add_zero]; exact this
  | x :: rest, k, acc, j, ha, h => by
    simp only [List.zipIdx_cons, List.foldl_cons] at h
    have := foldl_lastIndex_bound p rest (k + 1) _ j (by
      intro a hacc
      split at hacc
      · injection hacc with hacc; omega
      · have := ha a hacc; omega) h
    simp only [List.length_cons]; omega

theorem getLastIndex_lt {α} (p : α → Bool) (xs : List α) (j : Nat) (h : getLastIndex p xs = some j) : j < xs.length := by
  have := foldl_lastIndex_bound p xs 0 none j (by intro a ha; cases ha) (by simpa [getLastIndex] using h)
  omega

/-- a variable set on the top layer is what a lookup finds, wherever below the top another layer is inserted -/
theorem ctxGet_insert_below_top (U : Ctx) (top e : Layer) (i : Nat) (d : Str) (v : Val) (hi : i ≤ U.length)
    (ht : lookupL d top = some v) : ctxGet (insertAt i e (U ++ [top])) d = some v := by
  have : insertAt i e (U ++ [top]) = (U.take i ++ e :: U.drop i) ++ [top] := by
    simp only [insertAt, List.take_append_of_le_length hi, List.drop_append_of_le_length hi, List.append_assoc, List.cons_append]
  rw [this, ctxGet_append_one, ht]

theorem ctxGet_cons_none (l : Layer) (B : Ctx) (k : Str) (h : lookupL k l = none) : ctxGet (l :: B) k = ctxGet B k := by
  unfold ctxGet
  simp only [List.foldl_cons, h]

theorem ctxGet_insert_none (i : Nat) (e : Layer) (c : Ctx) (k : Str) (h : lookupL k e = none) :
    ctxGet (insertAt i e c) k = ctxGet c k := by
  have : insertAt i e c = c.take i ++ (e :: c.drop i) := by simp [insertAt]
  rw [this, ctxGet_append, ctxGet_cons_none e _ k h, ← ctxGet_append, List.take_append_drop]

/-- `SlotNode.render` on an instance of the fragment: what is rendered, in which context — or the reason nothing is.
`nm` is the name the slot tag resolves to. -/
theorem slot_unfolds (env : Env) (n : Nat) (nameE : Expr) (isRequired : Bool) (data : List (Str × Expr)) (body : List Node)
    (ctx : Ctx) (w : World) (hc : ctxFree ctx = true) (hw : WInv w) :
    (∃ e, (renderSlot env (n + 1) nameE false isRequired data body ctx).run.run w = (.error e, w)) ∨
    (renderSlot env (n + 1) nameE false isRequired data body ctx).run.run w = (.ok [], w) ∨
    (∃ cid cc c3, ctxGet ctx compKey = some (.compRef cid) ∧ alGet cid w.ctxCache = some cc ∧ ctxFree c3 = true ∧
      ((sGet (slotNameOf (evalExpr ctx nameE)) cc.fills = none ∧
          (∀ k, internal k = false → k ≠ compVarsKey → ctxGet c3 k = ctxGet ctx k) ∧
          (renderSlot env (n + 1) nameE false isRequired data body ctx).run.run w = (renderNodes env n body c3).run.run w) ∨
       (∃ f, sGet (slotNameOf (evalExpr ctx nameE)) cc.fills = some f ∧
          (∀ d, f.dataVar = some d → ctxGet c3 d = some (.dict (evalKwargs ctx data))) ∧
          (∀ k, internal k = false → k ≠ compVarsKey → f.dataVar ≠ some k → lookupL k f.extra = none →
            ctxGet c3 k = ctxGet (if env.isolated then cc.outer.getD [] else ctx) k) ∧
          (renderSlot env (n + 1) nameE false isRequired data body ctx).run.run w = (renderNodes env n f.nodes c3).run.run w))) := by
  by_cases hdeep : (evalKwargs ctx data).any (fun kv => tooDeep 10 kv.2) = true
  · left; exact ⟨.budget, by unfold renderSlot; simp only [hdeep, ↓reduceIte, run_bind, run_throw]⟩
  cases hext : isExtracting ctx with
  | true => right; left; unfold renderSlot; simp only [hdeep, hext, Bool.false_eq_true, ↓reduceIte, run_bind, run_pure]
  | false =>
  have hcid : (∃ cid, ctxGet ctx compKey = some (.compRef cid)) ∨ ¬ (∃ cid, ctxGet ctx compKey = some (.compRef cid)) := Classical.em _
  rcases hcid with ⟨cid, hcid⟩ | hnc
  rotate_left
  · left
    refine ⟨.tse "slot outside component", ?_⟩
    unfold renderSlot
    cases hg : ctxGet ctx compKey with
    | none => simp only [hdeep, hext, Bool.false_eq_true, ↓reduceIte, run_bind, run_pure, run_throw]
    | some v =>
      cases v <;> first
        | (exfalso; exact hnc ⟨_, hg⟩)
        | (simp only [hdeep, hext, Bool.false_eq_true, ↓reduceIte, run_bind, run_pure, run_throw])
  cases hcc : alGet cid w.ctxCache with
  | none =>
    left
    exact ⟨.keyError "component_context_cache", by unfold renderSlot; simp only [hdeep, hext, Bool.false_eq_true, ↓reduceIte, run_bind, run_pure, hcid, run_get, hcc, run_throw]⟩
  | some cc =>
  obtain ⟨hgf, hdyn, oc, hoc, hocf⟩ := hw.good cid cc hcc
  cases hh : hashable (evalExpr ctx nameE) with
  | false =>
    left
    exact ⟨.typeError "unhashable slot name", by unfold renderSlot; simp only [hdeep, hext, Bool.false_eq_true, ↓reduceIte, run_bind, run_pure, hcid, run_get, hcc, hdyn,
      slotChecks_named, ne_eq, not_true_eq_false, hh, Bool.not_false, run_throw]⟩
  | true =>
  have hextra : slotFreeKvs (updateL (if (!env.isolated) = true then
      match ctxGet oc compKey with
      | some v => [(compKey, v), (compVarsKey, (ctxGet oc compVarsKey).getD Val.none)]
      | none => []
      else []) (injectKeysOf ctx)) = true := by
    refine updateL_free _ _ ?_ (injectKeys_free ctx hc)
    split
    · cases hg : ctxGet oc compKey with
      | none => rfl
      | some v =>
        have hv := ctxGet_free oc compKey v hocf hg
        have hv2 : slotFree ((ctxGet oc compVarsKey).getD Val.none) = true := by
          cases hg2 : ctxGet oc compVarsKey with
          | none => rfl
          | some v2 => exact ctxGet_free oc compVarsKey v2 hocf hg2
        simp [slotFreeKvs, hv, hv2]
    · rfl
  cases hfill : sGet (slotNameOf (evalExpr ctx nameE)) cc.fills with
  | none =>
    cases hreq : isRequired with
    | true =>
      left
      exact ⟨.tse "required slot not filled", by unfold renderSlot; simp only [hdeep, hext, Bool.false_eq_true, ↓reduceIte, run_bind, run_pure, hcid, run_get, hcc, hdyn,
        slotChecks_named, ne_eq, not_true_eq_false, hh, Bool.not_true, hoc, Option.isNone_some, Bool.and_false, Bool.false_and,
        hfill, requiredCheck, Option.isNone_none, Bool.and_self, Bool.true_and, Bool.not_false, run_throw]⟩
    | false =>
      right; right
      have hmain : ∃ c3, ctxFree c3 = true ∧ (∀ k, internal k = false → k ≠ compVarsKey → ctxGet c3 k = ctxGet ctx k) ∧
          (renderSlot env (n + 1) nameE false false data body ctx).run.run w = (renderNodes env n body c3).run.run w := by
        unfold renderSlot
        simp only [hdeep, hext, Bool.false_eq_true, ↓reduceIte, run_bind, run_pure, hcid, run_get, hcc, hdyn,
          slotChecks_named, ne_eq, not_true_eq_false, hh, Bool.not_true, hoc, Option.isNone_some, Bool.and_false, Bool.false_and,
          hfill, requiredCheck, Option.isNone_none, Bool.and_self, Bool.true_and, Bool.not_false, Option.getD_none, Option.isSome_none]
        refine ⟨_, ?_, ?_, rfl⟩
        · have hc2 := ctxFree_push ctx _ hc hextra
          split
          · exact ctxFree_insert_empty _ _ hc2
          · exact ctxFree_insert_empty _ _ hc2
        · -- the variables a template can name resolve as in the context at the slot tag
          intro k hk hkv
          have key : ∀ b : Layer, (∀ x, lookupL x b ≠ none → x = compKey ∨ x = compVarsKey) → ∀ (c : Ctx) (j : Nat),
              c = ctx ++ [updateL b (injectKeysOf ctx)] → ctxGet (insertAt j [] c) k = ctxGet ctx k := by
            intro b hb c j hcj
            rw [hcj, ctxGet_insert_empty, ctxGet_append_one, extra_lookup2 b ctx k hk hkv hb]
          have hbase : ∀ (v? : Option Val) (v2 : Val) (x : Str),
              lookupL x (match v? with | some v => [(compKey, v), (compVarsKey, v2)] | none => []) ≠ none → x = compKey ∨ x = compVarsKey := by
            intro v? v2 x h1
            cases v? with
            | none => simp [lookupL] at h1
            | some v =>
              simp only [lookupL] at h1
              split at h1
              · rename_i e1; exact Or.inl e1.symm
              · split at h1
                · rename_i e2; exact Or.inr e2.symm
                · exact absurd rfl h1
          split
          · refine key _ ?_ _ _ rfl
            intro x h1
            split at h1
            · cases hg : ctxGet oc compKey with
              | none => simp [hg, lookupL] at h1
              | some v => rw [hg] at h1; exact hbase (some v) _ x h1
            · simp [lookupL] at h1
          · refine key _ ?_ _ _ rfl
            intro x h1
            split at h1
            · cases hg : ctxGet oc compKey with
              | none => simp [hg, lookupL] at h1
              | some v => rw [hg] at h1; exact hbase (some v) _ x h1
            · simp [lookupL] at h1
      obtain ⟨c3, h1, h2, h3⟩ := hmain
      exact ⟨cid, cc, c3, hcid, hcc, h1, Or.inl ⟨hfill, h2, h3⟩⟩
  | some f =>
    obtain ⟨k', hmem⟩ := sGet_mem _ _ f hfill
    obtain ⟨_, hfe, hfd, hfc⟩ : GoodFill f := hgf (k', f) hmem
    right; right
    have hused : ctxFree ((if env.isolated = true then oc else ctx) ++ [updateL (if (!env.isolated) = true then
        match ctxGet oc compKey with
        | some v => [(compKey, v), (compVarsKey, (ctxGet oc compVarsKey).getD Val.none)]
        | none => []
        else []) (injectKeysOf ctx)]) = true := by
      refine ctxFree_push _ _ ?_ hextra
      split
      · exact hocf
      · exact hc
    have hmain : ∃ c3, ctxFree c3 = true ∧ (∀ d, f.dataVar = some d → ctxGet c3 d = some (.dict (evalKwargs ctx data))) ∧
        (∀ k, internal k = false → k ≠ compVarsKey → f.dataVar ≠ some k → lookupL k f.extra = none →
            ctxGet c3 k = ctxGet (if env.isolated then oc else ctx) k) ∧
        (renderSlot env (n + 1) nameE false isRequired data body ctx).run.run w = (renderNodes env n f.nodes c3).run.run w := by
      unfold renderSlot
      simp only [hdeep, hext, Bool.false_eq_true, ↓reduceIte, run_bind, run_pure, hcid, run_get, hcc, hdyn,
        slotChecks_named, ne_eq, not_true_eq_false, hh, Bool.not_true, hoc, Option.isNone_some, Bool.and_false, Bool.false_and,
        hfill, requiredCheck, Option.isNone_some, Bool.and_self, Bool.true_and, Bool.not_false, Option.getD_some, Option.isSome_some,
        hfc, hfd]
      refine ⟨_, ?_, ?_, ?_, rfl⟩
      rotate_left
      · -- the slot's data under the alias the fill asked for
        intro d hd
        simp only [hd, ctxSetTop_append_one]
        split
        · rename_i i hidx
          refine ctxGet_insert_below_top _ _ _ i d _ ?_ (lookupL_setL_same ..)
          have := getLastIndex_lt _ _ _ hidx
          simp only [List.length_append, List.length_cons, List.length_nil] at this
          omega
        · refine ctxGet_insert_below_top _ _ _ _ d _ ?_ (lookupL_setL_same ..)
          simp only [List.length_append, List.length_cons, List.length_nil]; omega
      · -- every other name a template can use: as in the context the fill is rendered in
        intro k hk hkv hkd hke
        have hU : ∀ (U : Ctx) (b : Layer), (∀ x, lookupL x b ≠ none → x = compKey ∨ x = compVarsKey) →
            ctxGet (U ++ [updateL b (injectKeysOf ctx)]) k = ctxGet U k := by
          intro U b hb
          rw [ctxGet_append_one, extra_lookup2 b ctx k hk hkv hb]
        have hpair : ∀ (v v2 : Val) (x : Str), lookupL x [(compKey, v), (compVarsKey, v2)] ≠ none → x = compKey ∨ x = compVarsKey := by
          intro v v2 x h1
          simp only [lookupL] at h1
          split at h1
          · rename_i e1; exact Or.inl e1.symm
          · split at h1
            · rename_i e2; exact Or.inr e2.symm
            · exact absurd rfl h1
        split
        · rw [ctxGet_insert_none _ _ _ _ hke]
          split
          · rename_i d hd
            rw [ctxGet_setTop_ne _ _ _ _ (fun e => hkd (by rw [hd, e]))]
            refine hU _ _ ?_
            intro x h1
            split at h1
            · cases hg : ctxGet oc compKey with
              | none => simp [hg, lookupL] at h1
              | some v => rw [hg] at h1; exact hpair _ _ x h1
            · simp [lookupL] at h1
          · refine hU _ _ ?_
            intro x h1
            split at h1
            · cases hg : ctxGet oc compKey with
              | none => simp [hg, lookupL] at h1
              | some v => rw [hg] at h1; exact hpair _ _ x h1
            · simp [lookupL] at h1
        · rw [ctxGet_insert_none _ _ _ _ hke]
          split
          · rename_i d hd
            rw [ctxGet_setTop_ne _ _ _ _ (fun e => hkd (by rw [hd, e]))]
            refine hU _ _ ?_
            intro x h1
            split at h1
            · cases hg : ctxGet oc compKey with
              | none => simp [hg, lookupL] at h1
              | some v => rw [hg] at h1; exact hpair _ _ x h1
            · simp [lookupL] at h1
          · refine hU _ _ ?_
            intro x h1
            split at h1
            · cases hg : ctxGet oc compKey with
              | none => simp [hg, lookupL] at h1
              | some v => rw [hg] at h1; exact hpair _ _ x h1
            · simp [lookupL] at h1
      have hdict : slotFree (Val.dict (evalKwargs ctx data)) = true := by
        simp only [slotFree]; exact evalKwargs_free ctx hc data
      have hc1 : ctxFree (match f.dataVar with
          | some d => ctxSetTop ((if env.isolated = true then oc else ctx) ++ [updateL (if (!env.isolated) = true then
              match ctxGet oc compKey with
              | some v => [(compKey, v), (compVarsKey, (ctxGet oc compVarsKey).getD Val.none)]
              | none => []
              else []) (injectKeysOf ctx)]) d (Val.dict (evalKwargs ctx data))
          | none => (if env.isolated = true then oc else ctx) ++ [updateL (if (!env.isolated) = true then
              match ctxGet oc compKey with
              | some v => [(compKey, v), (compVarsKey, (ctxGet oc compVarsKey).getD Val.none)]
              | none => []
              else []) (injectKeysOf ctx)]) = true := by
        split
        · exact ctxFree_setTop _ _ _ hused hdict
        · exact hused
      split
      · exact ctxFree_insert _ _ _ hc1 hfe
      · exact ctxFree_insert _ _ _ hc1 hfe
    obtain ⟨c3, h1, h2, h4, h3⟩ := hmain
    refine ⟨cid, cc, c3, hcid, hcc, h1, Or.inr ⟨f, hfill, h2, ?_, h3⟩⟩
    rw [hoc]; exact h4

theorem stmt_node (env : Env) (n : Nat) (ih : Stmt env n) :
    ∀ nd ctx w toks w', tnode nd = true → ctxFree ctx = true → WInv w →
    (renderNode env (n + 1) nd ctx).run.run w = (.ok toks, w') → Bal env w w' (holeIds toks) := by
  intro nd ctx w toks w' ht hc hw h
  unfold renderNode at h
  simp only [run_bind, run_get] at h
  by_cases hst : w.steps ≥ env.maxSteps
  · simp only [hst, if_true, run_throw] at h; cases h
  · simp only [hst, if_false, run_set] at h
    have hcore : core ({ w with steps := w.steps + 1 } : World) = core w := rfl
    have hw1 : WInv ({ w with steps := w.steps + 1 } : World) := WInv.of_core hcore.symm hw
    cases nd with
    | text s =>
      simp only [run_pure] at h
      obtain ⟨rfl, rfl⟩ := ok_inj h
      exact Bal.right hcore.symm (Bal.refl env w)
    | out e =>
      have hv := evalExpr_free ctx e hc
      simp only at h
      have fin : ∀ v, ((Except.ok [Tok.text (pyStr v)] : Except Err (List Tok)), ({ w with steps := w.steps + 1 } : World)) = (Except.ok toks, w') →
          Bal env w w' (holeIds toks) := by
        intro v hh
        obtain ⟨rfl, rfl⟩ := ok_inj hh
        exact Bal.right hcore.symm (Bal.refl env w)
      cases hev : evalExpr ctx e <;> simp only [hev, slotFree, run_bind, run_set, run_pure] at hv h <;> first
        | exact fin _ h
        | cases hv
    | ifn c t e =>
      simp only [tnode, Bool.and_eq_true] at ht
      simp only at h
      split at h
      · exact Bal.left hcore (ih.nodes t ctx _ toks w' ht.1 hc hw1 h)
      · exact Bal.left hcore (ih.nodes e ctx _ toks w' ht.2 hc hw1 h)
    | forn x e body =>
      simp only [tnode] at ht
      exact Bal.left hcore (ih.for_ x _ 0 body ctx _ toks w' ht hc (iterVals_free _ (evalExpr_free ctx e hc)) hw1 h)
    | withn x e body =>
      simp only [tnode] at ht
      refine Bal.left hcore (ih.nodes body _ _ toks w' ht (ctxFree_push ctx _ hc ?_) hw1 h)
      simp [slotFreeKvs, evalExpr_free ctx e hc]
    | elem tag body =>
      simp only [tnode] at ht
      obtain ⟨u, ws, hs, h⟩ := bind_ok _ _ _ _ _ h
      simp only [run_set] at hs
      obtain ⟨_, rfl⟩ := ok_inj hs
      obtain ⟨a, w1, h1, h⟩ := bind_ok _ _ _ _ _ h
      simp only [run_pure] at h
      obtain ⟨rfl, rfl⟩ := ok_inj h
      have b1 := ih.nodes body ctx _ a w1 ht hc hw1 h1
      have : holeIds ([Tok.opn tag []] ++ a ++ [Tok.cls tag]) = holeIds a := by
        rw [holeIds_append, holeIds_append]; simp [holeIds]
      rw [this]
      exact Bal.left hcore b1
    | comp name kwargs only dyn body =>
      simp only [tnode, Bool.and_eq_true, Bool.not_eq_true'] at ht
      obtain ⟨hb, hd⟩ := ht
      exact Bal.left hcore (ih.tag name kwargs only dyn body ctx _ toks w' hd hb hc hw1 h)
    | slot nameE isDefault isRequired data body =>
      simp only [tnode, Bool.and_eq_true, Bool.not_eq_true'] at ht
      obtain ⟨hdf, hb⟩ := ht
      subst hdf
      exact Bal.left hcore (ih.slot nameE isRequired data body ctx _ toks w' hb hc hw1 h)
    | fill a b c d => simp [tnode] at ht
    | provide a b c => simp [tnode] at ht
    | block a b => simp [tnode] at ht
    | blockSuper => simp [tnode] at ht
    | «extends» a => simp [tnode] at ht
    | includen a => simp [tnode] at ht

theorem stmt_slot (env : Env) (n : Nat) (ih : Stmt env n) :
    ∀ nameE isRequired data body ctx w toks w', tnodes body = true → ctxFree ctx = true → WInv w →
    (renderSlot env (n + 1) nameE false isRequired data body ctx).run.run w = (.ok toks, w') → Bal env w w' (holeIds toks) := by
  intro nameE isRequired data body ctx w toks w' hb hc hw h
  rcases slot_unfolds env n nameE isRequired data body ctx w hc hw with ⟨e, he⟩ | he | ⟨cid, cc, c3, _, hcc, hc3, hcase⟩
  · rw [he] at h; cases h
  · rw [he] at h
    obtain ⟨rfl, rfl⟩ := ok_inj h
    exact Bal.refl env w
  · rcases hcase with ⟨_, _, he⟩ | ⟨f, hf, _, _, he⟩
    · rw [he] at h
      exact ih.nodes body c3 w toks w' hb hc3 hw h
    · rw [he] at h
      obtain ⟨k', hmem⟩ := sGet_mem _ _ f hf
      have hgf : GoodFill f := (hw.good cid cc hcc).1 (k', f) hmem
      exact ih.nodes f.nodes c3 w toks w' hgf.1 hc3 hw h

/-! ### reading the body of a component tag for fills -/

theorem foldl_updateL_free (f : Layer → Layer) (hf : ∀ l, slotFreeKvs l = true → slotFreeKvs (f l) = true) :
    ∀ (c : Ctx) (acc : Layer), ctxFree c = true → slotFreeKvs acc = true →
      slotFreeKvs (c.foldl (fun acc l => updateL acc (f l)) acc) = true
  | [], acc, _, ha => ha
  | l :: rest, acc, hc, ha => by
    rw [all_free_iff] at hc
    simp only [List.foldl_cons]
    exact foldl_updateL_free f hf rest _ ((all_free_iff rest).mpr (fun x hx => hc x (List.mem_cons_of_mem _ hx)))
      (updateL_free _ _ ha (hf l (hc l (List.mem_cons_self ..))))

theorem foldl_condUpdate_free (p : Layer → Bool) :
    ∀ (c : Ctx) (acc : Layer), ctxFree c = true → slotFreeKvs acc = true →
      slotFreeKvs (c.foldl (fun acc l => if p l then updateL acc l else acc) acc) = true
  | [], acc, _, ha => ha
  | l :: rest, acc, hc, ha => by
    rw [all_free_iff] at hc
    simp only [List.foldl_cons]
    refine foldl_condUpdate_free p rest _ ((all_free_iff rest).mpr (fun x hx => hc x (List.mem_cons_of_mem _ hx))) ?_
    split
    · exact updateL_free _ _ ha (hc l (List.mem_cons_self ..))
    · exact ha

theorem capturedExtra_free (ctx : Ctx) (h : ctxFree ctx = true) : slotFreeKvs (capturedExtra ctx) = true := by
  unfold capturedExtra
  apply filter_free
  apply foldl_condUpdate_free _ ctx _ h
  have hdrop : ctxFree (ctx.drop ((getLastIndex (hasL fillGenKey) ctx).getD 0)) = true := by
    rw [all_free_iff] at h ⊢
    intro l hl; exact h l (List.mem_of_mem_drop hl)
  exact foldl_updateL_free _ (fun l hl => filter_free _ l hl) _ [] hdrop rfl

/-- a `{% fill %}` found while the body was read -/
def GoodCap (c : Captured) : Prop := tnodes c.nodes = true ∧ slotFreeKvs c.extra = true ∧ c.defaultVar = none

theorem extract_ok (env : Env) : ∀ (n : Nat) (body : List Node) (ctx : Ctx) (w w' : World) (toks : List Tok),
    fbody body = true → ctxFree ctx = true → isExtracting ctx = true →
    (renderNodes env n body ctx).run.run w = (.ok toks, w') →
    toks = [] ∧ ∃ caps st, w' = { w with cap := w.cap ++ caps, steps := st } ∧ caps.length = body.length ∧ ∀ c ∈ caps, GoodCap c
  | 0, _, _, _, _, _, _, _, _, h => by simp only [renderNodes, run_throw] at h; cases h
  | n + 1, [], ctx, w, w', toks, _, _, _, h => by
    simp only [renderNodes, run_pure] at h
    obtain ⟨rfl, rfl⟩ := ok_inj h
    exact ⟨rfl, [], w.steps, by simp, rfl, by intro c hc; cases hc⟩
  | n + 1, nd :: rest, ctx, w, w', toks, hb, hc, hx, h => by
    simp only [renderNodes] at h
    obtain ⟨a, w1, h1, h⟩ := bind_ok _ _ _ _ _ h
    obtain ⟨b, w2, h2, h⟩ := bind_ok _ _ _ _ _ h
    simp only [run_pure] at h
    obtain ⟨rfl, rfl⟩ := ok_inj h
    -- the first node is a fill tag with a literal name and no default alias
    cases nd with
    | fill nameE dataVar defaultVar content =>
      cases nameE with
      | var p => simp [fbody] at hb
      | lit nm =>
        cases defaultVar with
        | some d => simp [fbody] at hb
        | none =>
          simp only [fbody, Bool.and_eq_true] at hb
          have hfirst : a = [] ∧ ∃ st, w1 = { w with cap := w.cap ++ [{ name := nm, dataVar := dataVar, defaultVar := none, nodes := content, extra := capturedExtra ctx }], steps := st } := by
            cases n with
            | zero => simp only [renderNode, run_throw] at h1; cases h1
            | succ m =>
              unfold renderNode at h1
              simp only [run_bind, run_get] at h1
              by_cases hst : w.steps ≥ env.maxSteps
              · simp only [hst, if_true, run_throw] at h1; cases h1
              · simp only [hst, if_false, run_set, hx, Bool.not_true, Bool.false_eq_true, ↓reduceIte, evalExpr, run_pure] at h1
                cases dataVar with
                | none =>
                  simp only [Option.isSome_none, Bool.false_and, Bool.false_eq_true, ↓reduceIte, run_pure, run_bind, run_modify] at h1
                  obtain ⟨rfl, rfl⟩ := ok_inj h1
                  exact ⟨rfl, _, rfl⟩
                | some dv =>
                  by_cases hid : isIdentifier dv = true
                  · simp only [hid, Bool.not_true, Bool.false_eq_true, ↓reduceIte, run_pure, run_bind, Option.isSome_some, Bool.true_and,
                      decide_eq_true_eq, reduceCtorEq, run_modify] at h1
                    obtain ⟨rfl, rfl⟩ := ok_inj h1
                    exact ⟨rfl, _, rfl⟩
                  · simp only [hid, Bool.not_false, ↓reduceIte, run_bind, run_throw] at h1; cases h1
          obtain ⟨rfl, st1, rfl⟩ := hfirst
          obtain ⟨rfl, caps, st, rfl, hlen, hgood⟩ := extract_ok env n rest ctx _ w2 b hb.2 hc hx h2
          refine ⟨rfl, ({ name := nm, dataVar := dataVar, defaultVar := none, nodes := content, extra := capturedExtra ctx } : Captured) :: caps,
            st, by simp [List.append_assoc], by simp [hlen], ?_⟩
          intro c hcm
          rcases List.mem_cons.mp hcm with e | e
          · rw [e]; exact ⟨hb.1, capturedExtra_free ctx hc, rfl⟩
          · exact hgood c e
    | text _ => simp [fbody] at hb
    | out _ => simp [fbody] at hb
    | ifn _ _ _ => simp [fbody] at hb
    | forn _ _ _ => simp [fbody] at hb
    | withn _ _ _ => simp [fbody] at hb
    | elem _ _ => simp [fbody] at hb
    | slot _ _ _ _ _ => simp [fbody] at hb
    | comp _ _ _ _ _ => simp [fbody] at hb
    | provide _ _ _ => simp [fbody] at hb
    | block _ _ => simp [fbody] at hb
    | blockSuper => simp [fbody] at hb
    | «extends» _ => simp [fbody] at hb
    | includen _ => simp [fbody] at hb

theorem bind_any {α β} (x : M α) (f : α → M β) (w w' : World) (r : Except Err β)
    (h : (x >>= f).run.run w = (r, w')) :
    (∃ e, x.run.run w = (.error e, w')) ∨ ∃ a w1, x.run.run w = (.ok a, w1) ∧ (f a).run.run w1 = (r, w') := by
  rw [run_bind] at h
  rcases hx : x.run.run w with ⟨r1, w1⟩
  simp only [hx] at h
  cases r1 with
  | error e =>
    left
    have h' : ((Except.error e : Except Err β), w1) = (r, w') := h
    have := snd_eq h'
    subst this
    exact ⟨e, rfl⟩
  | ok a => right; exact ⟨a, w1, rfl, h⟩

theorem isExtracting_push_any (ctx : Ctx) (l : Layer) (h : isExtracting ctx = true) : isExtracting (ctx ++ [l]) = true := by
  simp only [isExtracting, ctxHas, ctxGet_append_one] at h ⊢
  cases lookupL fillGenKey l <;> simp [h]

/-- only the step counter moved -/
def StepsOnly (w w' : World) : Prop := ∃ st, w' = { w with steps := st }
theorem StepsOnly.refl (w : World) : StepsOnly w w := ⟨w.steps, rfl⟩
theorem StepsOnly.trans {a b c : World} (h1 : StepsOnly a b) (h2 : StepsOnly b c) : StepsOnly a c := by
  obtain ⟨s1, rfl⟩ := h1
  obtain ⟨s2, rfl⟩ := h2
  exact ⟨s2, rfl⟩

/-- reading content of the fragment in fill-extraction mode (component and slot tags print nothing there): whatever the
outcome, only the step counter moved -/
structure XStmt (env : Env) (n : Nat) : Prop where
  nodes : ∀ nodes ctx w r w', tnodes nodes = true → ctxFree ctx = true → isExtracting ctx = true →
    (renderNodes env n nodes ctx).run.run w = (r, w') → StepsOnly w w'
  for_ : ∀ x items i body ctx w r w', tnodes body = true → ctxFree ctx = true → (∀ it ∈ items, slotFree it = true) →
    isExtracting ctx = true → (renderFor env n x items i body ctx).run.run w = (r, w') → StepsOnly w w'
  node : ∀ nd ctx w r w', tnode nd = true → ctxFree ctx = true → isExtracting ctx = true →
    (renderNode env n nd ctx).run.run w = (r, w') → StepsOnly w w'

theorem xstmt_all (env : Env) : ∀ n, XStmt env n
  | 0 => by
    constructor
    · intro nodes ctx w r w' _ _ _ h; simp only [renderNodes, run_throw] at h; rw [← snd_eq h]; exact StepsOnly.refl w
    · intro x items i body ctx w r w' _ _ _ _ h; simp only [renderFor, run_throw] at h; rw [← snd_eq h]; exact StepsOnly.refl w
    · intro nd ctx w r w' _ _ _ h; simp only [renderNode, run_throw] at h; rw [← snd_eq h]; exact StepsOnly.refl w
  | n + 1 => by
    have ih := xstmt_all env n
    constructor
    · intro nodes ctx w r w' ht hc hx h
      cases nodes with
      | nil => simp only [renderNodes, run_pure] at h; rw [← snd_eq h]; exact StepsOnly.refl w
      | cons nd rest =>
        simp only [tnodes, Bool.and_eq_true] at ht
        simp only [renderNodes] at h
        rcases bind_any _ _ _ _ _ h with ⟨e, h1⟩ | ⟨a, w1, h1, h⟩
        · exact ih.node nd ctx w _ w' ht.1 hc hx h1
        · have s1 := ih.node nd ctx w _ w1 ht.1 hc hx h1
          rcases bind_any _ _ _ _ _ h with ⟨e, h2⟩ | ⟨b, w2, h2, h⟩
          · exact s1.trans (ih.nodes rest ctx w1 _ w' ht.2 hc hx h2)
          · simp only [run_pure] at h
            rw [← snd_eq h]
            exact s1.trans (ih.nodes rest ctx w1 _ w2 ht.2 hc hx h2)
    · intro x items i body ctx w r w' ht hc hi hx h
      cases items with
      | nil => simp only [renderFor, run_pure] at h; rw [← snd_eq h]; exact StepsOnly.refl w
      | cons item items =>
        simp only [renderFor] at h
        have hit := hi item (List.mem_cons_self ..)
        have hcf := ctxFree_push ctx _ hc (forLayer_free ctx x i item hc hit)
        have hxf := isExtracting_push_any ctx (forLayer ctx x i item) hx
        rcases bind_any _ _ _ _ _ h with ⟨e, h1⟩ | ⟨a, w1, h1, h⟩
        · exact ih.nodes body _ w _ w' ht hcf hxf h1
        · have s1 := ih.nodes body _ w _ w1 ht hcf hxf h1
          rcases bind_any _ _ _ _ _ h with ⟨e, h2⟩ | ⟨b, w2, h2, h⟩
          · exact s1.trans (ih.for_ x items (i + 1) body ctx w1 _ w' ht hc (fun it h => hi it (List.mem_cons_of_mem _ h)) hx h2)
          · simp only [run_pure] at h
            rw [← snd_eq h]
            exact s1.trans (ih.for_ x items (i + 1) body ctx w1 _ w2 ht hc (fun it h => hi it (List.mem_cons_of_mem _ h)) hx h2)
    · intro nd ctx w r w' ht hc hx h
      unfold renderNode at h
      simp only [run_bind, run_get] at h
      by_cases hst : w.steps ≥ env.maxSteps
      · simp only [hst, if_true, run_throw] at h; rw [← snd_eq h]; exact StepsOnly.refl w
      · simp only [hst, if_false, run_set] at h
        have s0 : StepsOnly w ({ w with steps := w.steps + 1 } : World) := ⟨_, rfl⟩
        cases nd with
        | text s => simp only [run_pure] at h; rw [← snd_eq h]; exact s0
        | out e =>
          have hv := evalExpr_free ctx e hc
          cases hev : evalExpr ctx e <;> simp only [hev, slotFree, run_bind, run_set, run_pure] at hv h <;> first
            | (rw [← snd_eq h]; exact s0)
            | cases hv
        | ifn c t e =>
          simp only [tnode, Bool.and_eq_true] at ht
          simp only at h
          split at h
          · exact s0.trans (ih.nodes t ctx _ _ w' ht.1 hc hx h)
          · exact s0.trans (ih.nodes e ctx _ _ w' ht.2 hc hx h)
        | forn x e body =>
          simp only [tnode] at ht
          exact s0.trans (ih.for_ x _ 0 body ctx _ _ w' ht hc (iterVals_free _ (evalExpr_free ctx e hc)) hx h)
        | withn x e body =>
          simp only [tnode] at ht
          refine s0.trans (ih.nodes body _ _ _ w' ht (ctxFree_push ctx _ hc ?_) (isExtracting_push_any ctx _ hx) h)
          simp [slotFreeKvs, evalExpr_free ctx e hc]
        | elem tag body =>
          simp only [tnode] at ht
          rcases bind_any _ _ _ _ _ h with ⟨e, hs⟩ | ⟨u, ws, hs, h⟩
          · simp only [run_set] at hs; cases hs
          · simp only [run_set] at hs
            obtain ⟨_, rfl⟩ := ok_inj hs
            rcases bind_any _ _ _ _ _ h with ⟨e, h1⟩ | ⟨a, w1, h1, h⟩
            · exact s0.trans (ih.nodes body ctx _ _ w' ht hc hx h1)
            · simp only [run_pure] at h
              rw [← snd_eq h]
              exact s0.trans (ih.nodes body ctx _ _ w1 ht hc hx h1)
        | comp name kwargs only dyn body =>
          -- `ComponentNode.render` returns at once while fills are being read
          cases n with
          | zero => simp only [renderCompTag, run_throw] at h; rw [← snd_eq h]; exact s0
          | succ m =>
            unfold renderCompTag at h
            simp only [hx, ↓reduceIte, run_pure] at h
            rw [← snd_eq h]; exact s0
        | slot nameE isDefault isRequired data body =>
          cases n with
          | zero => simp only [renderSlot, run_throw] at h; rw [← snd_eq h]; exact s0
          | succ m =>
            unfold renderSlot at h
            by_cases hdeep : (evalKwargs ctx data).any (fun kv => tooDeep 10 kv.2) = true
            · simp only [hdeep, ↓reduceIte, run_bind, run_throw] at h; rw [← snd_eq h]; exact s0
            · simp only [hdeep, hx, Bool.false_eq_true, ↓reduceIte, run_bind, run_pure] at h; rw [← snd_eq h]; exact s0
        | fill a b c d => simp [tnode] at ht
        | provide a b c => simp [tnode] at ht
        | block a b => simp [tnode] at ht
        | blockSuper => simp [tnode] at ht
        | «extends» a => simp [tnode] at ht
        | includen a => simp [tnode] at ht

theorem goodFills_sSet (k : Str) (v : FillFn) : ∀ (l : List (Str × FillFn)), GoodFill v → GoodFills l → GoodFills (sSet k v l)
  | [], hv, _ => by
    intro kv hkv
    simp only [sSet, List.mem_singleton] at hkv
    rw [hkv]; exact hv
  | (k', v') :: rest, hv, hl => by
    intro kv hkv
    simp only [sSet] at hkv
    split at hkv
    · rcases List.mem_cons.mp hkv with e | e
      · rw [e]; exact hv
      · exact hl kv (List.mem_cons_of_mem _ e)
    · rcases List.mem_cons.mp hkv with e | e
      · rw [e]; exact hl (k', v') (List.mem_cons_self ..)
      · exact goodFills_sSet k v rest hv (fun x hx => hl x (List.mem_cons_of_mem _ hx)) kv e

theorem goodFills_fold : ∀ (caps : List Captured) (acc : List (Str × FillFn)), GoodFills acc → (∀ c ∈ caps, GoodCap c) →
    GoodFills (caps.foldl (fun acc c => sSet c.name (fillOfCaptured c) acc) acc)
  | [], acc, ha, _ => ha
  | c :: rest, acc, ha, hc => by
    simp only [List.foldl_cons]
    refine goodFills_fold rest _ (goodFills_sSet _ _ acc ?_ ha) (fun x hx => hc x (List.mem_cons_of_mem _ hx))
    obtain ⟨h1, h2, h3⟩ := hc c (List.mem_cons_self ..)
    exact ⟨h1, h2, h3, rfl⟩

theorem isExtracting_push (ctx : Ctx) : isExtracting (ctx ++ [[(fillGenKey, Val.fillGen)]]) = true := by
  simp [isExtracting, ctxHas, ctxGet_append_one, lookupL]

/-- `resolve_fills` on a body of the fragment: the fills are of the fragment, the world is as before (the capture list is
restored) -/
theorem resolveFills_ok_f (env : Env) (n : Nat) (body : List Node) (ctx : Ctx) (w w' : World) (fills : List (Str × FillFn))
    (hb : fbody body = true) (hc : ctxFree ctx = true)
    (h : (resolveFills env (n + 1) body ctx).run.run w = (.ok fills, w')) :
    GoodFills fills ∧ ∃ st, w' = { w with steps := st } := by
  unfold resolveFills at h
  cases body with
  | nil =>
    simp only [List.isEmpty_nil, ↓reduceIte, run_pure] at h
    obtain ⟨rfl, rfl⟩ := ok_inj h
    exact ⟨fun kv hkv => (by cases hkv), w.steps, rfl⟩
  | cons nd rest =>
    simp only [List.isEmpty_cons, Bool.false_eq_true, ↓reduceIte, run_bind, run_get, run_modify] at h
    have hcE : ctxFree (ctx ++ [[(fillGenKey, Val.fillGen)]]) = true := ctxFree_push ctx _ hc (by simp [slotFreeKvs, slotFree])
    split at h
    · rename_i content w1 hrun
      obtain ⟨rfl, caps, st, rfl, hlen, hgood⟩ := extract_ok env n (nd :: rest) _ _ w1 content hb hcE (isExtracting_push ctx) hrun
      simp only [List.nil_append, run_bind, run_get, run_modify] at h
      have hne : caps.isEmpty = false := by
        cases caps with
        | nil => simp at hlen
        | cons c cs => rfl
      by_cases hnd : (caps.map (·.name)).Nodup
      · simp only [decideFills, hne, Bool.false_eq_true, ↓reduceIte, blankToks, List.all_nil, Bool.not_true, hnd, not_true_eq_false,
          decide_false, decide_true, run_pure] at h
        obtain ⟨rfl, rfl⟩ := ok_inj h
        exact ⟨goodFills_fold caps [] (fun kv hkv => (by cases hkv)) hgood, st, rfl⟩
      · simp only [decideFills, hne, Bool.false_eq_true, ↓reduceIte, blankToks, List.all_nil, Bool.not_true, hnd, not_false_eq_true,
          decide_false, decide_true, run_throw] at h
        cases h
    · cases h

/-- `resolve_fills` on a body of the fragment — fill tags, or content without fill tags (the implicit `default` fill) -/
theorem resolveFills_ok (env : Env) (n : Nat) (body : List Node) (ctx : Ctx) (w w' : World) (fills : List (Str × FillFn))
    (hb : gbody body = true) (hc : ctxFree ctx = true)
    (h : (resolveFills env (n + 1) body ctx).run.run w = (.ok fills, w')) :
    GoodFills fills ∧ ∃ st, w' = { w with steps := st } := by
  simp only [gbody, Bool.or_eq_true] at hb
  rcases hb with hb | hb
  · exact resolveFills_ok_f env n body ctx w w' fills hb hc h
  · unfold resolveFills at h
    cases body with
    | nil =>
      simp only [List.isEmpty_nil, ↓reduceIte, run_pure] at h
      obtain ⟨rfl, rfl⟩ := ok_inj h
      exact ⟨fun kv hkv => (by cases hkv), w.steps, rfl⟩
    | cons nd rest =>
      simp only [List.isEmpty_cons, Bool.false_eq_true, ↓reduceIte, run_bind, run_get, run_modify] at h
      have hcE : ctxFree (ctx ++ [[(fillGenKey, Val.fillGen)]]) = true := ctxFree_push ctx _ hc (by simp [slotFreeKvs, slotFree])
      split at h
      · rename_i content w1 hrun
        obtain ⟨st, rfl⟩ := (xstmt_all env n).nodes (nd :: rest) _ _ _ w1 hb hcE (isExtracting_push ctx) hrun
        by_cases hbl : blankBody (nd :: rest) = true
        · simp only [run_bind, run_get, run_modify, decideFills, List.isEmpty_nil, ↓reduceIte, hbl, run_pure] at h
          obtain ⟨rfl, rfl⟩ := ok_inj h
          exact ⟨fun kv hkv => (by cases hkv), st, rfl⟩
        · simp only [run_bind, run_get, run_modify, decideFills, List.isEmpty_nil, ↓reduceIte, hbl, Bool.false_eq_true, run_pure] at h
          obtain ⟨rfl, rfl⟩ := ok_inj h
          refine ⟨?_, st, rfl⟩
          intro kv hkv
          simp only [List.mem_singleton] at hkv
          rw [hkv]
          exact ⟨hb, rfl, rfl, rfl⟩
      · cases h

theorem stmt_tag (env : Env) (n : Nat) (ih : Stmt env n) :
    ∀ name kwargs only dyn body ctx w toks w', isDynName name = false → gbody body = true → ctxFree ctx = true → WInv w →
    (renderCompTag env (n + 1) name kwargs only dyn body ctx).run.run w = (.ok toks, w') → Bal env w w' (holeIds toks) := by
  intro name kwargs only dyn body ctx w toks w' hd hb hc hw h
  unfold renderCompTag at h
  cases hext : isExtracting ctx with
  | true =>
    simp only [hext, ↓reduceIte, run_pure] at h
    obtain ⟨rfl, rfl⟩ := ok_inj h
    exact Bal.refl env w
  | false =>
    simp only [hext, Bool.false_eq_true, ↓reduceIte] at h
    cases hf : findDef env name with
    | none => simp only [hf, hd, Bool.false_eq_true, ↓reduceIte, run_bind, run_throw] at h; cases h
    | some d =>
      simp only [hf] at h
      obtain ⟨fills, w1, hres, h⟩ := bind_ok _ _ _ _ _ h
      cases n with
      | zero => simp only [resolveFills, run_throw] at hres; cases hres
      | succ m =>
        obtain ⟨hgf, st, rfl⟩ := resolveFills_ok env m body ctx w w1 fills hb hc hres
        have hcore : core ({ w with steps := st } : World) = core w := rfl
        refine Bal.left hcore (ih.impl name (evalKwargs ctx kwargs) fills ctx _ _ toks w' hd ?_ hc (evalKwargs_free ctx hc kwargs) hgf
          (WInv.of_core hcore.symm hw) h).1
        split
        · exact ctxFree_isolatedCopy ctx hc
        · exact hc

/-- the body of `renderImpl`, with the enclosing instance as a parameter -/
def implBody (env : Env) (n : Nat) (name : Str) (kw : List (Str × Val)) (fills : List (Str × FillFn)) (outer : Option Ctx)
    (ctx : Ctx) (parent : Option Nat) : M (List Tok) := do
  let id ← genId
  let path ← match parent with
    | some p =>
      match alGet p (← get).ctxCache with
      | some pc => pure (pc.path ++ [name])
      | none => throw (.keyError "component_context_cache")
    | none => pure [name]
  if parent.isNone && hasRootRc ctx then modify (fun w => { w with rcLeak := w.rcLeak + 1 })
  modify (registerRefW ctx id)
  let dyn := isDynName name
  modify (fun w => { w with ctxCache := alSet id { name, id, path, fills, isDyn := dyn, defaultSlot := none, outer := outer.map snapshot } w.ctxCache })
  if !dyn then tick env (.gcd id)
  let (data, dynInner) ← (if dyn then
      match lookupL isKey kw with
      | some (.str inner) =>
        if inner.isEmpty then throw (.typeError "dynamic: missing is") else
        match findDef env inner with
        | some _ => pure (([] : Layer), some (inner, kw.filter (fun kv => kv.1 ≠ isKey), if parent.isSome then liveLater ctx else ctx))
        | none => throw .notRegistered
      | _ => throw (.typeError "dynamic: missing is")
    else
      match findDef env name with
      | some d => do
        let l ← getContextData env id ctx kw d.data []
        pure (l, none)
      | none => throw .notRegistered : M (Layer × Option (Str × List (Str × Val) × Ctx)))
  let snap := snapshot (ctx ++ [data] ++ [[(compKey, .compRef id), (compVarsKey, compVars fills)]])
  if parent.isNone && hasRootRc ctx then modify (fun w => { w with rcLeak := w.rcLeak - 1 })
  let r : Renderer := { id, name, ctx := snap, dynInner, fills, outer := if parent.isSome then outer.map liveLater else outer }
  modify (fun w => { w with rendererCache := alSet id r w.rendererCache })
  match parent with
  | some _ => pure [.hole id []]
  | none => postRender env n [{ before := [], child := some id, parent := none, grand := none }] [] []

theorem renderImpl_succ (env : Env) (n : Nat) (name : Str) (kw : List (Str × Val)) (fills : List (Str × FillFn))
    (outer : Option Ctx) (ctx : Ctx) :
    renderImpl env (n + 1) name kw fills outer ctx = implBody env n name kw fills outer ctx (parentOf ctx) := by
  unfold renderImpl implBody parentOf
  rfl


theorem pure_of_good (d : CompDef) (h : d.data.all (fun kv => pureSrc kv.2 && constFree kv.2) = true) :
    d.data.all (fun kv => pureSrc kv.2) = true := by
  rw [List.all_eq_true] at h ⊢
  intro x hx
  have := h x hx
  simp only [Bool.and_eq_true] at this
  exact this.1

theorem good_cc (name : Str) (id : Nat) (path : List Str) (fills : List (Str × FillFn)) (o : Ctx) (hgf : GoodFills fills)
    (h : ctxFree o = true) :
    GoodC { name := name, id := id, path := path, fills := fills, isDyn := false, defaultSlot := none,
            outer := Option.map snapshot (some o) } :=
  ⟨hgf, rfl, snapshot o, rfl, ctxFree_snapshot o h⟩

theorem good_renderer (env : Env) (name : Str) (kw : List (Str × Val)) (ctx : Ctx) (id : Nat) (d : CompDef) (o : Option Ctx)
    (fills : List (Str × FillFn))
    (hc : ctxFree ctx = true) (hkw : slotFreeKvs kw = true) (hf : findDef env name = some d)
    (hgood : d.data.all (fun kv => pureSrc kv.2 && constFree kv.2) = true) :
    GoodR env { id := id, name := name,
                ctx := snapshot (ctx ++ [dataPure id kw d.data []] ++ [[(compKey, .compRef id), (compVarsKey, compVars fills)]]),
                dynInner := none, fills := fills, outer := o } id where
  id := rfl
  dyn := rfl
  free := by
    refine ctxFree_snapshot _ (ctxFree_push _ _ (ctxFree_push ctx _ hc (dataPure_free id kw hkw d.data [] hgood rfl)) ?_)
    simp [slotFreeKvs, slotFree, compVars]
  reg := ⟨d, hf⟩

/-- a render that is not inside a component: the deque loop runs to its end -/
theorem loop_root (env : Env) (n : Nat) (ih : Stmt env n) (w w1 w' : World) (toks : List Tok) (hw : WInv w)
    (h : (postRender env n [{ before := [], child := some w.nextId, parent := none, grand := none }] [] []).run.run w1 = (.ok toks, w'))
    (cc : CompCtx) (r : Renderer) (hg : GoodR env r w.nextId) (hcc : GoodC cc)
    (e1 : w1.nextId = w.nextId + 1) (e2 : w1.ctxCache = alSet w.nextId cc w.ctxCache)
    (e3 : w1.rendererCache = alSet w.nextId r w.rendererCache) (e4 : w1.childAttrs = w.childAttrs)
    (e5 : w1.provideCache = w.provideCache) (e6 : w1.provideRefs = w.provideRefs) (e7 : w1.allRefIds = w.allRefIds)
    (e8 : w1.cap = w.cap) (e9 : w1.events = w.events ++ [.gcd w.nextId]) :
    Bal env w w' (holeIds toks) ∧ holeIds toks = [] := by
  have hb := reg_Bal env w w1 cc r hw hg hcc e1 e2 e3 e4 e5 e6 e7 e8 e9
  have hl : LInv env w [{ before := [], child := some w.nextId, parent := none, grand := none }] w1 :=
    LInv.of_bal (by simpa [chIds] using hb) (by simp [opIds]) (by intro it hit; simp only [List.mem_singleton] at hit; rw [hit]; rfl)
  obtain ⟨hfin, hno⟩ := ih.loop _ [] [] w w1 toks w' hw hl partsOk_nil rfl h
  rw [hno]
  exact ⟨hfin.to_bal, rfl⟩

theorem stmt_impl (env : Env) (n : Nat) (ih : Stmt env n) (hlib : GoodLib env) :
    ∀ name kw fills o ctx w toks w', isDynName name = false → ctxFree ctx = true → ctxFree o = true → slotFreeKvs kw = true →
    GoodFills fills → WInv w →
    (renderImpl env (n + 1) name kw fills (some o) ctx).run.run w = (.ok toks, w') →
      Bal env w w' (holeIds toks) ∧ (parentOf ctx = none → holeIds toks = []) := by
  intro name kw fills o ctx w toks w' hd hc ho hkw hgf hw h
  rw [renderImpl_succ] at h
  generalize parentOf ctx = par at h ⊢
  unfold implBody at h
  cases hf : findDef env name with
  | none =>
    have hany : ∀ (x : M Unit) (k : Layer × Option (Str × List (Str × Val) × Ctx) → M (List Tok)) (w0 : World),
        (x >>= fun _ => (throw Err.notRegistered : M (Layer × Option (Str × List (Str × Val) × Ctx))) >>= k).run.run w0 ≠ (.ok toks, w') := by
      intro x k w0 hh
      obtain ⟨_, _, _, hh⟩ := bind_ok _ _ _ _ _ hh
      obtain ⟨_, _, hh, _⟩ := bind_ok _ _ _ _ _ hh
      simp only [run_throw] at hh; cases hh
    cases par with
    | none =>
      simp only [run_bind, run_genId, hd, hf, Bool.false_eq_true, ↓reduceIte, Bool.not_false, run_pure, Option.isNone_none,
        Bool.true_and, Option.isSome_none, run_modify, registerRefW, hw.prov, List.isEmpty_nil, run_throw] at h
      cases hrc : hasRootRc ctx <;> simp only [hrc, Bool.false_eq_true, ↓reduceIte, run_pure, run_modify, run_bind, run_throw] at h <;>
        (split at h <;> cases h)
    | some p =>
      simp only [run_bind, run_genId, run_get] at h
      cases hpc : alGet p w.ctxCache with
      | none => simp only [hpc, run_throw] at h; cases h
      | some pc =>
        simp only [hpc, hd, hf, Bool.false_eq_true, ↓reduceIte, Bool.not_false, run_pure, Option.isNone_some,
          Bool.false_and, Option.isSome_some, run_modify, registerRefW, hw.prov, List.isEmpty_nil, run_bind, run_throw] at h
        split at h <;> cases h
  | some d =>
    have hgood := hlib d (findDef_mem env name d hf)
    have hgd := fun w' => getContextData_pure env w.nextId ctx kw d.data [] w' (pure_of_good d hgood.2)
    cases par with
    | none =>
      cases hrc : hasRootRc ctx with
      | true =>
        simp only [run_bind, run_genId, hd, hf, hrc, Bool.false_eq_true, ↓reduceIte, Bool.not_false, run_pure, Option.isNone_none,
          Bool.true_and, Bool.and_self, Option.isSome_none, run_modify, registerRefW, hw.prov, List.isEmpty_nil] at h
        split at h
        · rename_i a wt ht
          obtain ⟨g, rfl⟩ := tick_ok _ _ _ _ _ ht
          simp only [hgd, run_bind, run_pure, run_modify] at h
          have := loop_root env n ih w _ w' toks hw h _ _ (good_renderer env name kw ctx w.nextId d _ fills hc hkw hf hgood.2)
            (good_cc name w.nextId _ fills o hgf ho) rfl rfl rfl rfl hw.prov.symm rfl rfl rfl rfl
          exact ⟨this.1, fun _ => this.2⟩
        · cases h
      | false =>
        simp only [run_bind, run_genId, hd, hf, hrc, Bool.false_eq_true, ↓reduceIte, Bool.not_false, run_pure, Option.isNone_none,
          Bool.true_and, Bool.and_self, Bool.and_false, Option.isSome_none, run_modify, registerRefW, hw.prov, List.isEmpty_nil] at h
        split at h
        · rename_i a wt ht
          obtain ⟨g, rfl⟩ := tick_ok _ _ _ _ _ ht
          simp only [hgd, run_bind, run_pure, run_modify] at h
          have := loop_root env n ih w _ w' toks hw h _ _ (good_renderer env name kw ctx w.nextId d _ fills hc hkw hf hgood.2)
            (good_cc name w.nextId _ fills o hgf ho) rfl rfl rfl rfl hw.prov.symm rfl rfl rfl rfl
          exact ⟨this.1, fun _ => this.2⟩
        · cases h
    | some p =>
      simp only [run_bind, run_genId, run_get] at h
      cases hpc : alGet p w.ctxCache with
      | none => simp only [hpc, run_throw] at h; cases h
      | some pc =>
        simp only [hpc, hd, hf, Bool.false_eq_true, ↓reduceIte, Bool.not_false, run_pure, Option.isNone_some,
          Bool.false_and, Option.isSome_some, run_modify, registerRefW, hw.prov, List.isEmpty_nil, run_bind] at h
        split at h
        · rename_i a wt ht
          obtain ⟨g, rfl⟩ := tick_ok _ _ _ _ _ ht
          simp only [hgd, run_bind, run_pure, run_modify] at h
          obtain ⟨rfl, rfl⟩ := ok_inj h
          exact ⟨reg_Bal env w _ _ _ hw (good_renderer env name kw ctx w.nextId d _ fills hc hkw hf hgood.2)
            (good_cc name w.nextId _ fills o hgf ho) rfl rfl rfl rfl hw.prov.symm rfl rfl rfl rfl, fun hh => by cases hh⟩
        · cases h


theorem stmt_run (env : Env) (n : Nat) (ih : Stmt env n) (hlib : GoodLib env) :
    ∀ r k attrs w content ga w', GoodR env r k → WInv w →
    (runRenderer env (n + 1) r attrs).run.run w = (.ok (content, ga), w') →
      Bal env w w' (holeIds content) ∧ ga.map (·.1) = holeIds content := by
  intro r k attrs w content ga w' hg hw h
  unfold runRenderer at h
  obtain ⟨d, hf⟩ := hg.reg
  simp only [hg.dyn, Option.isNone_none, ↓reduceIte, hf] at h
  obtain ⟨u, w1, ht, h⟩ := bind_ok _ _ _ _ _ h
  obtain ⟨g, rfl⟩ := tick_ok _ _ _ _ _ ht
  obtain ⟨html, w2, hr, h⟩ := bind_ok _ _ _ _ _ h
  simp only [run_pure] at h
  obtain ⟨hcg, rfl⟩ := ok_inj h
  obtain ⟨rfl, rfl⟩ := Prod.mk.inj hcg
  have hb0 : Bal env w { w with events := w.events ++ [Ev.before r.id], gcds := g } [] := Bal.ticked env w _ g rfl
  have hb1 := ih.nodes d.template r.ctx _ html w2 (hlib d (findDef_mem env r.name d hf)).1 hg.free (hw.step hb0) hr
  constructor
  · have : holeIds (Tok.marker r.name r.id :: addRootAttrs (attrs ++ [idAttr r.id]) html) = [] ++ holeIds html := by
      simp only [holeIds, addRootAttrs, holeIds_addRootAttrsAux, List.nil_append]
    rw [this]
    exact hb0.trans hb1
  · simp only [rootHoles, keys_rootHolesAux, holeIds, addRootAttrs, holeIds_addRootAttrsAux]


theorem ite_hoist {α} (c : Prop) [Decidable c] (x : M PUnit) (rest : M α) :
    (if c then (do x; rest) else rest) = (do (if c then x else pure PUnit.unit); rest) := by
  split <;> simp

theorem stmt_loop (env : Env) (n : Nat) (ih : Stmt env n) :
    ∀ Q parts out w0 w res w', WInv w0 → LInv env w0 Q w → PartsOk parts → holeIds out = [] →
    (postRender env (n + 1) Q parts out).run.run w = (.ok res, w') → LInv env w0 [] w' ∧ holeIds res = [] := by
  intro Q parts out w0 w res w' h0 hl hp ho h
  cases Q with
  | nil =>
    simp only [postRender, run_pure] at h
    obtain ⟨rfl, rfl⟩ := ok_inj h
    exact ⟨hl, ho⟩
  | cons item queue =>
    unfold postRender at h
    cases hc : item.child with
    | none =>
      simp only [hc] at h
      cases hpar : item.parent with
      | none => simp only [hpar, run_throw] at h; cases h
      | some pid =>
        simp only [hpar] at h
        obtain ⟨wg, w1, hget, h⟩ := bind_ok _ _ _ _ _ h
        simp only [run_get] at hget
        obtain ⟨rfl, rfl⟩ := ok_inj hget
        rw [ite_hoist] at h
        obtain ⟨u, w1, ht, h⟩ := bind_ok _ _ _ _ _ h
        obtain ⟨evs, g, rfl, hev⟩ := opt_tick_ok env _ _ _ _ _ ht (by intro i hh; cases hh)
        simp only [run_bind, run_modify, unregisterRef, run_liftW, unregisterRefW] at h
        have hpr : w0.nextId ≤ pid := (hl.range pid (by simp [chIds, opIds, hc, hpar])).1
        have href : w.allRefIds.contains pid = false := by rw [hl.prov.2.2.1]; exact h0.refs pid hpr
        simp only [href, Bool.not_false, ↓reduceIte, run_pure] at h
        have hl2 : LInv env w0 queue ({ w with ctxCache := alDel pid w.ctxCache, events := w.events ++ evs, gcds := g } : World) :=
          LInv.finish h0 hl hc hpar hev rfl
        have hhtml : holeIds (partsGet pid parts ++ item.before) = [] := by
          rw [holeIds_append, hp pid, hl.noh item (List.mem_cons_self ..)]; rfl
        cases hgr : item.grand with
        | none =>
          simp only [hgr] at h
          exact ih.loop queue _ _ w0 _ res w' h0 hl2 (partsOk_del parts pid hp) (by simp [holeIds_append, ho, hhtml]) h
        | some gid =>
          simp only [hgr] at h
          refine ih.loop queue _ _ w0 _ res w' h0 hl2 (partsOk_set _ gid _ (partsOk_del parts pid hp) ?_) ho h
          simp [holeIds_append, partsOk_del parts pid hp gid, hhtml]
    | some cid =>
      simp only [hc] at h
      obtain ⟨parts', w1, hparts, hq⟩ := bind_ok _ _ _ _ _ h
      clear h
      have hp' : PartsOk parts' ∧ w = w1 := by
        cases hb : item.before.isEmpty with
        | true =>
          simp only [hb, ↓reduceIte, run_pure] at hparts
          obtain ⟨rfl, rfl⟩ := ok_inj hparts
          exact ⟨hp, rfl⟩
        | false =>
          simp only [hb, Bool.false_eq_true, ↓reduceIte] at hparts
          cases hpar : item.parent with
          | none => simp only [hpar, run_throw] at hparts; cases hparts
          | some pid =>
            simp only [hpar, run_pure] at hparts
            obtain ⟨rfl, rfl⟩ := ok_inj hparts
            refine ⟨partsOk_set _ pid _ hp ?_, rfl⟩
            rw [holeIds_append, hp pid, hl.noh item (List.mem_cons_self ..)]; rfl
      obtain ⟨hp', hww⟩ := hp'
      subst hww
      clear hparts
      obtain ⟨wg, w1, hget, hq⟩ := bind_ok _ _ _ _ _ hq
      obtain ⟨hwg, hw1⟩ := ok_inj (show ((Except.ok w : Except Err World), w) = _ from hget)
      subst hwg
      subst hw1
      obtain ⟨r, hr, hg⟩ := hl.rcNew cid (by simp [chIds, hc])
      simp only [hr] at hq
      obtain ⟨u, w1, hset, hq⟩ := bind_ok _ _ _ _ _ hq
      simp only [run_set] at hset
      obtain ⟨_, hw1⟩ := ok_inj hset
      subst hw1
      obtain ⟨cg, w2, hrun, hq⟩ := bind_ok _ _ _ _ _ hq
      obtain ⟨content, ga⟩ := cg
      have hw1 : WInv ({ w with rendererCache := alDel cid w.rendererCache, childAttrs := alDel cid w.childAttrs } : World) := by
        have hwg := hl.winv h0
        exact ⟨hwg.prov, fun k hk => alGet_alDel_none k cid _ (hwg.rc k hk), hwg.cc, fun k hk => alGet_alDel_none k cid _ (hwg.ca k hk), hwg.refs, hwg.good⟩
      obtain ⟨hb, hga⟩ := ih.run r cid _ _ content ga w2 hg hw1 hrun
      obtain ⟨u2, w3, hmod, hq⟩ := bind_ok _ _ _ _ _ hq
      simp only [run_modify] at hmod
      obtain ⟨_, hw3⟩ := ok_inj hmod
      subst hw3
      have hl3 := LInv.child (w3 := _) h0 hl hc rfl hb hga rfl
      exact ih.loop _ parts' out w0 _ res w' h0 hl3 hp' ho hq

theorem stmt_all (env : Env) (hlib : GoodLib env) : ∀ n, Stmt env n
  | 0 => stmt_zero env
  | n + 1 =>
    have ih := stmt_all env hlib n
    { nodes := stmt_nodes env n ih
      for_ := stmt_for env n ih
      node := stmt_node env n ih
      tag := stmt_tag env n ih
      impl := stmt_impl env n ih hlib
      run := stmt_run env n ih hlib
      slot := stmt_slot env n ih
      loop := stmt_loop env n ih }


/-! ### what the induction says about a page -/

/-- **Any template of the fragment, any context.**  The placeholders a render returns are exactly the renderers and
`ComponentContext` entries it queued, with fresh distinct ids; everything else in the registries is as before. -/
theorem tree_render_balanced (env : Env) (hlib : GoodLib env) (n : Nat) (nodes : List Node) (ctx : Ctx) (w w' : World)
    (toks : List Tok) (ht : tnodes nodes = true) (hc : ctxFree ctx = true) (hw : WInv w)
    (h : (renderNodes env n nodes ctx).run.run w = (.ok toks, w')) : Bal env w w' (holeIds toks) :=
  (stmt_all env hlib n).nodes nodes ctx w toks w' ht hc hw h

/-- **A component tag that no component encloses** (`parentOf` of the context its template will see is `none`): the
deferred loop has run to its end — no placeholder in the output, the registries hold what they held, whatever tree of
components the library unfolds under this tag. -/
theorem tree_root_tag (env : Env) (hlib : GoodLib env) (n : Nat) (name : Str) (kwargs : List (Str × Expr)) (only dyn : Bool)
    (body : List Node) (ctx : Ctx) (w w' : World) (toks : List Tok)
    (hd : isDynName name = false) (hb : gbody body = true) (hc : ctxFree ctx = true) (hw : WInv w) (hext : isExtracting ctx = false)
    (hpar : parentOf (if only || env.isolated then isolatedCopy ctx else ctx) = none)
    (h : (renderCompTag env n name kwargs only dyn body ctx).run.run w = (.ok toks, w')) :
    Bal env w w' [] ∧ holeIds toks = [] := by
  cases n with
  | zero => simp only [renderCompTag, run_throw] at h; cases h
  | succ n =>
    have ih := stmt_all env hlib n
    unfold renderCompTag at h
    simp only [hext, Bool.false_eq_true, ↓reduceIte] at h
    cases hf : findDef env name with
    | none => simp only [hf, hd, Bool.false_eq_true, ↓reduceIte, run_bind, run_throw] at h; cases h
    | some d =>
      simp only [hf] at h
      obtain ⟨fills, w1, hres, h⟩ := bind_ok _ _ _ _ _ h
      cases n with
      | zero => simp only [resolveFills, run_throw] at hres; cases hres
      | succ m =>
        obtain ⟨hgf, st, rfl⟩ := resolveFills_ok env m body ctx w w1 fills hb hc hres
        have hcore : core ({ w with steps := st } : World) = core w := rfl
        have hc' : ctxFree (if only || env.isolated then isolatedCopy ctx else ctx) = true := by
          split
          · exact ctxFree_isolatedCopy ctx hc
          · exact hc
        obtain ⟨hbal, hno⟩ := ih.impl name (evalKwargs ctx kwargs) fills ctx _ _ toks w' hd hc' hc (evalKwargs_free ctx hc kwargs) hgf
          (WInv.of_core hcore.symm hw) h
        have := hno hpar
        rw [this] at hbal
        exact ⟨Bal.left hcore hbal, this⟩

/-! ### a concrete library for the instances beside the property theorems: page > list > (loop) leaf with a fill for the
leaf's slot, and next to the list a leaf whose tag has an implicit body (a fill for the `default` slot, which `leaf` does
not have: it is ignored and the slot `s1` renders its default content) -/

def exLeaf : CompDef :=
  { name := "leaf".toList,
    template := [.elem "li".toList [.out (.var ["a".toList]), .slot (.lit "s1".toList) false false [] [.text "~".toList]]],
    data := [("a".toList, .kwarg "a".toList)] }
def exList : CompDef :=
  { name := "list".toList,
    template := [.elem "ul".toList [.forn "x".toList (.var ["items".toList])
      [.comp "leaf".toList [("a".toList, .var ["x".toList])] false false
        [.fill (.lit "s1".toList) none none [.text "+".toList, .out (.var ["x".toList])]]]]],
    data := [("items".toList, .kwarg "items".toList)] }
def exPage : CompDef :=
  { name := "page".toList,
    template := [.comp "list".toList [("items".toList, .var ["xs".toList])] false false [], .text "-".toList,
                 .comp "leaf".toList [("a".toList, .lit "z".toList)] false false [.text "!".toList]],
    data := [("xs".toList, .const (.list [.str "p".toList, .str "q".toList]))] }
def exEnv (isolated : Bool) : Env := { isolated := isolated, lib := [exLeaf, exList, exPage] }
def exCtx : Ctx := rootCtx [("v".toList, .str "V".toList)]

theorem exEnv_good (isolated : Bool) : GoodLib (exEnv isolated) := by
  intro d hd
  simp only [exEnv, List.mem_cons, List.not_mem_nil, or_false] at hd
  rcases hd with rfl | rfl | rfl <;> exact ⟨by decide, by decide⟩

theorem empty_world_inv : WInv ({} : World) :=
  ⟨rfl, fun _ _ => rfl, fun _ _ => rfl, fun _ _ => rfl, fun _ _ => rfl, fun _ _ h => by cases h⟩

/-- the run of `{% component "page" %}{% endcomponent %}` on a page, as a checkable summary: five instances, no
placeholder left, every registry empty again, ids 1‥5 in `get_context_data` order -/
def exSummary (isolated : Bool) : Bool :=
  match (renderCompTag (exEnv isolated) 40 "page".toList [] false false [] exCtx).run.run {} with
  | (.ok toks, w') =>
    (holeIds toks).isEmpty && w'.nextId == 6 && w'.ctxCache.isEmpty && w'.rendererCache.isEmpty && w'.childAttrs.isEmpty &&
      gcdIds w'.events == [1, 2, 3, 4, 5] &&
      toks.filterMap (fun t => match t with | .marker c i => some (c, i) | _ => none) ==
        [("page".toList, 1), ("list".toList, 2), ("leaf".toList, 4), ("leaf".toList, 5), ("leaf".toList, 3)]
  | _ => false

end Djc.Proofs.Tree
