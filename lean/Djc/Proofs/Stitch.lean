/-
  The output of the deferred pipeline on trees of components (model of the code): what the `while` loop of
  `component_post_render` hands back is the *in-order expansion* of the root instance's tokens — every placeholder
  replaced, where it stands, by its instance's render marker followed by that instance's own tokens, whose root elements
  carry the attributes handed down by the parent plus the instance's own id — to any nesting depth (`Exp`).
  Continuation of `Djc/Proofs/Tree.lean` (same fragment, same invariants); partial correctness.
-/
import Djc.Proofs.Tree
namespace Djc.Proofs.Stitch
open Djc.Tpl Djc.Render Djc.Proofs.Plain Djc.Proofs.Calm Djc.Proofs.Render Djc.Proofs.Leaf Djc.Proofs.Slotty Djc.Proofs.Tree

/-! ### placeholders come out of `_render_impl` without attributes -/

def bareTok : Tok → Bool
  | .hole _ a => a.isEmpty
  | _ => true

def Bare (toks : List Tok) : Prop := ∀ t ∈ toks, bareTok t = true

theorem bare_nil : Bare [] := by intro t ht; cases ht
theorem bare_append {a b : List Tok} (ha : Bare a) (hb : Bare b) : Bare (a ++ b) := by
  intro t ht
  rcases List.mem_append.mp ht with h | h
  · exact ha t h
  · exact hb t h

theorem bare_of_noholes : ∀ (toks : List Tok), holeIds toks = [] → Bare toks
  | [], _ => bare_nil
  | t :: rest, h => by
    cases t with
    | hole i a => simp [holeIds] at h
    | _ =>
      simp only [holeIds] at h
      intro t' ht'
      rcases List.mem_cons.mp ht' with e | e
      · rw [e]; rfl
      · exact bare_of_noholes rest h t' e

structure BStmt (env : Env) (n : Nat) : Prop where
  nodes : ∀ nodes ctx w toks w', tnodes nodes = true → ctxFree ctx = true → WInv w →
    (renderNodes env n nodes ctx).run.run w = (.ok toks, w') → Bare toks
  for_ : ∀ x items i body ctx w toks w', tnodes body = true → ctxFree ctx = true → (∀ it ∈ items, slotFree it = true) → WInv w →
    (renderFor env n x items i body ctx).run.run w = (.ok toks, w') → Bare toks
  node : ∀ nd ctx w toks w', tnode nd = true → ctxFree ctx = true → WInv w →
    (renderNode env n nd ctx).run.run w = (.ok toks, w') → Bare toks
  tag : ∀ name kwargs only dyn body ctx w toks w', isDynName name = false → gbody body = true → ctxFree ctx = true → WInv w →
    (renderCompTag env n name kwargs only dyn body ctx).run.run w = (.ok toks, w') → Bare toks
  impl : ∀ name kw fills o ctx w toks w', isDynName name = false → ctxFree ctx = true → ctxFree o = true → slotFreeKvs kw = true →
    GoodFills fills → WInv w →
    (renderImpl env n name kw fills (some o) ctx).run.run w = (.ok toks, w') → Bare toks
  slot : ∀ nameE isRequired data body ctx w toks w', tnodes body = true → ctxFree ctx = true → WInv w →
    (renderSlot env n nameE false isRequired data body ctx).run.run w = (.ok toks, w') → Bare toks

theorem bstmt_zero (env : Env) : BStmt env 0 := by
  constructor
  · intro nodes ctx w toks w' _ _ _ h; simp only [renderNodes, run_throw] at h; cases h
  · intro x items i body ctx w toks w' _ _ _ _ h; simp only [renderFor, run_throw] at h; cases h
  · intro nd ctx w toks w' _ _ _ h; simp only [renderNode, run_throw] at h; cases h
  · intro name kwargs only dyn body ctx w toks w' _ _ _ _ h; simp only [renderCompTag, run_throw] at h; cases h
  · intro name kw fills o ctx w toks w' _ _ _ _ _ _ h; simp only [renderImpl, run_throw] at h; cases h
  · intro nameE isRequired data body ctx w toks w' _ _ _ h; simp only [renderSlot, run_throw] at h; cases h

theorem bstmt_slot (env : Env) (n : Nat) (ih : BStmt env n) :
    ∀ nameE isRequired data body ctx w toks w', tnodes body = true → ctxFree ctx = true → WInv w →
    (renderSlot env (n + 1) nameE false isRequired data body ctx).run.run w = (.ok toks, w') → Bare toks := by
  intro nameE isRequired data body ctx w toks w' hb hc hw h
  rcases slot_unfolds env n nameE isRequired data body ctx w hc hw with ⟨e, he⟩ | he | ⟨cid, cc, c3, _, hcc, hc3, hcase⟩
  · rw [he] at h; cases h
  · rw [he] at h
    obtain ⟨rfl, rfl⟩ := ok_inj h
    exact bare_nil
  · rcases hcase with ⟨_, _, he⟩ | ⟨f, hf, _, _, he⟩
    · rw [he] at h
      exact ih.nodes body c3 w toks w' hb hc3 hw h
    · rw [he] at h
      obtain ⟨k', hmem⟩ := sGet_mem _ _ f hf
      have hgf : GoodFill f := (hw.good cid cc hcc).1 (k', f) hmem
      exact ih.nodes f.nodes c3 w toks w' hgf.1 hc3 hw h

theorem bstmt_succ (env : Env) (hlib : GoodLib env) (n : Nat) (ih : BStmt env n) : BStmt env (n + 1) := by
  have st := stmt_all env hlib n
  constructor
  · intro nodes ctx w toks w' ht hc hw h
    cases nodes with
    | nil =>
      simp only [renderNodes, run_pure] at h
      obtain ⟨rfl, rfl⟩ := ok_inj h
      exact bare_nil
    | cons nd rest =>
      simp only [tnodes, Bool.and_eq_true] at ht
      simp only [renderNodes] at h
      obtain ⟨a, w1, h1, h⟩ := bind_ok _ _ _ _ _ h
      obtain ⟨b, w2, h2, h⟩ := bind_ok _ _ _ _ _ h
      simp only [run_pure] at h
      obtain ⟨rfl, rfl⟩ := ok_inj h
      have b1 := st.node nd ctx w a w1 ht.1 hc hw h1
      exact bare_append (ih.node nd ctx w a w1 ht.1 hc hw h1) (ih.nodes rest ctx w1 b w2 ht.2 hc (hw.step b1) h2)
  · intro x items i body ctx w toks w' ht hc hi hw h
    cases items with
    | nil =>
      simp only [renderFor, run_pure] at h
      obtain ⟨rfl, rfl⟩ := ok_inj h
      exact bare_nil
    | cons item items =>
      simp only [renderFor] at h
      obtain ⟨a, w1, h1, h⟩ := bind_ok _ _ _ _ _ h
      obtain ⟨b, w2, h2, h⟩ := bind_ok _ _ _ _ _ h
      simp only [run_pure] at h
      obtain ⟨rfl, rfl⟩ := ok_inj h
      have hit := hi item (List.mem_cons_self ..)
      have hcf := ctxFree_push ctx _ hc (forLayer_free ctx x i item hc hit)
      have b1 := st.nodes body _ w a w1 ht hcf hw h1
      exact bare_append (ih.nodes body _ w a w1 ht hcf hw h1)
        (ih.for_ x items (i + 1) body ctx w1 b w2 ht hc (fun it h => hi it (List.mem_cons_of_mem _ h)) (hw.step b1) h2)
  · intro nd ctx w toks w' ht hc hw h
    unfold renderNode at h
    simp only [run_bind, run_get] at h
    by_cases hst : w.steps ≥ env.maxSteps
    · simp only [hst, if_true, run_throw] at h; cases h
    · simp only [hst, if_false, run_set] at h
      have hcore : core ({ w with steps := w.steps + 1 } : World) = core w := rfl
      have hw1 : WInv ({ w with steps := w.steps + 1 } : World) := WInv.of_core hcore.symm hw
      cases nd with
      | text s =>
        simp only [run_pure] at h
        obtain ⟨rfl, rfl⟩ := ok_inj h
        exact bare_of_noholes _ rfl
      | out e =>
        have hv := evalExpr_free ctx e hc
        have fin : ∀ v, ((Except.ok [Tok.text (pyStr v)] : Except Err (List Tok)), ({ w with steps := w.steps + 1 } : World)) = (Except.ok toks, w') →
            Bare toks := by
          intro v hh
          obtain ⟨rfl, rfl⟩ := ok_inj hh
          exact bare_of_noholes _ rfl
        cases hev : evalExpr ctx e <;> simp only [hev, slotFree, run_bind, run_set, run_pure] at hv h <;> first
          | exact fin _ h
          | cases hv
      | ifn c t e =>
        simp only [tnode, Bool.and_eq_true] at ht
        simp only at h
        split at h
        · exact ih.nodes t ctx _ toks w' ht.1 hc hw1 h
        · exact ih.nodes e ctx _ toks w' ht.2 hc hw1 h
      | forn x e body =>
        simp only [tnode] at ht
        exact ih.for_ x _ 0 body ctx _ toks w' ht hc (iterVals_free _ (evalExpr_free ctx e hc)) hw1 h
      | withn x e body =>
        simp only [tnode] at ht
        refine ih.nodes body _ _ toks w' ht (ctxFree_push ctx _ hc ?_) hw1 h
        simp [slotFreeKvs, evalExpr_free ctx e hc]
      | elem tag body =>
        simp only [tnode] at ht
        obtain ⟨u, ws, hs, h⟩ := bind_ok _ _ _ _ _ h
        simp only [run_set] at hs
        obtain ⟨_, rfl⟩ := ok_inj hs
        obtain ⟨a, w1, h1, h⟩ := bind_ok _ _ _ _ _ h
        simp only [run_pure] at h
        obtain ⟨rfl, rfl⟩ := ok_inj h
        have b1 := ih.nodes body ctx _ a w1 ht hc hw1 h1
        exact bare_append (bare_append (bare_of_noholes [Tok.opn tag []] rfl) b1) (bare_of_noholes [Tok.cls tag] rfl)
      | comp name kwargs only dyn body =>
        simp only [tnode, Bool.and_eq_true, Bool.not_eq_true'] at ht
        obtain ⟨hb, hd⟩ := ht
        exact ih.tag name kwargs only dyn body ctx _ toks w' hd hb hc hw1 h
      | slot nameE isDefault isRequired data body =>
        simp only [tnode, Bool.and_eq_true, Bool.not_eq_true'] at ht
        obtain ⟨hdf, hb⟩ := ht
        subst hdf
        exact ih.slot nameE isRequired data body ctx _ toks w' hb hc hw1 h
      | fill a b c d => simp [tnode] at ht
      | provide a b c => simp [tnode] at ht
      | block a b => simp [tnode] at ht
      | blockSuper => simp [tnode] at ht
      | «extends» a => simp [tnode] at ht
      | includen a => simp [tnode] at ht
  · intro name kwargs only dyn body ctx w toks w' hd hb hc hw h
    unfold renderCompTag at h
    cases hext : isExtracting ctx with
    | true =>
      simp only [hext, ↓reduceIte, run_pure] at h
      obtain ⟨rfl, rfl⟩ := ok_inj h
      exact bare_nil
    | false =>
      simp only [hext, Bool.false_eq_true, ↓reduceIte] at h
      cases hf : findDef env name with
      | none => simp only [hf, hd, Bool.false_eq_true, ↓reduceIte, run_bind, run_throw] at h; cases h
      | some d =>
        simp only [hf] at h
        obtain ⟨fills, w1, hres, h⟩ := bind_ok _ _ _ _ _ h
        cases n with
        | zero => simp only [resolveFills, run_throw] at hres; cases hres
        | succ m =>
          obtain ⟨hgf, st', rfl⟩ := resolveFills_ok env m body ctx w w1 fills hb hc hres
          have hcore : core ({ w with steps := st' } : World) = core w := rfl
          refine ih.impl name (evalKwargs ctx kwargs) fills ctx _ _ toks w' hd ?_ hc (evalKwargs_free ctx hc kwargs) hgf
            (WInv.of_core hcore.symm hw) h
          split
          · exact ctxFree_isolatedCopy ctx hc
          · exact hc
  · intro name kw fills o ctx w toks w' hd hc ho hkw hgf hw h
    have hbal := (stmt_impl env n st hlib) name kw fills o ctx w toks w' hd hc ho hkw hgf hw h
    cases hpar : parentOf ctx with
    | none => exact bare_of_noholes toks (hbal.2 hpar)
    | some p =>
      rw [renderImpl_succ, hpar] at h
      unfold implBody at h
      simp only [run_bind, run_genId, run_get] at h
      cases hpc : alGet p w.ctxCache with
      | none => simp only [hpc, run_throw] at h; cases h
      | some pc =>
        cases hf : findDef env name with
        | none =>
          simp only [hpc, hd, hf, Bool.false_eq_true, ↓reduceIte, Bool.not_false, run_pure, Option.isNone_some,
            Bool.false_and, Option.isSome_some, run_modify, registerRefW, hw.prov, List.isEmpty_nil, run_bind, run_throw] at h
          split at h <;> cases h
        | some d =>
          have hgood := hlib d (findDef_mem env name d hf)
          have hgd := fun w' => getContextData_pure env w.nextId ctx kw d.data [] w' (pure_of_good d hgood.2)
          simp only [hpc, hd, hf, Bool.false_eq_true, ↓reduceIte, Bool.not_false, run_pure, Option.isNone_some,
            Bool.false_and, Option.isSome_some, run_modify, registerRefW, hw.prov, List.isEmpty_nil, run_bind] at h
          split at h
          · rename_i a wt ht
            obtain ⟨g, rfl⟩ := tick_ok _ _ _ _ _ ht
            simp only [hgd, run_bind, run_pure, run_modify] at h
            obtain ⟨rfl, rfl⟩ := ok_inj h
            intro t ht'
            simp only [List.mem_singleton] at ht'
            rw [ht']; rfl
          · cases h
  · exact bstmt_slot env n ih

theorem bstmt_all (env : Env) (hlib : GoodLib env) : ∀ n, BStmt env n
  | 0 => bstmt_zero env
  | n + 1 => bstmt_succ env hlib n (bstmt_all env hlib n)


/-! ### the attribute pass on bare placeholders -/

theorem isEmpty_eq_nil {α} (l : List α) (h : l.isEmpty = true) : l = [] := List.isEmpty_iff.mp h

theorem hole_attrs_recorded (attrs : List Str) : ∀ (toks : List Tok) (d : Nat), Bare toks →
    ∀ i a, Tok.hole i a ∈ addRootAttrsAux attrs d toks → (i, a) ∈ rootHolesAux attrs d toks
  | [], _, _ => by intro i a h; simp [addRootAttrsAux] at h
  | t :: rest, d, hb => by
    have hrest : Bare rest := fun t' ht' => hb t' (List.mem_cons_of_mem _ ht')
    have ht := hb t (List.mem_cons_self ..)
    intro i a h
    cases t with
    | hole j a0 =>
      have ha0 : a0 = [] := isEmpty_eq_nil a0 ht
      subst ha0
      simp only [addRootAttrsAux, List.nil_append, List.mem_cons] at h
      simp only [rootHolesAux, List.mem_cons]
      rcases h with h | h
      · left
        injection h with e1 e2
        rw [e1, e2]
      · right; exact hole_attrs_recorded attrs rest d hrest i a h
    | opn tg x =>
      simp only [addRootAttrsAux, List.mem_cons] at h
      simp only [rootHolesAux]
      rcases h with h | h
      · cases h
      · exact hole_attrs_recorded attrs rest _ hrest i a h
    | cls tg =>
      simp only [addRootAttrsAux, List.mem_cons] at h
      simp only [rootHolesAux]
      rcases h with h | h
      · cases h
      · exact hole_attrs_recorded attrs rest _ hrest i a h
    | text x =>
      simp only [addRootAttrsAux, List.mem_cons] at h
      simp only [rootHolesAux]
      rcases h with h | h
      · cases h
      · exact hole_attrs_recorded attrs rest _ hrest i a h
    | marker x y =>
      simp only [addRootAttrsAux, List.mem_cons] at h
      simp only [rootHolesAux]
      rcases h with h | h
      · cases h
      · exact hole_attrs_recorded attrs rest _ hrest i a h

theorem alGet_foldSet_mem {β} (i : Nat) (a : β) : ∀ (ga : List (Nat × β)) (l : List (Nat × β)), (ga.map (·.1)).Nodup → (i, a) ∈ ga →
    alGet i (ga.foldl (fun acc kv => alSet kv.1 kv.2 acc) l) = some a
  | [], _, _, h => by cases h
  | (k, v) :: rest, l, hn, h => by
    simp only [List.map_cons, List.nodup_cons] at hn
    simp only [List.foldl_cons]
    rcases List.mem_cons.mp h with e | e
    · injection e with e1 e2
      subst e1; subst e2
      rw [alGet_foldSet i rest _ hn.1, alGet_alSet_same]
    · exact alGet_foldSet_mem i a rest _ hn.2 e

/-! ### the in-order expansion of a token list -/

/-- `Exp env toks out`: `out` is `toks` with every placeholder `<template djc-render-id=c attrs>` replaced, where it
stands, by the expansion of instance `c`'s content: its render marker, then the tokens its template printed (`html`, the
output of rendering the registered template in the renderer's context) after the attribute pass with the attributes on
the placeholder — those the parent handed down — plus `c`'s own id. -/
inductive Exp (env : Env) : List Tok → List Tok → Prop
  | nil : Exp env [] []
  | tok (t : Tok) {rest e : List Tok} : noHole t = true → Exp env rest e → Exp env (t :: rest) (t :: e)
  | hole (c : Nat) (a : List Str) (r : Renderer) (d : CompDef) (html : List Tok) {ec rest e : List Tok} :
      r.id = c → findDef env r.name = some d →
      (∃ n w w1, (renderNodes env n d.template r.ctx).run.run w = (.ok html, w1)) →
      Exp env (.marker r.name c :: addRootAttrs (a ++ [idAttr c]) html) ec → Exp env rest e →
      Exp env (.hole c a :: rest) (ec ++ e)

/-! ### one renderer, one queue step -/

theorem run_shape (env : Env) (n : Nat) (r : Renderer) (k : Nat) (attrs : List Str) (w w' : World) (content : List Tok)
    (ga : List (Nat × List Str)) (hg : GoodR env r k)
    (h : (runRenderer env (n + 1) r attrs).run.run w = (.ok (content, ga), w')) :
    ∃ d html wa, findDef env r.name = some d ∧ (renderNodes env n d.template r.ctx).run.run wa = (.ok html, w') ∧
      core wa = core { w with events := w.events ++ [Ev.before r.id] } ∧
      content = .marker r.name r.id :: addRootAttrs (attrs ++ [idAttr r.id]) html ∧
      ga = rootHoles (attrs ++ [idAttr r.id]) html := by
  unfold runRenderer at h
  obtain ⟨d, hf⟩ := hg.reg
  simp only [hg.dyn, Option.isNone_none, ↓reduceIte, hf] at h
  obtain ⟨u, w1, ht, h⟩ := bind_ok _ _ _ _ _ h
  obtain ⟨g, rfl⟩ := tick_ok _ _ _ _ _ ht
  obtain ⟨html, w2, hr, h⟩ := bind_ok _ _ _ _ _ h
  simp only [run_pure] at h
  obtain ⟨hcg, rfl⟩ := ok_inj h
  obtain ⟨rfl, rfl⟩ := Prod.mk.inj hcg
  exact ⟨d, html, _, hf, hr, rfl, rfl, rfl⟩


def setCA (w : World) (ca : List (Nat × List Str)) : World := { w with childAttrs := ca }

/-- one iteration of the `while` loop on an item whose child is still to be rendered -/
theorem child_step (env : Env) (hlib : GoodLib env) (n : Nat) (item : QItem) (queue : List QItem)
    (parts : List (Nat × List Tok)) (out : List Tok) (w0 w w' : World) (res : List Tok) (cid : Nat)
    (h0 : WInv w0) (hl : LInv env w0 (item :: queue) w) (hc : item.child = some cid)
    (h : (postRender env (n + 1) (item :: queue) parts out).run.run w = (.ok res, w')) :
    ∃ r d html w2 parts1,
      alGet cid w.rendererCache = some r ∧ r.id = cid ∧ findDef env r.name = some d ∧
      (∃ m wa, (renderNodes env m d.template r.ctx).run.run wa = (.ok html, w2)) ∧ Bare html ∧
      Bal env ({ w with rendererCache := alDel cid w.rendererCache, childAttrs := alDel cid w.childAttrs }) w2 (holeIds html) ∧
      ((item.before = [] ∧ parts1 = parts) ∨
        (∃ pid, item.parent = some pid ∧ parts1 = alSet pid (partsGet pid parts ++ item.before) parts)) ∧
      (postRender env n (splitHoles cid item.parent []
          (.marker r.name cid :: addRootAttrs ((alGet cid w.childAttrs).getD [] ++ [idAttr cid]) html) ++ queue) parts1 out).run.run
        (setCA w2 (List.foldl (fun acc kv => alSet kv.1 kv.2 acc) w2.childAttrs
          (rootHoles ((alGet cid w.childAttrs).getD [] ++ [idAttr cid]) html))) = (.ok res, w') := by
  unfold postRender at h
  simp only [hc] at h
  obtain ⟨parts', w1, hparts, hq⟩ := bind_ok _ _ _ _ _ h
  clear h
  have hp' : ((item.before = [] ∧ parts' = parts) ∨
      (∃ pid, item.parent = some pid ∧ parts' = alSet pid (partsGet pid parts ++ item.before) parts)) ∧ w = w1 := by
    cases hb : item.before.isEmpty with
    | true =>
      simp only [hb, ↓reduceIte, run_pure] at hparts
      obtain ⟨rfl, rfl⟩ := ok_inj hparts
      exact ⟨Or.inl ⟨isEmpty_eq_nil _ hb, rfl⟩, rfl⟩
    | false =>
      simp only [hb, Bool.false_eq_true, ↓reduceIte] at hparts
      cases hpar : item.parent with
      | none => simp only [hpar, run_throw] at hparts; cases hparts
      | some pid =>
        simp only [hpar, run_pure] at hparts
        obtain ⟨rfl, rfl⟩ := ok_inj hparts
        exact ⟨Or.inr ⟨pid, rfl, rfl⟩, rfl⟩
  obtain ⟨hp', hww⟩ := hp'
  subst hww
  clear hparts
  obtain ⟨wg, w1, hget, hq⟩ := bind_ok _ _ _ _ _ hq
  obtain ⟨hwg, hw1⟩ := ok_inj (show ((Except.ok w : Except Err World), w) = _ from hget)
  subst hwg
  subst hw1
  obtain ⟨r, hr, hg⟩ := hl.rcNew cid (by simp [chIds, hc])
  simp only [hr] at hq
  obtain ⟨u, w1, hset, hq⟩ := bind_ok _ _ _ _ _ hq
  simp only [run_set] at hset
  obtain ⟨_, hw1⟩ := ok_inj hset
  subst hw1
  obtain ⟨cg, w2, hrun, hq⟩ := bind_ok _ _ _ _ _ hq
  obtain ⟨content, ga⟩ := cg
  have hw1 : WInv ({ w with rendererCache := alDel cid w.rendererCache, childAttrs := alDel cid w.childAttrs } : World) := by
    have hwg := hl.winv h0
    exact ⟨hwg.prov, fun k hk => alGet_alDel_none k cid _ (hwg.rc k hk), hwg.cc, fun k hk => alGet_alDel_none k cid _ (hwg.ca k hk), hwg.refs, hwg.good⟩
  cases n with
  | zero => simp only [runRenderer, run_throw] at hrun; cases hrun
  | succ m =>
    obtain ⟨d, html, wa, hf, hren, hcore, hcontent, hga⟩ := run_shape env m r cid _ _ _ content ga hg hrun
    have hb0 : Bal env ({ w with rendererCache := alDel cid w.rendererCache, childAttrs := alDel cid w.childAttrs } : World) wa [] :=
      Bal.right hcore.symm (Bal.ticked env _ [Ev.before r.id] _ rfl)
    have hgoodd := hlib d (findDef_mem env r.name d hf)
    have hb1 := (stmt_all env hlib m).nodes d.template r.ctx wa html w2 hgoodd.1 hg.free (hw1.step hb0) hren
    have hbare := (bstmt_all env hlib m).nodes d.template r.ctx wa html w2 hgoodd.1 hg.free (hw1.step hb0) hren
    obtain ⟨u2, w3, hmod, hq⟩ := bind_ok _ _ _ _ _ hq
    simp only [run_modify] at hmod
    obtain ⟨_, hw3⟩ := ok_inj hmod
    subst hw3
    subst hcontent
    subst hga
    rw [hg.id] at hq
    exact ⟨r, d, html, w2, parts', hr, hg.id, hf, ⟨m, wa, hren⟩, hbare, by simpa using hb0.trans hb1, hp', hq⟩


/-- one iteration of the `while` loop on the last item of an instance (`on_component_rendered`) -/
theorem finish_step (env : Env) (n : Nat) (item : QItem) (queue : List QItem)
    (parts : List (Nat × List Tok)) (out : List Tok) (w0 w w' : World) (res : List Tok) (me : Nat)
    (h0 : WInv w0) (hl : LInv env w0 (item :: queue) w) (hc : item.child = none) (hp : item.parent = some me)
    (h : (postRender env (n + 1) (item :: queue) parts out).run.run w = (.ok res, w')) :
    ∃ w1 parts' out', LInv env w0 queue w1 ∧ w1.childAttrs = w.childAttrs ∧ w1.nextId = w.nextId ∧
      ((item.grand = none ∧ parts' = alDel me parts ∧ out' = out ++ (partsGet me parts ++ item.before)) ∨
       (∃ g, item.grand = some g ∧
          parts' = alSet g (partsGet g (alDel me parts) ++ (partsGet me parts ++ item.before)) (alDel me parts) ∧ out' = out)) ∧
      (postRender env n queue parts' out').run.run w1 = (.ok res, w') := by
  unfold postRender at h
  simp only [hc, hp] at h
  obtain ⟨wg, w1, hget, h⟩ := bind_ok _ _ _ _ _ h
  simp only [run_get] at hget
  obtain ⟨rfl, rfl⟩ := ok_inj hget
  rw [ite_hoist] at h
  obtain ⟨u, w1, ht, h⟩ := bind_ok _ _ _ _ _ h
  obtain ⟨evs, g, rfl, hev⟩ := opt_tick_ok env _ _ _ _ _ ht (by intro i hh; cases hh)
  simp only [run_bind, run_modify, unregisterRef, run_liftW, unregisterRefW] at h
  have hpr : w0.nextId ≤ me := (hl.range me (by simp [chIds, opIds, hc, hp])).1
  have href : w.allRefIds.contains me = false := by rw [hl.prov.2.2.1]; exact h0.refs me hpr
  simp only [href, Bool.not_false, ↓reduceIte, run_pure] at h
  have hl2 : LInv env w0 queue ({ w with ctxCache := alDel me w.ctxCache, events := w.events ++ evs, gcds := g } : World) :=
    LInv.finish h0 hl hc hp hev rfl
  cases hgr : item.grand with
  | none =>
    simp only [hgr] at h
    exact ⟨_, _, _, hl2, rfl, rfl, Or.inl ⟨rfl, rfl, rfl⟩, h⟩
  | some gid =>
    simp only [hgr] at h
    exact ⟨_, _, _, hl2, rfl, rfl, Or.inr ⟨gid, rfl, rfl, rfl⟩, h⟩

theorem mem_holeIds : ∀ (toks : List Tok) (i : Nat) (a : List Str), Tok.hole i a ∈ toks → i ∈ holeIds toks
  | [], _, _, h => by cases h
  | t :: rest, i, a, h => by
    rcases List.mem_cons.mp h with e | e
    · rw [← e]; simp [holeIds]
    · have := mem_holeIds rest i a e
      cases t <;> simp [holeIds, this]

theorem holeIds_content (name : Str) (c : Nat) (attrs : List Str) (html : List Tok) :
    holeIds (Tok.marker name c :: addRootAttrs attrs html) = holeIds html := by
  simp only [holeIds, addRootAttrs, holeIds_addRootAttrsAux]

def PartsSpec (parts parts' : List (Nat × List Tok)) (me : Nat) (parent : Option Nat) (html : List Tok) : Prop :=
  ∀ p, partsGet p parts' =
    if p = me then [] else if parent = some p then partsGet p parts ++ html else partsGet p parts

theorem partsGet_set (parts : List (Nat × List Tok)) (g p : Nat) (v : List Tok) :
    partsGet p (alSet g v parts) = if p = g then v else partsGet p parts := by
  unfold partsGet
  by_cases e : p = g
  · rw [e, alGet_alSet_same]; simp
  · rw [alGet_alSet_ne _ _ _ _ (fun e' => e e'.symm)]; simp [e]

theorem partsGet_del (parts : List (Nat × List Tok)) (g p : Nat) :
    partsGet p (alDel g parts) = if p = g then [] else partsGet p parts := by
  unfold partsGet
  by_cases e : p = g
  · rw [e, alGet_alDel_same]; simp
  · rw [alGet_alDel_ne _ _ _ (fun e' => e e'.symm)]; simp [e]


/-! ### a segment of the queue: the rest of one instance's content -/

theorem seg (env : Env) (hlib : GoodLib env) : ∀ (n : Nat) (toks : List Tok) (me : Nat) (parent : Option Nat) (acc : List Tok)
    (queue : List QItem) (parts : List (Nat × List Tok)) (out : List Tok) (w0 w w' : World) (res : List Tok),
    WInv w0 → LInv env w0 (splitHoles me parent acc toks ++ queue) w →
    (∀ i a, Tok.hole i a ∈ toks → (alGet i w.childAttrs).getD [] = a) →
    (∀ k ∈ holeIds toks ++ chIds queue, partsGet k parts = []) → (∀ k, w.nextId ≤ k → partsGet k parts = []) →
    (∀ g, parent = some g → g ≠ me ∧ g ∉ holeIds toks ++ chIds queue) →
    (postRender env n (splitHoles me parent acc toks ++ queue) parts out).run.run w = (.ok res, w') →
    ∃ n' w1 exp parts', n' ≤ n ∧ Exp env toks exp ∧ LInv env w0 queue w1 ∧ w.nextId ≤ w1.nextId ∧
      (∀ k ∈ chIds queue, alGet k w1.childAttrs = alGet k w.childAttrs) ∧
      PartsSpec parts parts' me parent (partsGet me parts ++ acc ++ exp) ∧
      (postRender env n' queue parts' (if parent.isNone then out ++ (partsGet me parts ++ acc ++ exp) else out)).run.run w1 = (.ok res, w') := by
  intro n
  induction n using Nat.strongRecOn with
  | _ n IH =>
  intro toks
  induction toks with
  | nil =>
    intro me parent acc queue parts out w0 w w' res h0 hl _ _ _ hg h
    simp only [splitHoles, List.cons_append, List.nil_append] at hl h
    cases n with
    | zero => simp only [postRender, run_throw] at h; cases h
    | succ m =>
      obtain ⟨w1, parts', out', hl1, hca, hnx, hcase, hrun⟩ := finish_step env m _ queue parts out w0 w w' res me h0 hl rfl rfl h
      refine ⟨m, w1, [], parts', Nat.le_succ m, Exp.nil, hl1, by rw [hnx]; exact Nat.le_refl _, fun k _ => by rw [hca], ?_, ?_⟩
      · intro p
        simp only [List.append_nil]
        rcases hcase with ⟨hgn, hp', _⟩ | ⟨g, hgs, hp', _⟩
        · simp only at hgn
          subst hgn
          rw [hp', partsGet_del]
          by_cases e : p = me <;> simp [e]
        · simp only at hgs
          subst hgs
          have hgme := (hg g rfl).1
          rw [hp', partsGet_set, partsGet_del, partsGet_del]
          by_cases e : p = me
          · subst e
            have h1 : ¬ (p = g) := fun e' => hgme e'.symm
            simp [h1]
          · by_cases e2 : p = g
            · subst e2; simp [e]
            · have h3 : ¬ (g = p) := fun e' => e2 e'.symm
              simp [e, e2, h3]
      · rcases hcase with ⟨hgn, _, ho'⟩ | ⟨g, hgs, _, ho'⟩
        · simp only at hgn
          subst hgn
          simpa [ho'] using hrun
        · simp only at hgs
          subst hgs
          simpa [ho'] using hrun
  | cons t rest ihT =>
    intro me parent acc queue parts out w0 w w' res h0 hl hha hpk hpf hg h
    have nonhole : noHole t = true → ∃ n' w1 exp parts', n' ≤ n ∧ Exp env (t :: rest) exp ∧ LInv env w0 queue w1 ∧ w.nextId ≤ w1.nextId ∧
        (∀ k ∈ chIds queue, alGet k w1.childAttrs = alGet k w.childAttrs) ∧
        PartsSpec parts parts' me parent (partsGet me parts ++ acc ++ exp) ∧
        (postRender env n' queue parts' (if parent.isNone then out ++ (partsGet me parts ++ acc ++ exp) else out)).run.run w1 = (.ok res, w') := by
      intro hnh
      have hsp : splitHoles me parent acc (t :: rest) = splitHoles me parent (acc ++ [t]) rest := by
        cases t <;> first | rfl | (simp [noHole] at hnh)
      have hid : holeIds (t :: rest) = holeIds rest := by
        cases t <;> first | rfl | (simp [noHole] at hnh)
      rw [hsp] at hl h
      rw [hid] at hpk hg
      obtain ⟨n', w1, exp, parts', hn', hexp, hl1, hnx, hca, hps, hrun⟩ :=
        ihT me parent (acc ++ [t]) queue parts out w0 w w' res h0 hl
          (fun i a hm => hha i a (List.mem_cons_of_mem _ hm)) hpk hpf hg h
      refine ⟨n', w1, t :: exp, parts', hn', Exp.tok t hnh hexp, hl1, hnx, hca, ?_, ?_⟩
      · simpa [List.append_assoc] using hps
      · simpa [List.append_assoc] using hrun
    cases t with
    | text x => exact nonhole rfl
    | opn x y => exact nonhole rfl
    | cls x => exact nonhole rfl
    | marker x y => exact nonhole rfl
    | hole c a =>
      have hsp : splitHoles me parent acc (Tok.hole c a :: rest) =
          ({ before := acc, child := some c, parent := some me, grand := parent } : QItem) :: splitHoles me parent [] rest := rfl
      rw [hsp, List.cons_append] at hl h
      cases n with
      | zero => simp only [postRender, run_throw] at h; cases h
      | succ m =>
      obtain ⟨r, d, html, w2, parts1, hr, hrid, hf, hren, hbare, hbal, hp1, hq⟩ :=
        child_step env hlib m _ (splitHoles me parent [] rest ++ queue) parts out w0 w w' res c h0 hl rfl h
      have hattr : (alGet c w.childAttrs).getD [] = a := hha c a (List.mem_cons_self ..)
      rw [hattr] at hq
      -- ids
      have hchQ : chIds (splitHoles me parent [] rest ++ queue) = holeIds rest ++ chIds queue := by rw [chIds_append, chIds_split]
      have hopQ : opIds (splitHoles me parent [] rest ++ queue) = me :: opIds queue := by rw [opIds_append, opIds_split]; rfl
      have hnd := hl.nodup
      simp only [chIds, opIds, List.filterMap_cons, Option.isNone_some, Bool.false_eq_true, ↓reduceIte] at hnd
      change (c :: chIds (splitHoles me parent [] rest ++ queue) ++ opIds (splitHoles me parent [] rest ++ queue)).Nodup at hnd
      rw [hchQ, hopQ] at hnd
      have hrange : ∀ k ∈ c :: (holeIds rest ++ chIds queue) ++ me :: opIds queue, w0.nextId ≤ k ∧ k < w.nextId := by
        intro k hk
        refine hl.range k ?_
        simp only [chIds, opIds, List.filterMap_cons, Option.isNone_some, Bool.false_eq_true, ↓reduceIte]
        change k ∈ c :: chIds (splitHoles me parent [] rest ++ queue) ++ opIds (splitHoles me parent [] rest ++ queue)
        rw [hchQ, hopQ]; exact hk
      have hme_lt : me < w.nextId := (hrange me (by simp)).2
      have hc_lt : c < w.nextId := (hrange c (by simp)).2
      have hcme : c ≠ me := by
        intro e
        have := (List.nodup_cons.mp hnd).1
        exact this (by rw [e]; simp)
      have hme_notch : me ∉ holeIds rest ++ chIds queue := by
        intro hm
        have h2 := (List.nodup_cons.mp hnd).2
        have := (List.nodup_append.mp h2).2.2 me hm me (by simp)
        exact this rfl
      have hc_notch : c ∉ holeIds rest ++ chIds queue := fun hm => (List.nodup_cons.mp hnd).1 (List.mem_append_left _ hm)
      have hfresh : ∀ k ∈ holeIds html, w.nextId ≤ k := fun k hk => (hbal.range k hk).1
      -- parts after the `before` text went to the parent's part
      have hparts1 : ∀ p, partsGet p parts1 = if p = me then partsGet me parts ++ acc else partsGet p parts := by
        intro p
        rcases hp1 with ⟨hb, rfl⟩ | ⟨pid, hpid, rfl⟩
        · simp only at hb
          by_cases e : p = me
          · rw [e, hb]; simp
          · simp [e]
        · simp only [Option.some.injEq] at hpid
          subst hpid
          rw [partsGet_set]
      -- the world in which the child's content is processed
      have hl3 := LInv.child (w3 := setCA w2 (List.foldl (fun acc kv => alSet kv.1 kv.2 acc) w2.childAttrs
          (rootHoles (a ++ [idAttr c]) html))) (content := Tok.marker r.name c :: addRootAttrs (a ++ [idAttr c]) html)
          h0 hl rfl rfl (by rw [holeIds_content]; exact hbal)
          (by rw [holeIds_content]; simp only [rootHoles, keys_rootHolesAux]) rfl
      have hkeys : (rootHoles (a ++ [idAttr c]) html).map (·.1) = holeIds html := by simp only [rootHoles, keys_rootHolesAux]
      -- nested segment: the child's content
      obtain ⟨n1, w4, expc, parts2, hn1, hexpc, hl4, hnx4, hca4, hps2, hrun2⟩ :=
        IH m (Nat.lt_succ_self m) (Tok.marker r.name c :: addRootAttrs (a ++ [idAttr c]) html) c (some me) []
          (splitHoles me parent [] rest ++ queue) parts1 out w0 _ w' res h0 hl3
          (by
            intro i x hm
            rcases List.mem_cons.mp hm with e | e
            · cases e
            · have hrec := hole_attrs_recorded (a ++ [idAttr c]) html 0 hbare i x e
              have := alGet_foldSet_mem i x (rootHoles (a ++ [idAttr c]) html) w2.childAttrs (by rw [hkeys]; exact hbal.nodup) hrec
              simp only [setCA]
              rw [this]; rfl)
          (by
            intro k hk
            rw [holeIds_content, hchQ] at hk
            rw [hparts1]
            rcases List.mem_append.mp hk with hk | hk
            · have := hfresh k hk
              have hkme : k ≠ me := by omega
              simp only [hkme, ↓reduceIte]
              exact hpf k this
            · have hkme : k ≠ me := fun e => hme_notch (e ▸ hk)
              simp only [hkme, ↓reduceIte]
              exact hpk k (by simp only [holeIds]; exact List.mem_cons_of_mem _ hk))
          (by
            intro k hk
            simp only [setCA] at hk
            have h1 : w.nextId ≤ w2.nextId := hbal.next
            have hkme : k ≠ me := by omega
            rw [hparts1]
            simp only [hkme, ↓reduceIte]
            exact hpf k (by omega))
          (by
            intro g hgs
            simp only [Option.some.injEq] at hgs
            subst hgs
            refine ⟨fun e => hcme e.symm, ?_⟩
            rw [holeIds_content, hchQ]
            intro hm
            rcases List.mem_append.mp hm with hm | hm
            · have := hfresh me hm; omega
            · exact hme_notch hm)
          hq
      simp only [Option.isNone_some, Bool.false_eq_true, ↓reduceIte, List.append_nil] at hrun2 hps2
      -- the rest of this instance's content
      have hca3 : ∀ k, k ≠ c → k ∉ holeIds html → alGet k (setCA w2 (List.foldl (fun acc kv => alSet kv.1 kv.2 acc) w2.childAttrs
          (rootHoles (a ++ [idAttr c]) html))).childAttrs = alGet k w.childAttrs := by
        intro k hkc hkn
        simp only [setCA]
        rw [alGet_foldSet k _ _ (by rw [hkeys]; exact hkn), hbal.ca k]
        exact alGet_alDel_ne _ _ _ (fun e => hkc e.symm)
      have hold_notfresh : ∀ k ∈ holeIds rest ++ chIds queue, k ≠ c ∧ k ∉ holeIds html := by
        intro k hk
        refine ⟨fun e => hc_notch (e ▸ hk), fun hm => ?_⟩
        have := hfresh k hm
        have := (hrange k (List.mem_append_left _ (List.mem_cons_of_mem _ hk))).2
        omega
      have hparts2 : ∀ p, p ≠ c → p ≠ me → partsGet p parts2 = partsGet p parts := by
        intro p h1 h2
        have := hps2 p
        simp only [h1, ↓reduceIte, Option.some.injEq] at this
        rw [this, if_neg (fun e => h2 e.symm), hparts1, if_neg h2]
      have hw34 : w.nextId ≤ w4.nextId := by
        have h1 : w.nextId ≤ w2.nextId := hbal.next
        simp only [setCA] at hnx4
        omega
      obtain ⟨n2, w5, expr, parts3, hn2, hexpr, hl5, hnx5, hca5, hps3, hrun3⟩ :=
        IH n1 (by omega) rest me parent [] queue parts2 out w0 w4 w' res h0 hl4
          (by
            intro i x hm
            have hi := mem_holeIds rest i x hm
            have hi' : i ∈ holeIds rest ++ chIds queue := List.mem_append_left _ hi
            rw [hca4 i (by rw [hchQ]; exact hi'), hca3 i (hold_notfresh i hi').1 (hold_notfresh i hi').2]
            exact hha i x (List.mem_cons_of_mem _ hm))
          (by
            intro k hk
            have hkme : k ≠ me := fun e => hme_notch (e ▸ hk)
            rw [hparts2 k (hold_notfresh k hk).1 hkme]
            exact hpk k (by simp only [holeIds]; exact List.mem_cons_of_mem _ hk))
          (by
            intro k hk
            rw [hparts2 k (by omega) (by omega)]
            exact hpf k (by omega))
          (by
            intro g hgs
            obtain ⟨h1, h2⟩ := hg g hgs
            refine ⟨h1, fun hm => h2 ?_⟩
            simp only [holeIds]
            exact List.mem_cons_of_mem _ hm)
          hrun2
      have hme2 : partsGet me parts2 = partsGet me parts ++ acc ++ expc := by
        have := hps2 me
        have hmc : ¬ (me = c) := fun e => hcme e.symm
        simp only [hmc, ↓reduceIte] at this
        rw [this, hparts1, hparts1, if_pos rfl, if_neg hcme, hpk c (by simp [holeIds])]
        simp
      refine ⟨n2, w5, expc ++ expr, parts3, by omega, Exp.hole c a r d html hrid hf ?_ hexpc hexpr, hl5, by omega, ?_, ?_, ?_⟩
      · obtain ⟨m', wa, hh⟩ := hren
        exact ⟨m', wa, w2, hh⟩
      · intro k hk
        have hk' : k ∈ holeIds rest ++ chIds queue := List.mem_append_right _ hk
        rw [hca5 k hk, hca4 k (by rw [hchQ]; exact hk'), hca3 k (hold_notfresh k hk').1 (hold_notfresh k hk').2]
      · intro p
        have h3 := hps3 p
        rw [hme2] at h3
        simp only [List.append_nil] at h3
        rw [h3]
        by_cases e : p = me
        · simp [e]
        · simp only [e, ↓reduceIte]
          by_cases e2 : parent = some p
          · have hpc : p ≠ c := fun e' => (hg p e2).2 (by rw [e']; simp [holeIds])
            simp only [e2, ↓reduceIte]
            rw [hparts2 p hpc e]
            simp [List.append_assoc]
          · simp only [e2, ↓reduceIte]
            by_cases e3 : p = c
            · have := hps2 c
              simp only [↓reduceIte] at this
              rw [e3, this, hpk c (by simp [holeIds])]
            · exact hparts2 p e3 e
      · rw [hme2] at hrun3
        simpa [List.append_assoc] using hrun3


/-! ### the root of a page -/

theorem pack_root {env : Env} {n : Nat} {name : Str} {w w' : World} {toks : List Tok} (w1 : World)
    (h : (postRender env n [{ before := [], child := some w.nextId, parent := none, grand := none }] [] []).run.run w1 = (.ok toks, w'))
    (cc : CompCtx) (r : Renderer) (hg : GoodR env r w.nextId) (hcc : GoodC cc) (hn : r.name = name)
    (e1 : w1.nextId = w.nextId + 1) (e2 : w1.ctxCache = alSet w.nextId cc w.ctxCache)
    (e3 : w1.rendererCache = alSet w.nextId r w.rendererCache) (e4 : w1.childAttrs = w.childAttrs)
    (e5 : w1.provideCache = w.provideCache) (e6 : w1.provideRefs = w.provideRefs) (e7 : w1.allRefIds = w.allRefIds)
    (e8 : w1.cap = w.cap) (e9 : w1.events = w.events ++ [.gcd w.nextId]) :
    ∃ w1 cc r, GoodR env r w.nextId ∧ GoodC cc ∧ r.name = name ∧
      w1.nextId = w.nextId + 1 ∧ w1.ctxCache = alSet w.nextId cc w.ctxCache ∧
      w1.rendererCache = alSet w.nextId r w.rendererCache ∧ w1.childAttrs = w.childAttrs ∧
      w1.provideCache = w.provideCache ∧ w1.provideRefs = w.provideRefs ∧ w1.allRefIds = w.allRefIds ∧
      w1.cap = w.cap ∧ w1.events = w.events ++ [.gcd w.nextId] ∧
      (postRender env n [{ before := [], child := some w.nextId, parent := none, grand := none }] [] []).run.run w1 = (.ok toks, w') :=
  ⟨w1, cc, r, hg, hcc, hn, e1, e2, e3, e4, e5, e6, e7, e8, e9, h⟩

/-- `_render_impl` where no component encloses the tag, up to the call of `component_post_render` -/
theorem impl_root_run (env : Env) (hlib : GoodLib env) (n : Nat) (name : Str) (kw : List (Str × Val)) (fills : List (Str × FillFn))
    (o : Ctx) (ctx : Ctx) (w w' : World) (toks : List Tok) (hd : isDynName name = false) (hc : ctxFree ctx = true)
    (ho : ctxFree o = true) (hkw : slotFreeKvs kw = true) (hgf : GoodFills fills) (hw : WInv w) (hpar : parentOf ctx = none)
    (h : (renderImpl env (n + 1) name kw fills (some o) ctx).run.run w = (.ok toks, w')) :
    ∃ w1 cc r, GoodR env r w.nextId ∧ GoodC cc ∧ r.name = name ∧
      w1.nextId = w.nextId + 1 ∧ w1.ctxCache = alSet w.nextId cc w.ctxCache ∧
      w1.rendererCache = alSet w.nextId r w.rendererCache ∧ w1.childAttrs = w.childAttrs ∧
      w1.provideCache = w.provideCache ∧ w1.provideRefs = w.provideRefs ∧ w1.allRefIds = w.allRefIds ∧
      w1.cap = w.cap ∧ w1.events = w.events ++ [.gcd w.nextId] ∧
      (postRender env n [{ before := [], child := some w.nextId, parent := none, grand := none }] [] []).run.run w1 = (.ok toks, w') := by
  rw [renderImpl_succ, hpar] at h
  unfold implBody at h
  cases hf : findDef env name with
  | none =>
    simp only [run_bind, run_genId, hd, hf, Bool.false_eq_true, ↓reduceIte, Bool.not_false, run_pure, Option.isNone_none,
      Bool.true_and, Option.isSome_none, run_modify, registerRefW, hw.prov, List.isEmpty_nil, run_throw] at h
    cases hrc : hasRootRc ctx <;> simp only [hrc, Bool.false_eq_true, ↓reduceIte, run_pure, run_modify, run_bind, run_throw] at h <;>
      (split at h <;> cases h)
  | some d =>
    have hgood := hlib d (findDef_mem env name d hf)
    have hgd := fun w' => getContextData_pure env w.nextId ctx kw d.data [] w' (pure_of_good d hgood.2)
    cases hrc : hasRootRc ctx with
    | true =>
      simp only [run_bind, run_genId, hd, hf, hrc, Bool.false_eq_true, ↓reduceIte, Bool.not_false, run_pure, Option.isNone_none,
        Bool.true_and, Bool.and_self, Option.isSome_none, run_modify, registerRefW, hw.prov, List.isEmpty_nil] at h
      split at h
      · rename_i a wt ht
        obtain ⟨g, rfl⟩ := tick_ok _ _ _ _ _ ht
        simp only [hgd, run_bind, run_pure, run_modify] at h
        exact pack_root _ h _ _ (good_renderer env name kw ctx w.nextId d _ fills hc hkw hf hgood.2) (good_cc name w.nextId _ fills o hgf ho) rfl
          rfl rfl rfl rfl hw.prov.symm rfl rfl rfl rfl
      · cases h
    | false =>
      simp only [run_bind, run_genId, hd, hf, hrc, Bool.false_eq_true, ↓reduceIte, Bool.not_false, run_pure, Option.isNone_none,
        Bool.true_and, Bool.and_self, Bool.and_false, Option.isSome_none, run_modify, registerRefW, hw.prov, List.isEmpty_nil] at h
      split at h
      · rename_i a wt ht
        obtain ⟨g, rfl⟩ := tick_ok _ _ _ _ _ ht
        simp only [hgd, run_bind, run_pure, run_modify] at h
        exact pack_root _ h _ _ (good_renderer env name kw ctx w.nextId d _ fills hc hkw hf hgood.2) (good_cc name w.nextId _ fills o hgf ho) rfl
          rfl rfl rfl rfl hw.prov.symm rfl rfl rfl rfl
      · cases h

/-- the deque loop started on one root instance returns the expansion of that instance -/
theorem loop_root_exp (env : Env) (hlib : GoodLib env) (n : Nat) (w w1 w' : World) (toks : List Tok) (hw : WInv w)
    (h : (postRender env n [{ before := [], child := some w.nextId, parent := none, grand := none }] [] []).run.run w1 = (.ok toks, w'))
    (cc : CompCtx) (r : Renderer) (hg : GoodR env r w.nextId) (hcc : GoodC cc)
    (e1 : w1.nextId = w.nextId + 1) (e2 : w1.ctxCache = alSet w.nextId cc w.ctxCache)
    (e3 : w1.rendererCache = alSet w.nextId r w.rendererCache) (e4 : w1.childAttrs = w.childAttrs)
    (e5 : w1.provideCache = w.provideCache) (e6 : w1.provideRefs = w.provideRefs) (e7 : w1.allRefIds = w.allRefIds)
    (e8 : w1.cap = w.cap) (e9 : w1.events = w.events ++ [.gcd w.nextId]) :
    Exp env [Tok.hole w.nextId []] toks := by
  have hb := reg_Bal env w w1 cc r hw hg hcc e1 e2 e3 e4 e5 e6 e7 e8 e9
  have hl : LInv env w [{ before := [], child := some w.nextId, parent := none, grand := none }] w1 :=
    LInv.of_bal (by simpa [chIds] using hb) (by simp [opIds]) (by intro it hit; simp only [List.mem_singleton] at hit; rw [hit]; rfl)
  cases n with
  | zero => simp only [postRender, run_throw] at h; cases h
  | succ m =>
    obtain ⟨r', d, html, w2, parts1, hr, hrid, hf, hren, hbare, hbal, hp1, hq⟩ :=
      child_step env hlib m _ [] [] [] w w1 w' toks w.nextId hw hl rfl h
    have hattr : (alGet w.nextId w1.childAttrs).getD [] = [] := by rw [e4, hw.ca _ (Nat.le_refl _)]; rfl
    rw [hattr] at hq
    have hparts1 : parts1 = [] := by
      rcases hp1 with ⟨_, e⟩ | ⟨pid, hpid, _⟩
      · exact e
      · cases hpid
    subst hparts1
    have hkeys : (rootHoles ([] ++ [idAttr w.nextId]) html).map (·.1) = holeIds html := by simp only [rootHoles, keys_rootHolesAux]
    have hl3 := LInv.child (w3 := setCA w2 (List.foldl (fun acc kv => alSet kv.1 kv.2 acc) w2.childAttrs
        (rootHoles ([] ++ [idAttr w.nextId]) html))) (content := Tok.marker r'.name w.nextId :: addRootAttrs ([] ++ [idAttr w.nextId]) html)
        hw hl rfl rfl (by rw [holeIds_content]; exact hbal)
        (by rw [holeIds_content]; exact hkeys) rfl
    obtain ⟨n1, w4, exp, parts2, _, hexp, _, _, _, _, hrun⟩ :=
      seg env hlib m (Tok.marker r'.name w.nextId :: addRootAttrs ([] ++ [idAttr w.nextId]) html) w.nextId none [] [] [] [] w _ w' toks hw hl3
        (by
          intro i x hm
          rcases List.mem_cons.mp hm with e | e
          · cases e
          · have hrec := hole_attrs_recorded ([] ++ [idAttr w.nextId]) html 0 hbare i x e
            have := alGet_foldSet_mem i x (rootHoles ([] ++ [idAttr w.nextId]) html) w2.childAttrs (by rw [hkeys]; exact hbal.nodup) hrec
            simp only [setCA]
            rw [this]; rfl)
        (fun _ _ => rfl) (fun _ _ => rfl) (by intro g hg; cases hg) hq
    cases n1 with
    | zero => simp only [postRender, run_throw] at hrun; cases hrun
    | succ n1 =>
      simp only [postRender, run_pure, Option.isNone_none, ↓reduceIte, partsGet, alGet, Option.getD_none, List.nil_append, List.append_nil] at hrun
      obtain ⟨rfl, _⟩ := ok_inj hrun
      have := Exp.hole w.nextId [] r' d html hrid hf (by obtain ⟨m', wa, hh⟩ := hren; exact ⟨m', wa, w2, hh⟩) hexp Exp.nil
      simpa using this

/-- **The output of a component tag that no component encloses is the in-order expansion of its instance** — whatever
tree of components the library unfolds under it. -/
theorem tree_root_output (env : Env) (hlib : GoodLib env) (n : Nat) (name : Str) (kwargs : List (Str × Expr)) (only dyn : Bool)
    (body : List Node) (ctx : Ctx) (w w' : World) (toks : List Tok)
    (hd : isDynName name = false) (hb : gbody body = true) (hc : ctxFree ctx = true) (hw : WInv w) (hext : isExtracting ctx = false)
    (hpar : parentOf (if only || env.isolated then isolatedCopy ctx else ctx) = none)
    (h : (renderCompTag env n name kwargs only dyn body ctx).run.run w = (.ok toks, w')) :
    Exp env [Tok.hole w.nextId []] toks := by
  cases n with
  | zero => simp only [renderCompTag, run_throw] at h; cases h
  | succ n =>
    unfold renderCompTag at h
    simp only [hext, Bool.false_eq_true, ↓reduceIte] at h
    cases hf : findDef env name with
    | none => simp only [hf, hd, Bool.false_eq_true, ↓reduceIte, run_bind, run_throw] at h; cases h
    | some d =>
      simp only [hf] at h
      obtain ⟨fills, w1, hres, h⟩ := bind_ok _ _ _ _ _ h
      cases n with
      | zero => simp only [resolveFills, run_throw] at hres; cases hres
      | succ m =>
        obtain ⟨hgf, st, rfl⟩ := resolveFills_ok env m body ctx w w1 fills hb hc hres
        have hcore : core ({ w with steps := st } : World) = core w := rfl
        have hws : WInv ({ w with steps := st } : World) := WInv.of_core hcore.symm hw
        have hc' : ctxFree (if only || env.isolated then isolatedCopy ctx else ctx) = true := by
          split
          · exact ctxFree_isolatedCopy ctx hc
          · exact hc
        obtain ⟨w2, cc, r, hg, hcc, _, e1, e2, e3, e4, e5, e6, e7, e8, e9, hrun⟩ :=
          impl_root_run env hlib m name (evalKwargs ctx kwargs) fills ctx _ _ w' toks hd hc' hc (evalKwargs_free ctx hc kwargs) hgf hws hpar h
        exact loop_root_exp env hlib m ({ w with steps := st } : World) w2 w' toks hws hrun cc r hg hcc e1 e2 e3 e4 e5 e6 e7 e8 e9

/-! ### inversion of the expansion; the concrete instance -/

theorem Exp.tok_inv {env : Env} {t : Tok} {rest out : List Tok} (hn : noHole t = true) (h : Exp env (t :: rest) out) :
    ∃ e, out = t :: e ∧ Exp env rest e := by
  cases h with
  | tok _ _ he => exact ⟨_, rfl, he⟩
  | hole c a r d html _ _ _ _ _ => simp [noHole] at hn

theorem Exp.hole_inv {env : Env} {c : Nat} {a : List Str} {rest out : List Tok} (h : Exp env (.hole c a :: rest) out) :
    ∃ (r : Renderer) (d : CompDef) (html ec e : List Tok), out = ec ++ e ∧ r.id = c ∧ findDef env r.name = some d ∧
      (∃ n w w1, (renderNodes env n d.template r.ctx).run.run w = (.ok html, w1)) ∧
      Exp env (.marker r.name c :: addRootAttrs (a ++ [idAttr c]) html) ec ∧ Exp env rest e := by
  cases h with
  | tok _ hn _ => simp [noHole] at hn
  | hole _ _ r d html hid hf hren hec he => exact ⟨r, d, html, _, _, rfl, hid, hf, hren, hec, he⟩

/-- what the three-level example of `Djc/Proofs/Tree.lean` prints in django mode: `page` (id 1) has the component `list`
(id 2) as a root, so the `<ul>` carries both ids; the `<li>` of the leaves in the loop (ids 4, 5) are not roots of `list`
and carry their own id only; the leaf beside the list (id 3) is a root of `page`: both ids; the leaves in the loop render the
fill `+{{ x }}` given at their tag, the leaf beside the list the default content `~` of its unfilled slot -/
def exExpected : List Tok :=
  let A (ids : List Nat) : List Str := ids.map idAttr
  [.marker "page".toList 1, .marker "list".toList 2, .opn "ul".toList (A [1, 2]),
   .marker "leaf".toList 4, .opn "li".toList (A [4]), .text "p".toList, .text "+".toList, .text "p".toList, .cls "li".toList,
   .marker "leaf".toList 5, .opn "li".toList (A [5]), .text "q".toList, .text "+".toList, .text "q".toList, .cls "li".toList,
   .cls "ul".toList, .text "-".toList,
   .marker "leaf".toList 3, .opn "li".toList (A [1, 3]), .text "z".toList, .text "~".toList, .cls "li".toList]

def exOutputOk : Bool :=
  match (renderCompTag (exEnv false) 40 "page".toList [] false false [] exCtx).run.run {} with
  | (.ok toks, _) => toks == exExpected
  | _ => false

end Djc.Proofs.Stitch
