import Djc.Model.Lru
import Djc.Spec.Lru
namespace Djc.Proofs.Lru
open Djc.Model.Lru Djc.Spec.Lru

variable {κ ν : Type} [DecidableEq κ]

/-! ### association-list lemmas -/

theorem lookup_none_iff (k : κ) (xs : List (κ × ν)) :
    lookup k xs = none ↔ k ∉ keys xs := by
  induction xs with
  | nil => simp [lookup, keys]
  | cons p xs ih =>
    obtain ⟨k', v⟩ := p
    by_cases h : k' = k
    · simp [lookup, keys, h]
    · have : ¬ k = k' := fun e => h e.symm
      simp [lookup, h, this, keys] at ih ⊢
      exact ih

theorem lookup_some_mem {k : κ} {v : ν} {xs : List (κ × ν)} (h : lookup k xs = some v) :
    (k, v) ∈ xs := by
  induction xs with
  | nil => simp [lookup] at h
  | cons p xs ih =>
    obtain ⟨k', v'⟩ := p
    by_cases e : k' = k
    · simp [lookup, e] at h; subst h; subst e; simp
    · simp [lookup, e] at h; exact List.mem_cons_of_mem _ (ih h)

theorem lookup_some_key {k : κ} {v : ν} {xs : List (κ × ν)} (h : lookup k xs = some v) :
    k ∈ keys xs := by
  have := lookup_some_mem h
  exact List.mem_map.mpr ⟨(k, v), this, rfl⟩

theorem mem_erase {k : κ} {p : κ × ν} {xs : List (κ × ν)} :
    p ∈ erase k xs ↔ p ∈ xs ∧ p.1 ≠ k := by
  simp [erase]

theorem keys_erase (k : κ) (xs : List (κ × ν)) :
    keys (erase k xs) = (keys xs).filter (fun a => !decide (a = k)) := by
  induction xs with
  | nil => rfl
  | cons p xs ih =>
    simp only [erase, keys] at ih ⊢
    by_cases h : p.1 = k <;> simp [List.filter_cons, h, ih]

theorem keys_erase_sublist (k : κ) (xs : List (κ × ν)) :
    List.Sublist (keys (erase k xs)) (keys xs) := by
  rw [keys_erase]; exact List.filter_sublist

theorem not_mem_keys_erase (k : κ) (xs : List (κ × ν)) : k ∉ keys (erase k xs) := by
  rw [keys_erase]; simp

theorem mem_keys_erase {a k : κ} {xs : List (κ × ν)} :
    a ∈ keys (erase k xs) ↔ a ∈ keys xs ∧ a ≠ k := by
  rw [keys_erase]; simp

theorem length_erase_lt {k : κ} {xs : List (κ × ν)} (h : k ∈ keys xs) :
    (erase k xs).length < xs.length := by
  induction xs with
  | nil => simp [keys] at h
  | cons p xs ih =>
    simp only [erase, List.filter_cons]
    by_cases e : p.1 = k
    · simp [e]
      exact Nat.lt_succ_of_le (List.length_filter_le _ _)
    · simp [e]
      have : k ∈ keys xs := by
        simp [keys] at h
        rcases h with h | h
        · exact absurd h.symm e
        · obtain ⟨b, hb⟩ := h
          exact List.mem_map.mpr ⟨(k, b), hb, rfl⟩
      have := ih this
      simpa [erase] using this

theorem lookup_erase_ne {a k : κ} (xs : List (κ × ν)) (h : a ≠ k) :
    lookup a (erase k xs) = lookup a xs := by
  induction xs with
  | nil => rfl
  | cons p xs ih =>
    obtain ⟨k', v⟩ := p
    simp only [erase, List.filter_cons] at ih ⊢
    by_cases e : k' = k
    · have e2 : ¬ k' = a := fun e' => h (e'.symm.trans e)
      simp [e, lookup, ih]
      intro e3; exact absurd e3.symm h
    · by_cases e2 : k' = a
      · subst e2; simp [e, lookup]
      · simp [e, lookup, e2, ih]

theorem keys_dropLast (xs : List (κ × ν)) : keys xs.dropLast = (keys xs).dropLast := by
  simp [keys, List.map_dropLast]

theorem lookup_of_sublist_nodup {xs ys : List (κ × ν)} (hs : List.Sublist xs ys)
    (hn : (keys ys).Nodup) {k : κ} {v : ν} (h : lookup k xs = some v) : lookup k ys = some v := by
  induction hs with
  | slnil => simp [lookup] at h
  | cons p hs ih =>
    obtain ⟨k', v'⟩ := p
    have hn' : (keys _).Nodup := (List.nodup_cons.mp (by simpa [keys] using hn)).2
    have hk : k' ∉ keys _ := (List.nodup_cons.mp (by simpa [keys] using hn)).1
    have := ih hn' h
    by_cases e : k' = k
    · subst e; exact absurd (lookup_some_key this) hk
    · simp [lookup, e, this]
  | cons_cons p hs ih =>
    obtain ⟨k', v'⟩ := p
    have hn' : (keys _).Nodup := (List.nodup_cons.mp (by simpa [keys] using hn)).2
    by_cases e : k' = k
    · simp [lookup, e] at h ⊢; exact h
    · simp [lookup, e] at h ⊢; exact ih hn' h

/-! ### history lemmas -/

theorem age_snoc (h : List (Op κ ν)) (op : Op κ ν) (k : κ) :
    age (h ++ [op]) k = if touches k op then some 0 else (age h k).map (· + 1) := by
  simp [age, ageRev]

theorem dictGet_snoc_set (h : List (Op κ ν)) (k' : κ) (v : ν) (k : κ) :
    dictGet (h ++ [Op.set k' v]) k = if k' = k then some v else dictGet h k := by
  simp [dictGet, dictRev]

theorem dictGet_snoc_clear (h : List (Op κ ν)) (k : κ) :
    dictGet (h ++ [Op.clear]) k = none := by
  simp [dictGet, dictRev]

theorem dictGet_snoc_get (h : List (Op κ ν)) (k' k : κ) :
    dictGet (h ++ [Op.get k']) k = dictGet h k := by
  simp [dictGet, dictRev]

theorem dictGet_snoc_has (h : List (Op κ ν)) (k' k : κ) :
    dictGet (h ++ [Op.has k']) k = dictGet h k := by
  simp [dictGet, dictRev]

/-- Ages shift uniformly under an operation that touches neither key. -/
theorem moreRecent_snoc_untouched {h : List (Op κ ν)} {op : Op κ ν} {a b : κ}
    (ha : touches a op = false) (hb : touches b op = false) (hab : MoreRecent h a b) :
    MoreRecent (h ++ [op]) a b := by
  obtain ⟨i, j, hi, hj, hlt⟩ := hab
  refine ⟨i + 1, j + 1, ?_, ?_, by omega⟩
  · simp [age_snoc, ha, hi]
  · simp [age_snoc, hb, hj]

theorem moreRecent_snoc_touched {h : List (Op κ ν)} {op : Op κ ν} {a b : κ}
    (ha : touches a op = true) (hb : touches b op = false) (hbs : (age h b).isSome) :
    MoreRecent (h ++ [op]) a b := by
  obtain ⟨j, hj⟩ := Option.isSome_iff_exists.mp hbs
  refine ⟨0, j + 1, ?_, ?_, by omega⟩
  · simp [age_snoc, ha]
  · simp [age_snoc, hb, hj]

theorem age_isSome_snoc {h : List (Op κ ν)} {op : Op κ ν} {a : κ}
    (ha : (age h a).isSome ∨ touches a op = true) : (age (h ++ [op]) a).isSome := by
  rw [age_snoc]
  by_cases t : touches a op = true
  · simp [t]
  · rcases ha with ha | ha
    · simp [t, ha]
    · exact absurd ha t

/-! ### the invariant -/

/-- Invariant relating a cache state to the history that produced it. -/
structure Inv (h : List (Op κ ν)) (c : Lru κ ν) : Prop where
  nodup   : (keys c.items).Nodup
  bounded : ∀ n, c.cap = some n → c.items.length ≤ n
  aged    : ∀ k ∈ keys c.items, (age h k).isSome
  sorted  : (keys c.items).Pairwise (MoreRecent h)
  values  : ∀ k v, lookup k c.items = some v → dictGet h k = some v

theorem inv_empty (cap : Option Nat) : Inv ([] : List (Op κ ν)) (empty cap : Lru κ ν) where
  nodup := by simp [empty, keys]
  bounded := by simp [empty]
  aged := by simp [empty, keys]
  sorted := by simp [empty, keys]
  values := by simp [empty, lookup]

theorem touches_get_self (k : κ) : touches k (Op.get k : Op κ ν) = true := by simp [touches]
theorem touches_set_self (k : κ) (v : ν) : touches k (Op.set k v : Op κ ν) = true := by
  simp [touches]
theorem touches_get_ne {a k : κ} (h : a ≠ k) : touches a (Op.get k : Op κ ν) = false := by
  simp [touches]; exact fun e => h e.symm
theorem touches_set_ne {a k : κ} (v : ν) (h : a ≠ k) :
    touches a (Op.set k v : Op κ ν) = false := by
  simp [touches]; exact fun e => h e.symm

/-- Moving / inserting key `k` at the front of a sub-list of the old keys, under an
operation `op` that touches exactly `k`, keeps the recency order. -/
theorem sorted_front {h : List (Op κ ν)} {op : Op κ ν} {k : κ} {old new : List κ}
    (hsub : List.Sublist new old) (hk : k ∉ new)
    (hsorted : old.Pairwise (MoreRecent h)) (haged : ∀ a ∈ old, (age h a).isSome)
    (ht : touches k op = true) (hnt : ∀ a, a ≠ k → touches a op = false) :
    (k :: new).Pairwise (MoreRecent (h ++ [op])) := by
  refine List.pairwise_cons.mpr ⟨?_, ?_⟩
  · intro b hb
    have hbk : b ≠ k := fun e => hk (e ▸ hb)
    exact moreRecent_snoc_touched ht (hnt b hbk) (haged b (hsub.subset hb))
  · have h1 : new.Pairwise (MoreRecent h) := hsorted.sublist hsub
    refine List.Pairwise.imp_of_mem ?_ h1
    intro a b ha hb hab
    have hak : a ≠ k := fun e => hk (e ▸ ha)
    have hbk : b ≠ k := fun e => hk (e ▸ hb)
    exact moreRecent_snoc_untouched (hnt a hak) (hnt b hbk) hab

theorem inv_front {h : List (Op κ ν)} {c : Lru κ ν} {op : Op κ ν} {k : κ} {v : ν}
    {rest : List (κ × ν)}
    (hi : Inv h c) (hsub : List.Sublist rest c.items) (hk : k ∉ keys rest)
    (hlen : ∀ n, c.cap = some n → rest.length + 1 ≤ n)
    (ht : touches k op = true) (hnt : ∀ a, a ≠ k → touches a op = false)
    (hval : dictGet (h ++ [op]) k = some v)
    (hdict : ∀ a, a ≠ k → dictGet (h ++ [op]) a = dictGet h a) :
    Inv (h ++ [op]) { c with items := (k, v) :: rest } where
  nodup := by
    have : (keys rest).Nodup := hi.nodup.sublist (hsub.map _)
    simpa [keys] using List.nodup_cons.mpr ⟨hk, this⟩
  bounded := by
    intro n hn; simpa using hlen n hn
  aged := by
    intro a ha
    simp only [keys, List.map_cons, List.mem_cons] at ha
    rcases ha with ha | ha
    · subst ha; exact age_isSome_snoc (Or.inr ht)
    · exact age_isSome_snoc (Or.inl (hi.aged a ((hsub.map _).subset ha)))
  sorted := by
    have := sorted_front (hsub.map Prod.fst) hk hi.sorted hi.aged ht hnt
    simpa [keys] using this
  values := by
    intro a w hl
    by_cases e : k = a
    · subst e; simp [lookup] at hl; subst hl; exact hval
    · simp [lookup, e] at hl
      have hak : a ≠ k := fun e' => e e'.symm
      rw [hdict a hak]
      exact hi.values a w (lookup_of_sublist_nodup hsub hi.nodup hl)

/-- An operation that changes neither the state nor the dictionary and touches no cached key. -/
theorem inv_idle {h : List (Op κ ν)} {c : Lru κ ν} {op : Op κ ν}
    (hi : Inv h c) (hnt : ∀ a ∈ keys c.items, touches a op = false)
    (hdict : ∀ a ∈ keys c.items, dictGet (h ++ [op]) a = dictGet h a) :
    Inv (h ++ [op]) c where
  nodup := hi.nodup
  bounded := hi.bounded
  aged := fun a ha => age_isSome_snoc (Or.inl (hi.aged a ha))
  sorted := by
    refine List.Pairwise.imp_of_mem ?_ hi.sorted
    intro a b ha hb hab
    exact moreRecent_snoc_untouched (hnt a ha) (hnt b hb) hab
  values := by
    intro a w hl
    rw [hdict a (lookup_some_key hl)]
    exact hi.values a w hl

theorem inv_step {h : List (Op κ ν)} {c : Lru κ ν} (hi : Inv h c) (op : Op κ ν) :
    Inv (h ++ [op]) (step c op).1 := by
  cases op with
  | has k =>
    exact inv_idle hi (fun a _ => by simp [touches]) (fun a _ => dictGet_snoc_has h k a)
  | clear =>
    exact {
      nodup := by simp [step, cclear, keys]
      bounded := by simp [step, cclear]
      aged := by simp [step, cclear, keys]
      sorted := by simp [step, cclear, keys]
      values := by simp [step, cclear, lookup] }
  | get k =>
    simp only [step, cget]
    cases hl : lookup k c.items with
    | none =>
      have hk : k ∉ keys c.items := (lookup_none_iff k c.items).mp hl
      refine inv_idle hi (fun a ha => touches_get_ne (fun e => hk (e ▸ ha)))
        (fun a _ => dictGet_snoc_get h k a)
    | some v =>
      have hkin : k ∈ keys c.items := lookup_some_key hl
      refine inv_front hi List.filter_sublist (not_mem_keys_erase k c.items) ?_
        (touches_get_self k) (fun a ha => touches_get_ne ha) ?_
        (fun a _ => dictGet_snoc_get h k a)
      · intro n hn
        have := hi.bounded n hn
        have := length_erase_lt hkin
        omega
      · rw [dictGet_snoc_get]; exact hi.values k v hl
  | set k v =>
    simp only [step, cset]
    by_cases hd : isDisabled c = true
    · -- disabled: the cache is empty and stays so
      simp only [hd, if_true]
      have hempty : c.items = [] := by
        unfold isDisabled at hd
        cases hc : c.cap with
        | none => simp [hc] at hd
        | some n =>
          simp [hc] at hd
          have := hi.bounded n hc
          subst hd
          exact List.length_eq_zero_iff.mp (Nat.le_zero.mp this)
      exact inv_idle hi (by simp [hempty, keys]) (by simp [hempty, keys])
    · simp only [hd]
      have hcap0 : ∀ n, c.cap = some n → 0 < n := by
        intro n hn
        unfold isDisabled at hd
        simp [hn] at hd
        omega
      have hval : dictGet (h ++ [Op.set k v]) k = some v := by simp [dictGet_snoc_set]
      have hdict : ∀ a, a ≠ k → dictGet (h ++ [Op.set k v]) a = dictGet h a := by
        intro a ha
        have : ¬ k = a := fun e => ha e.symm
        simp [dictGet_snoc_set, this]
      cases hl : lookup k c.items with
      | some w =>
        have hkin : k ∈ keys c.items := lookup_some_key hl
        simp only [Option.isSome_some, if_true, Bool.false_eq_true, if_false]
        refine inv_front hi List.filter_sublist (not_mem_keys_erase k c.items) ?_
          (touches_set_self k v) (fun a ha => touches_set_ne v ha) hval hdict
        intro n hn
        have := hi.bounded n hn
        have := length_erase_lt hkin
        omega
      | none =>
        have hk : k ∉ keys c.items := (lookup_none_iff k c.items).mp hl
        simp only [Option.isSome_none, Bool.false_eq_true, if_false]
        by_cases hf : isFull c = true
        · simp only [hf, if_true]
          refine inv_front hi (List.dropLast_sublist _) ?_ ?_
            (touches_set_self k v) (fun a ha => touches_set_ne v ha) hval hdict
          · intro hin
            rw [keys_dropLast] at hin
            exact hk (List.dropLast_subset _ hin)
          · intro n hn
            have := hi.bounded n hn
            have := hcap0 n hn
            simp only [List.length_dropLast]
            unfold isFull at hf
            simp [hn] at hf
            omega
        · simp only [hf, Bool.false_eq_true, if_false]
          refine inv_front hi (List.Sublist.refl _) hk ?_
            (touches_set_self k v) (fun a ha => touches_set_ne v ha) hval hdict
          intro n hn
          unfold isFull at hf
          simp [hn] at hf
          omega

theorem step_cap (c : Lru κ ν) (op : Op κ ν) : (step c op).1.cap = c.cap := by
  cases op with
  | has k => rfl
  | clear => rfl
  | get k =>
    simp only [step, cget]
    cases lookup k c.items <;> rfl
  | set k v =>
    simp only [step, cset]
    split
    · rfl
    · split
      · rfl
      · split <;> rfl

theorem run_cons (c : Lru κ ν) (op : Op κ ν) (h : List (Op κ ν)) :
    run c (op :: h) = run (step c op).1 h := by
  simp [run]

theorem run_snoc (c : Lru κ ν) (h : List (Op κ ν)) (op : Op κ ν) :
    run c (h ++ [op]) = (step (run c h) op).1 := by
  simp [run, List.foldl_append]

theorem run_cap (c : Lru κ ν) (h : List (Op κ ν)) : (run c h).cap = c.cap := by
  induction h generalizing c with
  | nil => rfl
  | cons op h ih => rw [run_cons, ih, step_cap]

theorem inv_run_from {pre : List (Op κ ν)} {c : Lru κ ν} (hi : Inv pre c) (h : List (Op κ ν)) :
    Inv (pre ++ h) (run c h) := by
  induction h generalizing pre c with
  | nil => simpa [run] using hi
  | cons op h ih =>
    rw [run_cons]
    have := ih (inv_step hi op)
    simpa [List.append_assoc] using this

theorem inv_run (cap : Option Nat) (h : List (Op κ ν)) : Inv h (run (empty cap : Lru κ ν) h) := by
  simpa using inv_run_from (inv_empty cap) h

theorem lookup_cset_other (c : Lru κ ν) (k a : κ) (v w : ν) (hak : a ≠ k)
    (hn : (keys c.items).Nodup) (h : lookup a (cset c k v).items = some w) :
    lookup a c.items = some w := by
  unfold cset at h
  have hka : ¬ k = a := fun e => hak e.symm
  split at h
  · exact h
  · split at h
    · simpa [lookup, hka, lookup_erase_ne _ hak] using h
    · split at h
      · simp [lookup, hka] at h
        exact lookup_of_sublist_nodup (List.dropLast_sublist _) hn h
      · simpa [lookup, hka] using h

theorem lookup_cset_self (c : Lru κ ν) (k : κ) (v w : ν)
    (h : lookup k (cset c k v).items = some w) (hmiss : lookup k c.items = none) : w = v := by
  unfold cset at h
  split at h
  · rw [hmiss] at h; cases h
  · simp [hmiss] at h
    split at h <;> simp [lookup] at h <;> exact h.symm

theorem tinv_step (s : TState κ) (k : κ) (hn : (keys s.cache.items).Nodup) (hi : TInv s) :
    TInv (cachedTemplate s k).1 := by
  unfold cachedTemplate
  cases hl : lookup k s.cache.items with
  | some t =>
    simp only [cget, hl]
    intro a u hu
    by_cases e : k = a
    · subst e; simp [lookup] at hu; subst hu; exact hi k t hl
    · have hak : a ≠ k := fun e' => e e'.symm
      simp [lookup, e, lookup_erase_ne _ hak] at hu
      exact hi a u hu
  | none =>
    simp only [cget, hl]
    intro a u hu
    by_cases e : a = k
    · subst e
      have := lookup_cset_self _ _ _ _ hu hl
      subst this; exact ⟨rfl, Nat.lt_succ_self _⟩
    · have := hi a u (lookup_cset_other _ _ _ _ _ e hn hu)
      exact ⟨this.1, Nat.lt_succ_of_lt this.2⟩

/-! ### A recently used key survives (completeness direction) -/

/-- Position of the first occurrence of `k` (length of the list if absent). -/
def posOf (k : κ) : List κ → Nat
  | [] => 0
  | a :: as => if a = k then 0 else posOf k as + 1

theorem posOf_lt_length (k : κ) (l : List κ) (h : k ∈ l) : posOf k l < l.length := by
  induction l with
  | nil => simp at h
  | cons a as ih =>
    by_cases e : a = k
    · simp [posOf, e]
    · have : k ∈ as := by
        rcases List.mem_cons.mp h with h1 | h1
        · exact absurd h1.symm e
        · exact h1
      have := ih this
      simp [posOf, e]; omega

theorem erase_cons_eq (k' : κ) (p : κ × ν) (xs : List (κ × ν)) :
    erase k' (p :: xs) = if p.1 = k' then erase k' xs else p :: erase k' xs := by
  by_cases e : p.1 = k' <;> simp [erase, List.filter_cons, e]

theorem posOf_erase_le (k k' : κ) (hne : k ≠ k') (xs : List (κ × ν)) :
    posOf k (keys (erase k' xs)) ≤ posOf k (keys xs) := by
  induction xs with
  | nil => simp [erase, keys, posOf]
  | cons p xs ih =>
    rw [erase_cons_eq]
    by_cases e1 : p.1 = k'
    · have e3 : ¬ p.1 = k := fun e => hne (e.symm.trans e1)
      rw [if_pos e1]
      have : posOf k (keys (p :: xs)) = posOf k (keys xs) + 1 := by
        show posOf k (p.1 :: keys xs) = _
        simp [posOf, e3]
      omega
    · rw [if_neg e1]
      show posOf k (p.1 :: keys (erase k' xs)) ≤ posOf k (p.1 :: keys xs)
      by_cases e2 : p.1 = k
      · simp [posOf, e2]
      · simp only [posOf, e2, if_false]; omega

theorem posOf_dropLast (k : κ) (l : List κ) (h : k ∈ l) (hp : posOf k l + 1 < l.length) :
    k ∈ l.dropLast ∧ posOf k l.dropLast = posOf k l := by
  induction l with
  | nil => simp at h
  | cons a as ih =>
    have hne : as ≠ [] := by
      intro e; subst e; simp [posOf] at hp
    obtain ⟨b, bs, rfl⟩ := List.exists_cons_of_ne_nil hne
    by_cases e : a = k
    · subst e; simp [posOf]
    · have hk : k ∈ b :: bs := by
        rcases List.mem_cons.mp h with h1 | h1
        · exact absurd h1.symm e
        · exact h1
      have hu : posOf k (a :: b :: bs) = posOf k (b :: bs) + 1 := by
        show (if a = k then 0 else posOf k (b :: bs) + 1) = _
        rw [if_neg e]
      have hp' : posOf k (b :: bs) + 1 < (b :: bs).length := by
        rw [hu] at hp; simp only [List.length_cons] at hp ⊢; omega
      have := ih hk hp'
      rw [List.dropLast_cons_cons]
      refine ⟨List.mem_cons_of_mem _ this.1, ?_⟩
      rw [hu]
      show (if a = k then 0 else posOf k (b :: bs).dropLast + 1) = _
      rw [if_neg e, this.2]

/-- `k` is cached and at most `j` places from the most-recently-used end. -/
def Near (k : κ) (j : Nat) (c : Lru κ ν) : Prop :=
  k ∈ keys c.items ∧ posOf k (keys c.items) ≤ j

theorem near_front (c : Lru κ ν) (k k' : κ) (w : ν) (j : Nat) (hn : Near k j c) :
    Near k (j + 1) { c with items := (k', w) :: erase k' c.items } := by
  obtain ⟨hm, hp⟩ := hn
  by_cases e : k' = k
  · subst e
    exact ⟨by simp [keys], by simp [keys, posOf]⟩
  · have hne : k ≠ k' := fun e' => e e'.symm
    refine ⟨?_, ?_⟩
    · show k ∈ k' :: keys (erase k' c.items)
      exact List.mem_cons_of_mem _ (mem_keys_erase.mpr ⟨hm, hne⟩)
    · show posOf k (k' :: keys (erase k' c.items)) ≤ j + 1
      have := posOf_erase_le k k' hne c.items
      simp only [posOf, e, if_false]; omega

/-- One operation other than `clear` pushes a cached key at most one place towards the
least-recently-used end, and cannot evict it while it is not the last of a full cache. -/
theorem near_step (c : Lru κ ν) (n : Nat) (hc : c.cap = some n) (k : κ) (j : Nat)
    (hn : Near k j c) (hj : j + 1 < n) (op : Op κ ν) (hop : op ≠ Op.clear) :
    Near k (j + 1) (step c op).1 := by
  have hn' := hn
  obtain ⟨hm, hp⟩ := hn
  cases op with
  | clear => exact absurd rfl hop
  | has k' => exact ⟨hm, Nat.le_succ_of_le hp⟩
  | get k' =>
    show Near k (j + 1) (cget c k').1
    unfold cget
    cases hl : lookup k' c.items with
    | none => exact ⟨hm, Nat.le_succ_of_le hp⟩
    | some w => exact near_front c k k' w j hn'
  | set k' w =>
    show Near k (j + 1) (cset c k' w)
    unfold cset
    have hd : isDisabled c = false := by
      unfold isDisabled; rw [hc]; simp; omega
    rw [hd]
    simp only [Bool.false_eq_true, if_false]
    split
    · exact near_front c k k' w j hn'
    · rename_i hmiss
      have hk' : k' ∉ keys c.items := by
        apply (lookup_none_iff k' c.items).mp
        cases hl : lookup k' c.items with
        | none => rfl
        | some x => simp [hl] at hmiss
      have e : ¬ k' = k := fun e => hk' (e ▸ hm)
      split
      · rename_i hfull
        have hlen : n ≤ c.items.length := by
          unfold isFull at hfull; rw [hc] at hfull; simpa using hfull
        have hlk : (keys c.items).length = c.items.length := by simp [keys]
        have := posOf_dropLast k (keys c.items) hm (by omega)
        refine ⟨?_, ?_⟩
        · show k ∈ k' :: keys c.items.dropLast
          rw [keys_dropLast]; exact List.mem_cons_of_mem _ this.1
        · show posOf k (k' :: keys c.items.dropLast) ≤ j + 1
          rw [keys_dropLast]
          simp only [posOf, e, if_false]; omega
      · refine ⟨?_, ?_⟩
        · show k ∈ k' :: keys c.items
          exact List.mem_cons_of_mem _ hm
        · show posOf k (k' :: keys c.items) ≤ j + 1
          simp only [posOf, e, if_false]; omega

theorem near_run (n : Nat) (k : κ) (h : List (Op κ ν)) :
    ∀ (c : Lru κ ν) (j : Nat), c.cap = some n → Near k j c → j + h.length < n →
      (∀ op ∈ h, op ≠ Op.clear) → Near k (j + h.length) (run c h) := by
  induction h with
  | nil => intro c j _ hn _ _; simpa [run] using hn
  | cons op h ih =>
    intro c j hc hn hl hno
    rw [run_cons]
    simp only [List.length_cons] at hl ⊢
    have h1 := near_step c n hc k j hn (by omega) op (hno op (by simp))
    have := ih (step c op).1 (j + 1) (by rw [step_cap]; exact hc) h1 (by omega)
      (fun o ho => hno o (List.mem_cons_of_mem _ ho))
    have e : j + (h.length + 1) = j + 1 + h.length := by omega
    rw [e]; exact this
/-! ### a recently used template keeps its identity (cached_template level) -/

theorem lookup_dropLast (k : κ) : ∀ (xs : List (κ × ν)), k ∈ keys xs →
    posOf k (keys xs) + 1 < xs.length → lookup k xs.dropLast = lookup k xs := by
  intro xs
  induction xs with
  | nil => intro h; simp [keys] at h
  | cons p xs ih =>
    intro hm hp
    cases xs with
    | nil => simp [keys, posOf] at hp
    | cons q qs =>
      rw [List.dropLast_cons_cons]
      by_cases e : p.1 = k
      · simp [lookup, e]
      · have hu : posOf k (keys (p :: q :: qs)) = posOf k (keys (q :: qs)) + 1 := by
          show (if p.1 = k then 0 else posOf k (keys (q :: qs)) + 1) = _
          rw [if_neg e]
        have hm' : k ∈ keys (q :: qs) := by
          have : k ∈ p.1 :: keys (q :: qs) := hm
          rcases List.mem_cons.mp this with h1 | h1
          · exact absurd h1.symm e
          · exact h1
        have := ih hm' (by rw [hu] at hp; simp only [List.length_cons] at hp ⊢; omega)
        show (if p.1 = k then some p.2 else lookup k (q :: qs).dropLast) =
          (if p.1 = k then some p.2 else lookup k (q :: qs))
        rw [if_neg e, if_neg e, this]

/-- forward direction of `lookup_cset_other`: storing another key keeps `k`'s value while `k`
is not the last entry of a full cache. -/
theorem lookup_cset_keeps (c : Lru κ ν) (n : Nat) (hc : c.cap = some n) (k k' : κ) (t v : ν)
    (hne : k ≠ k') (hl : lookup k c.items = some t) (hp : posOf k (keys c.items) + 1 < n) :
    lookup k (cset c k' v).items = some t := by
  have hm : k ∈ keys c.items := lookup_some_key hl
  have e : ¬ k' = k := fun e => hne e.symm
  unfold cset
  have hd : isDisabled c = false := by
    unfold isDisabled; rw [hc]; simp; omega
  rw [hd]
  simp only [Bool.false_eq_true, if_false]
  split
  · show (if k' = k then some v else lookup k (erase k' c.items)) = some t
    rw [if_neg e, lookup_erase_ne _ hne, hl]
  · split
    · rename_i hfull
      have hlen : n ≤ c.items.length := by
        unfold isFull at hfull; rw [hc] at hfull; simpa using hfull
      show (if k' = k then some v else lookup k c.items.dropLast) = some t
      rw [if_neg e, lookup_dropLast k c.items hm (by omega), hl]
    · show (if k' = k then some v else lookup k c.items) = some t
      rw [if_neg e, hl]

/-- `k` is cached with value `t` and at most `j` places from the most-recently-used end. -/
def TNear (k : κ) (t : Tmpl κ) (j : Nat) (c : Lru κ (Tmpl κ)) : Prop :=
  lookup k c.items = some t ∧ posOf k (keys c.items) ≤ j

theorem TNear.near {k : κ} {t : Tmpl κ} {j : Nat} {c : Lru κ (Tmpl κ)} (h : TNear k t j c) :
    Near k j c := ⟨lookup_some_key h.1, h.2⟩

/-- One `cached_template` call (for any source) keeps a recently used template cached, with the
same object, at most one place further from the front. -/
theorem tnear_step (s : TState κ) (n : Nat) (hc : s.cache.cap = some n) (k k' : κ) (t : Tmpl κ)
    (j : Nat) (hn : TNear k t j s.cache) (hj : j + 1 < n) :
    TNear k t (j + 1) (cachedTemplate s k').1.cache ∧ (cachedTemplate s k').1.cache.cap = some n ∧
    (k' = k → (cachedTemplate s k').2 = t) := by
  unfold cachedTemplate
  cases hl : lookup k' s.cache.items with
  | some t' =>
    simp only [cget, hl]
    refine ⟨⟨?_, (near_front s.cache k k' t' j hn.near).2⟩, hc, ?_⟩
    · by_cases e : k' = k
      · subst e
        have : t' = t := Option.some.inj (hl.symm.trans hn.1)
        simp [lookup, this]
      · have hne : k ≠ k' := fun e' => e e'.symm
        show (if k' = k then some t' else lookup k (erase k' s.cache.items)) = some t
        rw [if_neg e, lookup_erase_ne _ hne, hn.1]
    · intro e; subst e
      exact Option.some.inj (hl.symm.trans hn.1)
  | none =>
    simp only [cget, hl]
    have e : ¬ k' = k := by
      intro e; subst e; have := hl.symm.trans hn.1; cases this
    have hne : k ≠ k' := fun e' => e e'.symm
    refine ⟨⟨?_, ?_⟩, ?_, fun e' => absurd e' e⟩
    · exact lookup_cset_keeps s.cache n hc k k' t _ hne hn.1 (by have := hn.2; omega)
    · exact (near_step s.cache n hc k j hn.near hj (Op.set k' { ident := s.next, key := k' })
        (by intro h; cases h)).2
    · have := step_cap s.cache (Op.set k' { ident := s.next, key := k' })
      simpa [step, hc] using this

theorem tnear_run (n : Nat) (k : κ) (t : Tmpl κ) (ks : List κ) :
    ∀ (s : TState κ) (j : Nat), s.cache.cap = some n → TNear k t j s.cache → j + ks.length < n →
      TNear k t (j + ks.length) (tRun s ks).1.cache ∧ (tRun s ks).1.cache.cap = some n := by
  induction ks with
  | nil => intro s j hc hn _; exact ⟨by simpa [tRun] using hn, by simpa [tRun] using hc⟩
  | cons k' ks ih =>
    intro s j hc hn hl
    simp only [List.length_cons] at hl
    have h1 := tnear_step s n hc k k' t j hn (by omega)
    have := ih (cachedTemplate s k').1 (j + 1) h1.2.1 h1.1 (by omega)
    simp only [tRun, List.length_cons]
    have e : j + (ks.length + 1) = j + 1 + ks.length := by omega
    rw [e]; exact this
end Djc.Proofs.Lru
