import Djc.Proofs.AList
import Djc.Model.Registry
import Djc.Spec.Registry
namespace Djc.Proofs.Registry
open Djc.AList Djc.Model.Registry Djc.Spec.Registry

variable {ν τ κ : Type} [DecidableEq ν] [DecidableEq τ] [DecidableEq κ]

/-- Invariant of every reachable registry state; `lib0` is the library as it was when the
registry was created. -/
structure Inv (lib0 : List (τ × Owner)) (r : Reg ν τ κ) : Prop where
  nodupE   : (akeys r.entries).Nodup
  tagOf    : ∀ n c t, alookup n r.entries = some (c, t) → t = r.fmt n ∧ r.fmt n ∉ r.prot
  tagsNone : ∀ t, alookup t r.tags = none → ∀ n, n ∈ akeys r.entries → r.fmt n ≠ t
  tagsSome : ∀ t ns, alookup t r.tags = some ns →
               ns ≠ [] ∧ ∀ n, n ∈ ns ↔ (n ∈ akeys r.entries ∧ r.fmt n = t)
  libC     : ∀ t, t ∉ akeys lib0 → (t ∈ akeys r.lib ↔ Used r t)
  libP     : ∀ t, t ∈ r.prot → alookup t r.lib = alookup t lib0

theorem inv_init (lib0 : List (τ × Owner)) (prot : List τ) (fmt : ν → τ) :
    Inv lib0 (init lib0 prot fmt : Reg ν τ κ) where
  nodupE := by simp [init, akeys]
  tagOf := by simp [init]
  tagsNone := by simp [init, akeys]
  tagsSome := by simp [init]
  libC := by
    intro t ht
    simp only [init, Used, akeys, List.map_nil, List.not_mem_nil, false_and, exists_false, iff_false]
    exact ht
  libP := by simp [init]

theorem mem_entries_lookup {r : Reg ν τ κ} {n : ν} (h : n ∈ akeys r.entries) :
    ∃ c t, alookup n r.entries = some (c, t) := by
  have := (mem_akeys_iff n r.entries).mp h
  cases hl : alookup n r.entries with
  | none => simp [hl] at this
  | some p => exact ⟨p.1, p.2, rfl⟩

/-! ### register -/

theorem inv_registerLib {lib0 : List (τ × Owner)} {r : Reg ν τ κ} (hi : Inv lib0 r) (n : ν) (c : κ)
    (hp : r.fmt n ∉ r.prot) :
    Inv lib0 { r with lib := aset (r.fmt n) Owner.component r.lib,
                      tags := addName (r.fmt n) n r.tags,
                      entries := aset n (c, r.fmt n) r.entries } where
  nodupE := nodup_akeys_aset _ _ hi.nodupE
  tagOf := by
    intro a c' t hl
    simp only [alookup_aset] at hl
    by_cases e : a = n
    · subst e; simp at hl; obtain ⟨_, rfl⟩ := hl; exact ⟨rfl, hp⟩
    · simp [e] at hl; exact hi.tagOf a c' t hl
  tagsNone := by
    intro t hl a ha
    simp only [mem_akeys_aset] at ha
    simp only [addName] at hl
    by_cases et : t = r.fmt n
    · subst et
      cases h0 : alookup (r.fmt n) r.tags with
      | none => simp [h0, alookup_aset_self] at hl
      | some ns =>
        simp only [h0] at hl
        split at hl
        · rw [h0] at hl; cases hl
        · simp [alookup_aset_self] at hl
    · have hl' : alookup t r.tags = none := by
        cases h0 : alookup (r.fmt n) r.tags with
        | none => simpa [h0, alookup_aset_ne _ _ et] using hl
        | some ns =>
          simp only [h0] at hl
          split at hl
          · exact hl
          · simpa [alookup_aset_ne _ _ et] using hl
      rcases ha with ha | ha
      · subst ha; exact fun e => et e.symm
      · exact hi.tagsNone t hl' a ha
  tagsSome := by
    intro t ns hl
    simp only [addName] at hl
    by_cases et : t = r.fmt n
    · subst et
      cases h0 : alookup (r.fmt n) r.tags with
      | none =>
        simp [h0, alookup_aset_self] at hl
        subst hl
        refine ⟨by simp, ?_⟩
        intro a
        simp only [List.mem_singleton, mem_akeys_aset]
        constructor
        · intro e; subst e; exact ⟨Or.inl rfl, rfl⟩
        · rintro ⟨h1 | h1, h2⟩
          · exact h1
          · exact absurd h2 (hi.tagsNone _ h0 a h1)
      | some ms =>
        have hms := hi.tagsSome _ ms h0
        simp only [h0] at hl
        split at hl
        · rename_i hin
          rw [h0] at hl; cases hl
          refine ⟨hms.1, ?_⟩
          intro a
          rw [hms.2 a]
          simp only [mem_akeys_aset]
          constructor
          · rintro ⟨h1, h2⟩; exact ⟨Or.inr h1, h2⟩
          · rintro ⟨h1 | h1, h2⟩
            · subst h1; exact ⟨((hms.2 a).mp hin).1, h2⟩
            · exact ⟨h1, h2⟩
        · simp [alookup_aset_self] at hl
          subst hl
          refine ⟨by simp, ?_⟩
          intro a
          simp only [List.mem_append, List.mem_singleton, mem_akeys_aset]
          rw [hms.2 a]
          constructor
          · rintro (⟨h1, h2⟩ | h1)
            · exact ⟨Or.inr h1, h2⟩
            · subst h1; exact ⟨Or.inl rfl, rfl⟩
          · rintro ⟨h1 | h1, h2⟩
            · exact Or.inr h1
            · exact Or.inl ⟨h1, h2⟩
    · have hl' : alookup t r.tags = some ns := by
        cases h0 : alookup (r.fmt n) r.tags with
        | none => simpa [h0, alookup_aset_ne _ _ et] using hl
        | some ms =>
          simp only [h0] at hl
          split at hl
          · exact hl
          · simpa [alookup_aset_ne _ _ et] using hl
      have := hi.tagsSome t ns hl'
      refine ⟨this.1, ?_⟩
      intro a
      rw [this.2 a]
      simp only [mem_akeys_aset]
      constructor
      · rintro ⟨h1, h2⟩; exact ⟨Or.inr h1, h2⟩
      · rintro ⟨h1 | h1, h2⟩
        · subst h1; exact absurd h2.symm et
        · exact ⟨h1, h2⟩
  libC := by
    intro t ht
    simp only [mem_akeys_aset, Used]
    rw [hi.libC t ht]
    constructor
    · rintro (h | ⟨a, ha, hf⟩)
      · exact ⟨n, Or.inl rfl, h.symm⟩
      · exact ⟨a, Or.inr ha, hf⟩
    · rintro ⟨a, ha | ha, hf⟩
      · subst ha; exact Or.inl hf.symm
      · exact Or.inr ⟨a, ha, hf⟩
  libP := by
    intro t ht
    have : t ≠ r.fmt n := fun e => hp (e ▸ ht)
    simp only [alookup_aset_ne _ _ this]
    exact hi.libP t ht

theorem inv_register {lib0 : List (τ × Owner)} {r : Reg ν τ κ} (hi : Inv lib0 r) (n : ν) (c : κ) :
    Inv lib0 (register r n c).1 := by
  unfold register registerLib
  cases hl : alookup n r.entries with
  | none =>
    simp only
    split
    · exact hi
    · rename_i hp; exact inv_registerLib hi n c hp
  | some p =>
    obtain ⟨c', t⟩ := p
    simp only
    split
    · exact hi
    · split
      · exact hi
      · rename_i hp; exact inv_registerLib hi n c hp

/-! ### unregister -/

theorem unregister_ok {lib0 : List (τ × Owner)} {r : Reg ν τ κ} (hi : Inv lib0 r) {n : ν} {c : κ} {t : τ}
    (hl : alookup n r.entries = some (c, t)) :
    ∃ ns, alookup t r.tags = some ns ∧ n ∈ ns ∧ t = r.fmt n ∧ t ∉ r.prot := by
  have h1 := hi.tagOf n c t hl
  have hk : n ∈ akeys r.entries := mem_akeys_of_alookup hl
  cases h0 : alookup t r.tags with
  | none => exact absurd h1.1.symm (hi.tagsNone t h0 n hk)
  | some ns =>
    refine ⟨ns, rfl, ?_, h1.1, h1.1 ▸ h1.2⟩
    exact ((hi.tagsSome t ns h0).2 n).mpr ⟨hk, h1.1.symm⟩

/-- The state produced by the success branch of `unregister`. -/
def unregState (r : Reg ν τ κ) (n : ν) (t : τ) (ns : List ν) : Reg ν τ κ :=
  let ns' := ns.filter (fun m => !decide (m = n))
  let empty := ns'.isEmpty
  { r with
    tags := if empty then aerase t r.tags else aset t ns' r.tags,
    lib := if t ∈ r.prot then r.lib
           else if empty && ahas t r.lib then aerase t r.lib else r.lib,
    entries := aerase n r.entries }

theorem unregister_eq {lib0 : List (τ × Owner)} {r : Reg ν τ κ} (hi : Inv lib0 r) {n : ν} {c : κ} {t : τ}
    (hl : alookup n r.entries = some (c, t)) :
    ∃ ns, alookup t r.tags = some ns ∧ n ∈ ns ∧ unregister r n = (unregState r n t ns, .ok) := by
  obtain ⟨ns, h0, hin, _, _⟩ := unregister_ok hi hl
  refine ⟨ns, h0, hin, ?_⟩
  unfold unregister unregState
  simp [hl, h0, hin]

theorem inv_unregState {lib0 : List (τ × Owner)} {r : Reg ν τ κ} (hi : Inv lib0 r) {n : ν} {c : κ} {t : τ}
    {ns : List ν} (hl : alookup n r.entries = some (c, t)) (h0 : alookup t r.tags = some ns) :
    Inv lib0 (unregState r n t ns) := by
  have htag := hi.tagOf n c t hl
  have ht : t = r.fmt n := htag.1
  have hnp : t ∉ r.prot := ht ▸ htag.2
  have hns := hi.tagsSome t ns h0
  have hfilt : ∀ a, a ∈ ns.filter (fun m => !decide (m = n)) ↔
      (a ∈ akeys (aerase n r.entries) ∧ r.fmt a = t) := by
    intro a
    simp only [List.mem_filter, Bool.not_eq_eq_eq_not, Bool.not_true, decide_eq_false_iff_not,
      mem_akeys_aerase]
    rw [hns.2 a]
    constructor
    · rintro ⟨⟨h1, h2⟩, h3⟩; exact ⟨⟨h3, h1⟩, h2⟩
    · rintro ⟨⟨h3, h1⟩, h2⟩; exact ⟨⟨h1, h2⟩, h3⟩
  refine
    { nodupE := nodup_akeys_aerase _ hi.nodupE
      tagOf := ?_, tagsNone := ?_, tagsSome := ?_, libC := ?_, libP := ?_ }
  · intro a c' t' hl'
    simp only [unregState, alookup_aerase] at hl'
    by_cases e : a = n
    · simp [e] at hl'
    · simp [e] at hl'; exact hi.tagOf a c' t' hl'
  · -- tagsNone
    intro t' hl' a ha
    simp only [unregState] at hl' ha
    by_cases et : t' = t
    · subst et
      by_cases hem : (ns.filter (fun m => !decide (m = n))).isEmpty = true
      · intro hf
        have : a ∈ ns.filter (fun m => !decide (m = n)) := (hfilt a).mpr ⟨ha, hf⟩
        rw [List.isEmpty_iff.mp hem] at this
        cases this
      · simp [hem, alookup_aset_self] at hl'
    · have hl'' : alookup t' r.tags = none := by
        split at hl'
        · simpa [alookup_aerase_ne _ et] using hl'
        · simpa [alookup_aset_ne _ _ et] using hl'
      exact hi.tagsNone t' hl'' a ((mem_akeys_aerase n a r.entries).mp ha).2
  · -- tagsSome
    intro t' ms hl'
    simp only [unregState] at hl' ⊢
    by_cases et : t' = t
    · subst et
      by_cases hem : (ns.filter (fun m => !decide (m = n))).isEmpty = true
      · simp [hem, alookup_aerase_self] at hl'
      · simp [hem, alookup_aset_self] at hl'
        subst hl'
        refine ⟨?_, hfilt⟩
        intro e
        exact hem (by simp [e])
    · have hl'' : alookup t' r.tags = some ms := by
        split at hl'
        · simpa [alookup_aerase_ne _ et] using hl'
        · simpa [alookup_aset_ne _ _ et] using hl'
      have := hi.tagsSome t' ms hl''
      refine ⟨this.1, ?_⟩
      intro a
      rw [this.2 a, mem_akeys_aerase]
      constructor
      · rintro ⟨h1, h2⟩
        refine ⟨⟨?_, h1⟩, h2⟩
        intro e; subst e; exact et (h2.symm.trans ht.symm)
      · rintro ⟨⟨_, h1⟩, h2⟩; exact ⟨h1, h2⟩
  · -- libC
    intro t' ht'
    have hused : Used (unregState r n t ns) t' ↔
        ∃ a, (a ≠ n ∧ a ∈ akeys r.entries) ∧ r.fmt a = t' := by
      simp only [Used, unregState, mem_akeys_aerase]
    rw [hused]
    have hold := hi.libC t' ht'
    simp only [unregState, hnp, if_false]
    by_cases et : t' = t
    · subst et
      by_cases hem : (ns.filter (fun m => !decide (m = n))).isEmpty = true
      · have hnone : ¬ ∃ a, (a ≠ n ∧ a ∈ akeys r.entries) ∧ r.fmt a = t' := by
          rintro ⟨a, ⟨h1, h2⟩, h3⟩
          have : a ∈ ns.filter (fun m => !decide (m = n)) :=
            (hfilt a).mpr ⟨(mem_akeys_aerase n a r.entries).mpr ⟨h1, h2⟩, h3⟩
          rw [List.isEmpty_iff.mp hem] at this
          cases this
        simp only [hem, Bool.true_and]
        constructor
        · intro hin
          exfalso
          by_cases hh : ahas t' r.lib = true
          · simp only [hh, if_true] at hin
            exact ((mem_akeys_aerase t' t' r.lib).mp hin).1 rfl
          · simp only [hh] at hin
            exact hh (by simpa [ahas] using (mem_akeys_iff t' r.lib).mp hin)
        · intro h; exact absurd h hnone
      · simp only [hem, Bool.false_and]
        have : ∃ a, a ∈ ns.filter (fun m => !decide (m = n)) := by
          cases hf : ns.filter (fun m => !decide (m = n)) with
          | nil => simp [hf] at hem
          | cons x xs => exact ⟨x, by simp⟩
        obtain ⟨a, ha⟩ := this
        have ha' := (hfilt a).mp ha
        have hin : t' ∈ akeys r.lib :=
          hold.mpr ⟨n, mem_akeys_of_alookup hl, ht.symm⟩
        constructor
        · intro _
          exact ⟨a, (mem_akeys_aerase n a r.entries).mp ha'.1, ha'.2⟩
        · intro _; simpa using hin
    · have hmem : t' ∈ akeys (if ((ns.filter (fun m => !decide (m = n))).isEmpty && ahas t r.lib) = true
            then aerase t r.lib else r.lib) ↔ t' ∈ akeys r.lib := by
        split
        · rw [mem_akeys_aerase]; simp [et]
        · rfl
      rw [hmem, hold]
      simp only [Used]
      constructor
      · rintro ⟨a, h1, h2⟩
        refine ⟨a, ⟨?_, h1⟩, h2⟩
        intro e; subst e; exact et (h2.symm.trans ht.symm)
      · rintro ⟨a, ⟨_, h1⟩, h2⟩; exact ⟨a, h1, h2⟩
  · -- libP
    intro t' ht'
    have hne : t' ≠ t := fun e => hnp (e ▸ ht')
    simp only [unregState, hnp, if_false]
    split
    · rw [alookup_aerase_ne _ hne]; exact hi.libP t' ht'
    · exact hi.libP t' ht'

theorem inv_unregister {lib0 : List (τ × Owner)} {r : Reg ν τ κ} (hi : Inv lib0 r) (n : ν) :
    Inv lib0 (unregister r n).1 := by
  cases hl : alookup n r.entries with
  | none => simpa [unregister, hl] using hi
  | some p =>
    obtain ⟨c, t⟩ := p
    obtain ⟨ns, h0, _, heq⟩ := unregister_eq hi hl
    rw [heq]
    exact inv_unregState hi hl h0

/-- The internal `KeyError` of `self._tags[tag].remove(name)` is unreachable. -/
theorem unregister_out {lib0 : List (τ × Owner)} {r : Reg ν τ κ} (hi : Inv lib0 r) (n : ν) :
    (unregister r n).2 = if (alookup n r.entries).isSome then Out.ok else Out.notRegistered := by
  cases hl : alookup n r.entries with
  | none => simp [unregister, hl]
  | some p =>
    obtain ⟨c, t⟩ := p
    obtain ⟨ns, _, _, heq⟩ := unregister_eq hi hl
    rw [heq]; simp

theorem unregister_entries {lib0 : List (τ × Owner)} {r : Reg ν τ κ} (hi : Inv lib0 r) (n : ν) :
    (unregister r n).1.entries = aerase n r.entries ∧
    (unregister r n).1.prot = r.prot ∧ (unregister r n).1.fmt = r.fmt := by
  cases hl : alookup n r.entries with
  | none =>
    simp [unregister, hl, aerase_of_not_mem hl]
  | some p =>
    obtain ⟨c, t⟩ := p
    obtain ⟨ns, _, _, heq⟩ := unregister_eq hi hl
    rw [heq]; simp [unregState]

/-! ### clear -/

theorem unregisterAll_spec {lib0 : List (τ × Owner)} (ns : List ν) :
    ∀ {r : Reg ν τ κ}, Inv lib0 r → ns.Nodup → (∀ n, n ∈ ns → n ∈ akeys r.entries) →
      (unregisterAll r ns).2 = Out.ok ∧ Inv lib0 (unregisterAll r ns).1 ∧
      (∀ m, m ∈ akeys (unregisterAll r ns).1.entries ↔ (m ∈ akeys r.entries ∧ m ∉ ns)) ∧
      (unregisterAll r ns).1.prot = r.prot ∧ (unregisterAll r ns).1.fmt = r.fmt := by
  induction ns with
  | nil => intro r hi _ _; simp [unregisterAll, hi]
  | cons n ns ih =>
    intro r hi hnd hsub
    have hn : n ∈ akeys r.entries := hsub n (by simp)
    have hout := unregister_out hi n
    have hsome : (alookup n r.entries).isSome = true := (mem_akeys_iff n r.entries).mp hn
    rw [hsome] at hout
    simp only [if_true] at hout
    have hent := unregister_entries hi n
    have hi' := inv_unregister hi n
    have hnd' := (List.nodup_cons.mp hnd)
    have hsub' : ∀ m, m ∈ ns → m ∈ akeys (unregister r n).1.entries := by
      intro m hm
      rw [hent.1, mem_akeys_aerase]
      refine ⟨?_, hsub m (by simp [hm])⟩
      intro e; subst e; exact hnd'.1 hm
    have := ih hi' hnd'.2 hsub'
    have hstep : unregisterAll r (n :: ns) = unregisterAll (unregister r n).1 ns := by
      rw [unregisterAll]
      generalize hu : unregister r n = u at hout
      obtain ⟨r', o⟩ := u
      simp at hout; subst hout; rfl
    rw [hstep]
    refine ⟨this.1, this.2.1, ?_, ?_, ?_⟩
    · intro m
      rw [this.2.2.1 m, hent.1, mem_akeys_aerase]
      simp only [List.mem_cons, not_or]
      constructor
      · rintro ⟨⟨h1, h2⟩, h3⟩; exact ⟨h2, h1, h3⟩
      · rintro ⟨h2, h1, h3⟩; exact ⟨⟨h1, h2⟩, h3⟩
    · rw [this.2.2.2.1, hent.2.1]
    · rw [this.2.2.2.2, hent.2.2]

theorem clear_spec {lib0 : List (τ × Owner)} {r : Reg ν τ κ} (hi : Inv lib0 r) :
    (clear r).2 = Out.ok ∧ Inv lib0 (clear r).1 ∧ (clear r).1.entries = [] := by
  have h := unregisterAll_spec (lib0 := lib0) (akeys r.entries) hi hi.nodupE (fun _ h => h)
  unfold clear
  generalize hu : unregisterAll r (akeys r.entries) = u at h
  obtain ⟨r', o⟩ := u
  simp only at h
  obtain ⟨ho, hi', hk, _, _⟩ := h
  subst ho
  simp only [true_and, and_true]
  have hempty : akeys r'.entries = [] := by
    apply List.eq_nil_iff_forall_not_mem.mpr
    intro m hm
    exact ((hk m).mp hm).2 ((hk m).mp hm).1
  exact
    { nodupE := by simp [akeys]
      tagOf := by simp
      tagsNone := by simp [akeys]
      tagsSome := by simp
      libC := by
        intro t ht
        have := hi'.libC t ht
        simp only [Used, hempty, List.not_mem_nil, false_and, exists_false, iff_false] at this
        simp only [Used, akeys, List.map_nil, List.not_mem_nil, false_and, exists_false, iff_false]
        exact this
      libP := hi'.libP }

theorem inv_step {lib0 : List (τ × Owner)} {r : Reg ν τ κ} (hi : Inv lib0 r) (op : Op ν κ) :
    Inv lib0 (step r op).1 := by
  cases op with
  | register n c => exact inv_register hi n c
  | unregister n => exact inv_unregister hi n
  | get n => exact hi
  | all => exact hi
  | clear => exact (clear_spec hi).2.1

theorem inv_run {lib0 : List (τ × Owner)} (ops : List (Op ν κ)) :
    ∀ {r : Reg ν τ κ}, Inv lib0 r → Inv lib0 (run r ops) := by
  induction ops with
  | nil => intro r hi; exact hi
  | cons op ops ih => intro r hi; exact ih (inv_step hi op)

theorem step_static (r : Reg ν τ κ) (op : Op ν κ) {lib0 : List (τ × Owner)} (hi : Inv lib0 r) :
    (step r op).1.prot = r.prot ∧ (step r op).1.fmt = r.fmt := by
  cases op with
  | register n c =>
    simp only [step, register, registerLib]
    cases alookup n r.entries with
    | none => simp only; split <;> simp
    | some p => simp only; split <;> (try split) <;> simp
  | unregister n => exact (unregister_entries hi n).2
  | get n => simp [step]
  | all => simp [step]
  | clear =>
    have h := unregisterAll_spec (lib0 := lib0) (akeys r.entries) hi hi.nodupE (fun _ h => h)
    simp only [step, clear]
    generalize unregisterAll r (akeys r.entries) = u at h
    obtain ⟨r', o⟩ := u
    obtain ⟨ho, _, _, h1, h2⟩ := h
    simp only at ho h1 h2
    subst ho
    exact ⟨h1, h2⟩

/-! ### refinement to the dictionary -/

theorem all_aset (n : ν) (c : κ) (t : τ) (es : List (ν × (κ × τ))) :
    (aset n (c, t) es).map (fun e => (e.1, e.2.1)) = aset n c (es.map (fun e => (e.1, e.2.1))) := by
  induction es with
  | nil => simp [aset]
  | cons p es ih =>
    obtain ⟨k, c', t'⟩ := p
    by_cases h : k = n <;> simp [aset, h, ih]

theorem all_aerase (n : ν) (es : List (ν × (κ × τ))) :
    (aerase n es).map (fun e => (e.1, e.2.1)) = aerase n (es.map (fun e => (e.1, e.2.1))) := by
  induction es with
  | nil => simp [aerase]
  | cons p es ih =>
    obtain ⟨k, c', t'⟩ := p
    by_cases h : k = n <;> simp [aerase, h, ih]

theorem alookup_all (n : ν) (es : List (ν × (κ × τ))) :
    alookup n (es.map (fun e => (e.1, e.2.1))) = (alookup n es).map Prod.fst := by
  induction es with
  | nil => simp [alookup]
  | cons p es ih =>
    obtain ⟨k, c', t'⟩ := p
    by_cases h : k = n <;> simp [alookup, h, ih]

/-- One step of the registry is one step of the dictionary. -/
theorem step_refines {lib0 : List (τ × Owner)} {r : Reg ν τ κ} (hi : Inv lib0 r) (op : Op ν κ) :
    (step r op).2 = (dstep (fun t => decide (t ∈ r.prot)) r.fmt (all r) op).2 ∧
    all (step r op).1 = (dstep (fun t => decide (t ∈ r.prot)) r.fmt (all r) op).1 := by
  cases op with
  | get n =>
    simp only [step, dstep, Model.Registry.get, all, alookup_all]
    cases alookup n r.entries <;> simp
  | all => simp [step, dstep]
  | clear =>
    have := clear_spec hi
    simp [step, dstep, this.1, all, this.2.2]
  | unregister n =>
    have ho := unregister_out hi n
    have he := (unregister_entries hi n).1
    simp only [step, dstep, all, alookup_all, he, all_aerase, ho]
    cases hl : alookup n r.entries with
    | none => simp [← all_aerase, aerase_of_not_mem hl]
    | some p => simp
  | register n c =>
    simp only [step, dstep, register, registerLib, all, alookup_all]
    cases hl : alookup n r.entries with
    | none =>
      simp only [Option.map_none]
      by_cases hp : r.fmt n ∈ r.prot
      · simp [hp]
      · simp [hp, all_aset]
    | some p =>
      obtain ⟨c', t⟩ := p
      simp only [Option.map_some]
      by_cases hc : c' = c
      · subst hc
        have htag := hi.tagOf n c' t hl
        simp only [ne_eq, not_true_eq_false, if_false, htag.2, decide_false, Bool.false_eq_true,
          true_and]
        rw [← htag.1, aset_same hl]
      · simp [hc]

end Djc.Proofs.Registry
