import Djc.Model.Finder
namespace Djc.Proofs.Finder
open Djc.Model.Finder

theorem matchesSuffix_iff (s p : List Char) (hnl : '\n' ∉ p) :
    matchesSuffix s p = true ↔ s <:+ p := by
  have : endsBeforeFinalNewline s p = false := by
    unfold endsBeforeFinalNewline
    cases hl : p.getLast? with
    | none => rfl
    | some c =>
      by_cases hc : c = '\n'
      · subst hc
        exact absurd (List.mem_of_getLast? hl) hnl
      · split
        · rename_i h; simp at h; exact absurd h hc
        · rfl
  unfold matchesSuffix
  rw [this, Bool.or_false]
  exact List.isSuffixOf_iff_suffix

/-- A suffix without '/' cannot tell a path from the same path below some directory. -/
theorem suffix_below_dir (s pre rel : List Char) (hs : '/' ∉ s) :
    s <:+ pre ++ '/' :: rel ↔ s <:+ rel := by
  constructor
  · intro h
    have h2 : ('/' :: rel) <:+ pre ++ '/' :: rel := List.suffix_append _ _
    rcases List.suffix_or_suffix_of_suffix h h2 with h3 | h3
    · rcases List.suffix_cons_iff.mp h3 with h4 | h4
      · exact absurd (h4 ▸ List.mem_cons_self) hs
      · exact h4
    · exact absurd (h3.mem List.mem_cons_self) hs
  · intro h
    exact h.trans ((List.suffix_cons _ _).trans (List.suffix_append _ _))

theorem normalize_clean (rest : List (List Char)) :
    ∀ acc : List (List Char),
      (∀ c ∈ acc, c ≠ [] ∧ c ≠ ['.'] ∧ c ≠ ['.', '.']) →
      ∀ c ∈ normalize acc rest, c ≠ [] ∧ c ≠ ['.'] ∧ c ≠ ['.', '.'] := by
  induction rest with
  | nil => intro acc h c hc; simp [normalize] at hc; exact h c hc
  | cons x xs ih =>
    intro acc h c hc
    simp only [normalize] at hc
    split at hc
    · exact ih acc h c hc
    · split at hc
      · refine ih acc.tail ?_ c hc
        intro d hd; exact h d (List.mem_of_mem_tail hd)
      · rename_i h1 h2
        refine ih (x :: acc) ?_ c hc
        intro d hd
        rcases List.mem_cons.mp hd with e | e
        · subst e
          exact ⟨fun e => h1 (Or.inl e), fun e => h1 (Or.inr e), h2⟩
        · exact h d e

theorem normalize_of_clean (f : List (List Char))
    (hf : ∀ c ∈ f, c ≠ [] ∧ c ≠ ['.'] ∧ c ≠ ['.', '.']) :
    ∀ acc : List (List Char), normalize acc f = acc.reverse ++ f := by
  induction f with
  | nil => intro acc; simp [normalize]
  | cons x xs ih =>
    intro acc
    have hx := hf x (by simp)
    have : ¬ (x = [] ∨ x = ['.']) := by
      intro h; rcases h with h | h
      · exact hx.1 h
      · exact hx.2.1 h
    simp only [normalize, this, hx.2.2, if_false]
    rw [ih (fun c hc => hf c (by simp [hc]))]
    simp

theorem joinPath_append (a b : List (List Char)) : joinPath (a ++ b) = joinPath a ++ joinPath b := by
  induction a with
  | nil => rfl
  | cons x xs ih => simp [joinPath, ih]

theorem joinPath_cons (c : List Char) (f : List (List Char)) :
    joinPath (c :: f) = '/' :: (c ++ joinPath f) := rfl

theorem any_congr' {α : Type} (l : List α) (f g : α → Bool) (h : ∀ a ∈ l, f a = g a) :
    l.any f = l.any g := by
  induction l with
  | nil => rfl
  | cons x xs ih =>
    simp only [List.any_cons, h x (by simp), ih (fun a ha => h a (by simp [ha]))]

theorem all_congr' {α : Type} (l : List α) (f g : α → Bool) (h : ∀ a ∈ l, f a = g a) :
    l.all f = l.all g := by
  induction l with
  | nil => rfl
  | cons x xs ih =>
    simp only [List.all_cons, h x (by simp), ih (fun a ha => h a (by simp [ha]))]

theorem safeJoin_some {root : List (List Char)} {abs : Bool} {path q : List (List Char)}
    (hroot : ∀ c ∈ root, c ≠ [] ∧ c ≠ ['.'] ∧ c ≠ ['.', '.'])
    (h : safeJoin root abs path = some q) :
    root <+: q ∧ ∀ c ∈ q, c ≠ [] ∧ c ≠ ['.'] ∧ c ≠ ['.', '.'] := by
  cases abs with
  | true =>
    simp only [safeJoin, if_true] at h
    by_cases hp : root.isPrefixOf (normalize [] path) = true
    · simp only [hp, if_true] at h
      cases h
      exact ⟨List.isPrefixOf_iff_prefix.mp hp, normalize_clean path [] (by simp)⟩
    · simp [hp] at h
  | false =>
    simp only [safeJoin, Bool.false_eq_true, if_false] at h
    by_cases hp : root.isPrefixOf (normalize root.reverse path) = true
    · simp only [hp, if_true] at h
      cases h
      exact ⟨List.isPrefixOf_iff_prefix.mp hp,
        normalize_clean path root.reverse (by intro c hc; exact hroot c (List.mem_reverse.mp hc))⟩
    · simp [hp] at h

end Djc.Proofs.Finder
