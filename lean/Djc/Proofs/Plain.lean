/-
  The plain fragment of the template calculus (text, `{{ }}`, if, for, with, elements): a pure
  reference interpreter `pNodes`, and the proofs that on this fragment *both* interpreters — the
  model of the code (`Djc.Render.renderNodes`) and the reading of the properties
  (`Djc.SpecRender.sNodes`) — are this same function of the context, for every fuel, every node
  list, every context without slot references and every world / state.
-/
import Djc.Model.Render
import Djc.Spec.Render
namespace Djc.Proofs.Plain
open Djc.Tpl Djc.Render

/-! ### values without slot references -/

mutual
  def slotFree : Val → Bool
    | .slotRef _ _ => false
    | .list xs => slotFreeList xs
    | .dict kvs => slotFreeKvs kvs
    | .injected kvs => slotFreeKvs kvs
    | _ => true
  def slotFreeList : List Val → Bool
    | [] => true
    | v :: vs => slotFree v && slotFreeList vs
  def slotFreeKvs : List (Str × Val) → Bool
    | [] => true
    | (_, v) :: kvs => slotFree v && slotFreeKvs kvs
end

def ctxFree (ctx : Ctx) : Bool := ctx.all slotFreeKvs

theorem lookupL_free (k : Str) : ∀ (l : Layer) (v : Val), slotFreeKvs l = true → lookupL k l = some v → slotFree v = true
  | [], _, _, h => by simp [lookupL] at h
  | (k', v') :: rest, v, hf, h => by
    simp only [slotFreeKvs, Bool.and_eq_true] at hf
    unfold lookupL at h
    split at h
    · cases h; exact hf.1
    · exact lookupL_free k rest v hf.2 h

theorem ctxGet_free_aux (k : Str) : ∀ (ctx : Ctx) (acc : Option Val) (v : Val), ctxFree ctx = true →
    (∀ a, acc = some a → slotFree a = true) →
    ctx.foldl (fun acc l => match lookupL k l with | some v => some v | Option.none => acc) acc = some v →
    slotFree v = true
  | [], acc, v, _, ha, h => ha v (by simpa using h)
  | l :: rest, acc, v, hf, ha, h => by
    simp only [ctxFree, List.all_cons, Bool.and_eq_true] at hf
    simp only [List.foldl_cons] at h
    refine ctxGet_free_aux k rest _ v (by simpa [ctxFree] using hf.2) ?_ h
    intro a hacc
    cases hl : lookupL k l with
    | none => rw [hl] at hacc; exact ha a hacc
    | some b => rw [hl] at hacc; cases hacc; exact lookupL_free k l a hf.1 hl

theorem ctxGet_free (ctx : Ctx) (k : Str) (v : Val) (hf : ctxFree ctx = true) (h : ctxGet ctx k = some v) :
    slotFree v = true :=
  ctxGet_free_aux k ctx Option.none v hf (by intro a ha; cases ha) h

theorem getField_free (v : Val) (f : Str) (v' : Val) (hf : slotFree v = true) (h : getField v f = some v') :
    slotFree v' = true := by
  cases v with
  | dict kvs => exact lookupL_free f kvs v' (by simpa [slotFree] using hf) (by simpa [getField] using h)
  | injected kvs => exact lookupL_free f kvs v' (by simpa [slotFree] using hf) (by simpa [getField] using h)
  | isFilled names =>
    simp only [getField] at h
    split at h <;> cases h <;> simp [slotFree]
  | _ => simp [getField] at h

theorem evalPath_free_aux : ∀ (fs : List Str) (acc : Option Val) (v : Val),
    (∀ a, acc = some a → slotFree a = true) →
    fs.foldl (fun acc f => acc.bind (fun v => getField v f)) acc = some v → slotFree v = true
  | [], acc, v, ha, h => ha v (by simpa using h)
  | f :: fs, acc, v, ha, h => by
    simp only [List.foldl_cons] at h
    refine evalPath_free_aux fs _ v ?_ h
    intro a hacc
    cases acc with
    | none => simp at hacc
    | some b => exact getField_free b f a (ha b rfl) (by simpa using hacc)

theorem evalExpr_free (ctx : Ctx) (e : Expr) (hf : ctxFree ctx = true) : slotFree (evalExpr ctx e) = true := by
  cases e with
  | lit s => simp [evalExpr, slotFree]
  | var p =>
    simp only [evalExpr]
    cases h : evalPath ctx p with
    | none => simp [slotFree]
    | some v =>
      simp only [Option.getD_some]
      cases p with
      | nil => simp [evalPath] at h
      | cons n fs =>
        simp only [evalPath] at h
        exact evalPath_free_aux fs _ v (fun a ha => ctxGet_free ctx n a hf ha) h

theorem slotFreeList_mem : ∀ (xs : List Val), slotFreeList xs = true → ∀ x ∈ xs, slotFree x = true
  | [], _, x, hx => by cases hx
  | v :: vs, h, x, hx => by
    simp only [slotFreeList, Bool.and_eq_true] at h
    rcases List.mem_cons.mp hx with rfl | hx
    · exact h.1
    · exact slotFreeList_mem vs h.2 x hx

theorem slotFreeKvs_vals : ∀ (kvs : List (Str × Val)), slotFreeKvs kvs = true → ∀ x ∈ kvs.map (fun kv => kv.2), slotFree x = true
  | [], _, x, hx => by cases hx
  | (k, v) :: rest, h, x, hx => by
    simp only [slotFreeKvs, Bool.and_eq_true] at h
    simp only [List.map_cons, List.mem_cons] at hx
    rcases hx with rfl | hx
    · exact h.1
    · exact slotFreeKvs_vals rest h.2 x hx

theorem iterVals_free (v : Val) (hf : slotFree v = true) : ∀ x ∈ iterVals v, slotFree x = true := by
  cases v with
  | list xs => exact slotFreeList_mem xs (by simpa [slotFree] using hf)
  | str s => intro x hx; simp only [iterVals, List.mem_map] at hx; obtain ⟨c, _, rfl⟩ := hx; simp [slotFree]
  | dict kvs => intro x hx; simp only [iterVals, List.mem_map] at hx; obtain ⟨c, _, rfl⟩ := hx; simp [slotFree]
  | injected kvs => exact slotFreeKvs_vals kvs (by simpa [slotFree] using hf)
  | _ => intro x hx; simp [iterVals] at hx

theorem forLayer_free (ctx : Ctx) (x : Str) (i : Nat) (item : Val) (hf : ctxFree ctx = true) (hi : slotFree item = true) :
    slotFreeKvs (forLayer ctx x i item) = true := by
  have hp : slotFree ((ctxGet ctx forloopKey).getD (.dict [])) = true := by
    cases h : ctxGet ctx forloopKey with
    | none => simp [slotFree, slotFreeKvs]
    | some v => simpa using ctxGet_free ctx forloopKey v hf h
  simp [forLayer, slotFreeKvs, slotFree, hp, hi]

theorem ctxFree_push (ctx : Ctx) (l : Layer) (hf : ctxFree ctx = true) (hl : slotFreeKvs l = true) :
    ctxFree (ctx ++ [l]) = true := by
  simp only [ctxFree, List.all_append, List.all_cons, List.all_nil, Bool.and_true, Bool.and_eq_true] at *
  exact ⟨hf, hl⟩

/-! ### the plain fragment -/

mutual
  def plain : Node → Bool
    | .text _ => true
    | .out _ => true
    | .ifn _ t e => plainL t && plainL e
    | .forn _ _ b => plainL b
    | .withn _ _ b => plainL b
    | .elem _ b => plainL b
    | _ => false
  def plainL : List Node → Bool
    | [] => true
    | nd :: rest => plain nd && plainL rest
end

/-- result and step counter -/
abbrev PR := Except Err (List Tok) × Nat

def pbind (r : PR) (f : List Tok → Nat → PR) : PR :=
  match r with
  | (.ok a, st) => f a st
  | (.error e, st) => (.error e, st)

mutual
  def pNodes (mx : Nat) : Nat → List Node → Ctx → Nat → PR
    | 0, _, _, st => (.error .outOfFuel, st)
    | _ + 1, [], _, st => (.ok [], st)
    | n + 1, nd :: rest, ctx, st =>
      pbind (pNode mx n nd ctx st) fun a st1 =>
      pbind (pNodes mx n rest ctx st1) fun b st2 => (.ok (a ++ b), st2)

  def pFor (mx : Nat) : Nat → Str → List Val → Nat → List Node → Ctx → Nat → PR
    | 0, _, _, _, _, _, st => (.error .outOfFuel, st)
    | _ + 1, _, [], _, _, _, st => (.ok [], st)
    | n + 1, x, item :: items, i, body, ctx, st =>
      pbind (pNodes mx n body (ctx ++ [forLayer ctx x i item]) st) fun a st1 =>
      pbind (pFor mx n x items (i + 1) body ctx st1) fun b st2 => (.ok (a ++ b), st2)

  def pNode (mx : Nat) : Nat → Node → Ctx → Nat → PR
    | 0, _, _, st => (.error .outOfFuel, st)
    | n + 1, nd, ctx, st =>
      if st ≥ mx then (.error .budget, st) else
      match nd with
      | .text s => (.ok [.text s], st + 1)
      | .out e => (.ok [.text (pyStr (evalExpr ctx e))], st + 1)
      | .ifn c t e => if truthy (evalExpr ctx c) then pNodes mx n t ctx (st + 1) else pNodes mx n e ctx (st + 1)
      | .forn x e body => pFor mx n x (iterVals (evalExpr ctx e)) 0 body ctx (st + 1)
      | .withn x e body => pNodes mx n body (ctx ++ [[(x, evalExpr ctx e)]]) (st + 1)
      | .elem tag body =>
        pbind (pNodes mx n body ctx (st + 1)) fun inner st' => (.ok ([.opn tag []] ++ inner ++ [.cls tag]), st')
      | _ => (.error (.runtime "not plain"), st + 1)
end


/-! ### the model of the code on the plain fragment -/

theorem run_pure {α} (a : α) (w : World) : (pure a : M α).run.run w = (.ok a, w) := rfl
theorem run_throw {α} (e : Err) (w : World) : (throw e : M α).run.run w = (.error e, w) := rfl
theorem run_get (w : World) : (get : M World).run.run w = (.ok w, w) := rfl
theorem run_set (w' w : World) : (set w' : M PUnit).run.run w = (.ok ⟨⟩, w') := rfl
theorem run_bind {α β} (x : M α) (f : α → M β) (w : World) :
    (x >>= f).run.run w = match x.run.run w with
      | (.ok a, w') => (f a).run.run w'
      | (.error e, w') => (.error e, w') := by
  simp only [bind, ExceptT.bind, ExceptT.mk, ExceptT.run, StateT.bind, StateT.run, ExceptT.bindCont]
  cases h : x w with
  | mk r w' => cases r <;> simp <;> rfl

def setSteps (w : World) (st : Nat) : World := { w with steps := st }
@[simp] theorem setSteps_steps (w : World) (st : Nat) : (setSteps w st).steps = st := rfl
@[simp] theorem setSteps_setSteps (w : World) (a b : Nat) : setSteps (setSteps w a) b = setSteps w b := rfl
@[simp] theorem setSteps_self (w : World) : setSteps w w.steps = w := rfl
/-- what a run of the model of the code looks like on the plain fragment: the tokens / error of the reference
interpreter, and the world unchanged but for the step counter -/
def asWorld (w : World) (r : PR) : Except Err (List Tok) × World := (r.1, setSteps w r.2)
@[simp] theorem asWorld_ok (w : World) (a : List Tok) (st : Nat) : asWorld w (.ok a, st) = (.ok a, setSteps w st) := rfl
@[simp] theorem asWorld_error (w : World) (e : Err) (st : Nat) : asWorld w (.error e, st) = (.error e, setSteps w st) := rfl
@[simp] theorem asWorld_setSteps (w : World) (a : Nat) (r : PR) : asWorld (setSteps w a) r = asWorld w r := rfl

theorem run_bind_as (x : M (List Tok)) (f : List Tok → M (List Tok)) (w : World) (r : PR) (g : List Tok → Nat → PR)
    (hx : x.run.run w = asWorld w r)
    (hf : ∀ a st, (f a).run.run (setSteps w st) = asWorld w (g a st)) :
    (x >>= f).run.run w = asWorld w (pbind r g) := by
  rw [run_bind, hx]
  rcases r with ⟨r, st⟩
  cases r with
  | error e => rfl
  | ok a => simpa [pbind] using hf a st

theorem model_plain (env : Env) : ∀ n,
    (∀ nodes ctx w, plainL nodes = true → ctxFree ctx = true →
      (renderNodes env n nodes ctx).run.run w = asWorld w (pNodes env.maxSteps n nodes ctx w.steps)) ∧
    (∀ x items i body ctx w, plainL body = true → ctxFree ctx = true → (∀ it ∈ items, slotFree it = true) →
      (renderFor env n x items i body ctx).run.run w = asWorld w (pFor env.maxSteps n x items i body ctx w.steps)) ∧
    (∀ nd ctx w, plain nd = true → ctxFree ctx = true →
      (renderNode env n nd ctx).run.run w = asWorld w (pNode env.maxSteps n nd ctx w.steps)) := by
  intro n
  induction n with
  | zero =>
    refine ⟨?_, ?_, ?_⟩
    · intro nodes ctx w _ _; simp only [renderNodes, pNodes, run_throw]; rfl
    · intro x items i body ctx w _ _ _; simp only [renderFor, pFor, run_throw]; rfl
    · intro nd ctx w _ _; simp only [renderNode, pNode, run_throw]; rfl
  | succ n ih =>
    obtain ⟨ihN, ihF, ihD⟩ := ih
    have ihN' : ∀ nodes ctx w st, plainL nodes = true → ctxFree ctx = true →
        (renderNodes env n nodes ctx).run.run (setSteps w st) = asWorld w (pNodes env.maxSteps n nodes ctx st) := by
      intro nodes ctx w st hp hc; simpa using ihN nodes ctx (setSteps w st) hp hc
    have ihF' : ∀ x items i body ctx w st, plainL body = true → ctxFree ctx = true → (∀ it ∈ items, slotFree it = true) →
        (renderFor env n x items i body ctx).run.run (setSteps w st) = asWorld w (pFor env.maxSteps n x items i body ctx st) := by
      intro x items i body ctx w st hp hc hi; simpa using ihF x items i body ctx (setSteps w st) hp hc hi
    refine ⟨?_, ?_, ?_⟩
    · intro nodes ctx w hp hc
      cases nodes with
      | nil => simp only [renderNodes, pNodes, run_pure]; rfl
      | cons nd rest =>
        simp only [plainL, Bool.and_eq_true] at hp
        simp only [renderNodes, pNodes]
        refine run_bind_as _ _ _ _ _ (ihD nd ctx w hp.1 hc) ?_
        intro a st1
        refine run_bind_as _ _ _ _ _ (ihN' rest ctx w st1 hp.2 hc) ?_
        intro b st2
        rfl
    · intro x items i body ctx w hp hc hi
      cases items with
      | nil => simp only [renderFor, pFor, run_pure]; rfl
      | cons item items =>
        simp only [renderFor, pFor]
        have hit := hi item (List.mem_cons_self ..)
        refine run_bind_as _ _ _ _ _ (ihN body _ w hp (ctxFree_push ctx _ hc (forLayer_free ctx x i item hc hit))) ?_
        intro a st1
        refine run_bind_as _ _ _ _ _ (ihF' x items (i + 1) body ctx w st1 hp hc (fun it h => hi it (List.mem_cons_of_mem _ h))) ?_
        intro b st2
        rfl
    · intro nd ctx w hp hc
      unfold renderNode pNode
      simp only [run_bind, run_get]
      by_cases hst : w.steps ≥ env.maxSteps
      · simp only [hst, if_true, run_bind, run_throw]; rfl
      · simp only [hst, if_false, run_bind, run_set]
        cases nd with
        | text s => rfl
        | out e =>
          have hv := evalExpr_free ctx e hc
          simp only
          cases hev : evalExpr ctx e <;> simp only [hev, slotFree] at hv ⊢ <;> first | rfl | cases hv
        | ifn c t e =>
          simp only [plain, Bool.and_eq_true] at hp
          simp only
          split
          · exact ihN' t ctx w _ hp.1 hc
          · exact ihN' e ctx w _ hp.2 hc
        | forn x e body =>
          simp only [plain] at hp
          exact ihF' x _ 0 body ctx w _ hp hc (iterVals_free _ (evalExpr_free ctx e hc))
        | withn x e body =>
          simp only [plain] at hp
          refine ihN' body _ w _ hp (ctxFree_push ctx _ hc ?_)
          simp [slotFreeKvs, evalExpr_free ctx e hc]
        | elem tag body =>
          simp only [plain] at hp
          refine run_bind_as _ _ _ _ _ (ihN' body ctx w _ hp hc) ?_
          intro a st1
          rfl
        | _ => simp [plain] at hp

/-! ### the reading of the properties on the plain fragment -/

open Djc.SpecRender

theorem srun_pure {α} (a : α) (s : SState) : (pure a : S α).run s = .ok (a, s) := rfl
theorem srun_throw {α} (e : Err) (s : SState) : (throw e : S α).run s = .error e := rfl
theorem srun_get (s : SState) : (get : S SState).run s = .ok (s, s) := rfl
theorem srun_set (s' s : SState) : (set s' : S PUnit).run s = .ok (⟨⟩, s') := rfl
theorem srun_bind {α β} (x : S α) (f : α → S β) (s : SState) :
    (x >>= f).run s = match x.run s with
      | .ok (a, s') => (f a).run s'
      | .error e => .error e := by
  simp only [bind, StateT.bind, StateT.run, Except.bind]
  cases h : x s with
  | error e => rfl
  | ok p => rfl

def setStepsS (s : SState) (st : Nat) : SState := { s with steps := st }
@[simp] theorem setStepsS_steps (s : SState) (st : Nat) : (setStepsS s st).steps = st := rfl
@[simp] theorem setStepsS_setStepsS (s : SState) (a b : Nat) : setStepsS (setStepsS s a) b = setStepsS s b := rfl
@[simp] theorem setStepsS_self (s : SState) : setStepsS s s.steps = s := rfl
/-- what a run of the reading of the properties looks like on the plain fragment -/
def asSpec (s : SState) (r : PR) : Except Err (List Tok × SState) :=
  match r with
  | (.ok a, st) => .ok (a, setStepsS s st)
  | (.error e, _) => .error e
@[simp] theorem asSpec_ok (s : SState) (a : List Tok) (st : Nat) : asSpec s (.ok a, st) = .ok (a, setStepsS s st) := rfl
@[simp] theorem asSpec_error (s : SState) (e : Err) (st : Nat) : asSpec s (.error e, st) = .error e := rfl
@[simp] theorem asSpec_setStepsS (s : SState) (a : Nat) (r : PR) : asSpec (setStepsS s a) r = asSpec s r := by
  rcases r with ⟨r, st⟩; cases r <;> rfl

theorem srun_bind_as (x : S (List Tok)) (f : List Tok → S (List Tok)) (s : SState) (r : PR) (g : List Tok → Nat → PR)
    (hx : x.run s = asSpec s r)
    (hf : ∀ a st, (f a).run (setStepsS s st) = asSpec s (g a st)) :
    (x >>= f).run s = asSpec s (pbind r g) := by
  rw [srun_bind, hx]
  rcases r with ⟨r, st⟩
  cases r with
  | error e => rfl
  | ok a => simpa [pbind] using hf a st

@[simp] theorem push_vars (e : SEnv) (l : Layer) : (e.push l).vars = e.vars ++ [l] := by
  cases e; rfl

theorem spec_plain (env : Env) : ∀ n,
    (∀ nodes (e : SEnv) s, plainL nodes = true → ctxFree e.vars = true →
      (sNodes env n nodes e).run s = asSpec s (pNodes env.maxSteps n nodes e.vars s.steps)) ∧
    (∀ x items i body (e : SEnv) s, plainL body = true → ctxFree e.vars = true → (∀ it ∈ items, slotFree it = true) →
      (sFor env n x items i body e).run s = asSpec s (pFor env.maxSteps n x items i body e.vars s.steps)) ∧
    (∀ nd (e : SEnv) s, plain nd = true → ctxFree e.vars = true →
      (sNode env n nd e).run s = asSpec s (pNode env.maxSteps n nd e.vars s.steps)) := by
  intro n
  induction n with
  | zero =>
    refine ⟨?_, ?_, ?_⟩
    · intro nodes e s _ _; simp only [sNodes, pNodes, srun_throw]; rfl
    · intro x items i body e s _ _ _; simp only [sFor, pFor, srun_throw]; rfl
    · intro nd e s _ _; simp only [sNode, pNode, srun_throw]; rfl
  | succ n ih =>
    obtain ⟨ihN, ihF, ihD⟩ := ih
    have ihN' : ∀ nodes (e : SEnv) s st, plainL nodes = true → ctxFree e.vars = true →
        (sNodes env n nodes e).run (setStepsS s st) = asSpec s (pNodes env.maxSteps n nodes e.vars st) := by
      intro nodes e s st hp hc; simpa using ihN nodes e (setStepsS s st) hp hc
    have ihF' : ∀ x items i body (e : SEnv) s st, plainL body = true → ctxFree e.vars = true → (∀ it ∈ items, slotFree it = true) →
        (sFor env n x items i body e).run (setStepsS s st) = asSpec s (pFor env.maxSteps n x items i body e.vars st) := by
      intro x items i body e s st hp hc hi; simpa using ihF x items i body e (setStepsS s st) hp hc hi
    refine ⟨?_, ?_, ?_⟩
    · intro nodes e s hp hc
      cases nodes with
      | nil => simp only [sNodes, pNodes, srun_pure]; rfl
      | cons nd rest =>
        simp only [plainL, Bool.and_eq_true] at hp
        simp only [sNodes, pNodes]
        refine srun_bind_as _ _ _ _ _ (ihD nd e s hp.1 hc) ?_
        intro a st1
        refine srun_bind_as _ _ _ _ _ (ihN' rest e s st1 hp.2 hc) ?_
        intro b st2
        rfl
    · intro x items i body e s hp hc hi
      cases items with
      | nil => simp only [sFor, pFor, srun_pure]; rfl
      | cons item items =>
        simp only [sFor, pFor]
        have hit := hi item (List.mem_cons_self ..)
        have h1 := ihN body (e.push (forLayer e.vars x i item)) s hp
          (by rw [push_vars]; exact ctxFree_push e.vars _ hc (forLayer_free e.vars x i item hc hit))
        rw [push_vars] at h1
        refine srun_bind_as _ _ _ _ _ h1 ?_
        intro a st1
        refine srun_bind_as _ _ _ _ _ (ihF' x items (i + 1) body e s st1 hp hc (fun it h => hi it (List.mem_cons_of_mem _ h))) ?_
        intro b st2
        rfl
    · intro nd e s hp hc
      unfold sNode pNode
      simp only [srun_bind, srun_get]
      by_cases hst : s.steps ≥ env.maxSteps
      · simp only [hst, if_true, srun_bind, srun_throw]; rfl
      · simp only [hst, if_false, srun_bind, srun_set]
        cases nd with
        | text s => rfl
        | out ex =>
          have hv := evalExpr_free e.vars ex hc
          simp only
          cases hev : evalExpr e.vars ex <;> simp only [hev, slotFree] at hv ⊢ <;> first | rfl | cases hv
        | ifn c t el =>
          simp only [plain, Bool.and_eq_true] at hp
          simp only
          split
          · exact ihN' t e s _ hp.1 hc
          · exact ihN' el e s _ hp.2 hc
        | forn x ex body =>
          simp only [plain] at hp
          exact ihF' x _ 0 body e s _ hp hc (iterVals_free _ (evalExpr_free e.vars ex hc))
        | withn x ex body =>
          simp only [plain] at hp
          have h1 := ihN' body (e.push [(x, evalExpr e.vars ex)]) s (s.steps + 1) hp
            (by rw [push_vars]; exact ctxFree_push e.vars _ hc (by simp [slotFreeKvs, evalExpr_free e.vars ex hc]))
          rw [push_vars] at h1
          exact h1
        | elem tag body =>
          simp only [plain] at hp
          refine srun_bind_as _ _ _ _ _ (ihN' body e s _ hp hc) ?_
          intro a st1
          rfl
        | _ => simp [plain] at hp

end Djc.Proofs.Plain
