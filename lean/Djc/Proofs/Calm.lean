/-
  The provider fragment: the plain fragment plus `{% provide %}` (no components, slots or fills).
  A reference interpreter `cNodes` that *ignores* the providers, and the proofs that
    * the model of the code, run in any context that differs from a clean one only by provider keys,
      prints what `cNodes` prints in the clean context, and leaves every registry of the world as it
      found it — on success, on running out of fuel and at the work budget (only the id counter and the
      step counter move);
    * the reading of the properties prints what `cNodes` prints.
-/
import Djc.Proofs.Plain
import Djc.Proofs.Render
namespace Djc.Proofs.Calm
open Djc.Tpl Djc.Render Djc.Proofs.Plain Djc.Proofs.Render

/-! ### the fragment -/

mutual
  def calm : Node → Bool
    | .text _ => true
    | .out _ => true
    | .ifn _ t e => calmL t && calmL e
    | .forn _ _ b => calmL b
    | .withn _ _ b => calmL b
    | .elem _ b => calmL b
    | .provide _ _ b => calmL b
    | _ => false
  def calmL : List Node → Bool
    | [] => true
    | nd :: rest => calm nd && calmL rest
end

/-- names no template can use: Django refuses variables that begin with `_`; the marks of the model begin with `\x00` -/
def internal (k : Str) : Bool :=
  match k with
  | c :: _ => c == '_' || c == '\x00'
  | [] => false

theorem internal_injectKey (key : Str) : internal (injectPrefix ++ key) = true := rfl

/-- the variable an expression starts from is one a template can name -/
def okExpr : Expr → Bool
  | .lit _ => true
  | .var [] => true
  | .var (n :: _) => !internal n

mutual
  def okNames : Node → Bool
    | .text _ => true
    | .out e => okExpr e
    | .ifn c t e => okExpr c && okNamesL t && okNamesL e
    | .forn _ e b => okExpr e && okNamesL b
    | .withn _ e b => okExpr e && okNamesL b
    | .elem _ b => okNamesL b
    | .provide _ _ b => okNamesL b
    | _ => true
  def okNamesL : List Node → Bool
    | [] => true
    | nd :: rest => okNames nd && okNamesL rest
end

mutual
  def cNodes (mx : Nat) : Nat → List Node → Ctx → Nat → PR
    | 0, _, _, st => (.error .outOfFuel, st)
    | _ + 1, [], _, st => (.ok [], st)
    | n + 1, nd :: rest, ctx, st =>
      pbind (cNode mx n nd ctx st) fun a st1 =>
      pbind (cNodes mx n rest ctx st1) fun b st2 => (.ok (a ++ b), st2)

  def cFor (mx : Nat) : Nat → Str → List Val → Nat → List Node → Ctx → Nat → PR
    | 0, _, _, _, _, _, st => (.error .outOfFuel, st)
    | _ + 1, _, [], _, _, _, st => (.ok [], st)
    | n + 1, x, item :: items, i, body, ctx, st =>
      pbind (cNodes mx n body (ctx ++ [forLayer ctx x i item]) st) fun a st1 =>
      pbind (cFor mx n x items (i + 1) body ctx st1) fun b st2 => (.ok (a ++ b), st2)

  def cNode (mx : Nat) : Nat → Node → Ctx → Nat → PR
    | 0, _, _, st => (.error .outOfFuel, st)
    | n + 1, nd, ctx, st =>
      if st ≥ mx then (.error .budget, st) else
      match nd with
      | .text s => (.ok [.text s], st + 1)
      | .out e => (.ok [.text (pyStr (evalExpr ctx e))], st + 1)
      | .ifn c t e => if truthy (evalExpr ctx c) then cNodes mx n t ctx (st + 1) else cNodes mx n e ctx (st + 1)
      | .forn x e body => cFor mx n x (iterVals (evalExpr ctx e)) 0 body ctx (st + 1)
      | .withn x e body => cNodes mx n body (ctx ++ [[(x, evalExpr ctx e)]]) (st + 1)
      | .elem tag body =>
        pbind (cNodes mx n body ctx (st + 1)) fun inner st' => (.ok ([.opn tag []] ++ inner ++ [.cls tag]), st')
      | .provide key _ body =>
        -- the provider is invisible: its body, in the same context
        if !isIdentifier key then (.error (.tse "provide key"), st + 1) else cNodes mx n body ctx (st + 1)
      | _ => (.error (.runtime "not in the fragment"), st + 1)
end

/-! ### contexts that differ by provider keys only -/

/-- every name a template can use resolves alike -/
def SameVars (a b : Ctx) : Prop := ∀ k, internal k = false → ctxGet a k = ctxGet b k

theorem sameVars_refl (a : Ctx) : SameVars a a := fun _ _ => rfl

theorem sameVars_push (a b : Ctx) (l : Layer) (h : SameVars a b) : SameVars (a ++ [l]) (b ++ [l]) := by
  intro k hk
  rw [ctxGet_append_one, ctxGet_append_one, h k hk]

theorem sameVars_push_inject (a b : Ctx) (k : Str) (v : Val) (hk : internal k = true) (h : SameVars a b) :
    SameVars (a ++ [[(k, v)]]) b := by
  intro x hx
  rw [ctxGet_append_one]
  have : k ≠ x := by intro e; subst e; rw [hk] at hx; cases hx
  simp [lookupL, this, h x hx]

theorem evalExpr_same (a b : Ctx) (e : Expr) (h : SameVars a b) (he : okExpr e = true) : evalExpr a e = evalExpr b e := by
  cases e with
  | lit s => rfl
  | var p =>
    cases p with
    | nil => rfl
    | cons n fs =>
      simp only [okExpr, Bool.not_eq_true'] at he
      simp only [evalExpr, evalPath, h n he]

theorem forLayer_same (a b : Ctx) (x : Str) (i : Nat) (item : Val) (h : SameVars a b) : forLayer a x i item = forLayer b x i item := by
  unfold forLayer
  rw [h forloopKey (by decide)]


/-! ### the model of the code on the provider fragment -/

theorem run_modify (f : World → World) (w : World) : (modify f : M PUnit).run.run w = (.ok ⟨⟩, f w) := rfl
theorem run_genId (w : World) : (genId).run.run w = (.ok w.nextId, { w with nextId := w.nextId + 1 }) := rfl
theorem run_liftW (f : WStep) (w : World) :
    (liftW f).run.run w = match f w with
      | (some e, w') => (.error e, w')
      | (none, w') => (.ok ⟨⟩, w') := by
  unfold liftW
  simp only [run_bind, run_get, run_set]
  rcases f w with ⟨r, w'⟩
  cases r <;> rfl
theorem run_tryCatch {α} (x : M α) (h : Err → M α) (w : World) :
    (tryCatch x h).run.run w = match x.run.run w with
      | (.ok a, w') => (.ok a, w')
      | (.error e, w') => (h e).run.run w' := by
  simp only [tryCatch, tryCatchThe, MonadExceptOf.tryCatch, ExceptT.tryCatch, ExceptT.mk, ExceptT.run, StateT.run, bind, StateT.bind]
  cases hx : x w with
  | mk r w' => cases r <;> simp <;> rfl

/-- the world after a run on the provider fragment: only the step counter and the id counter moved -/
def setSN (w : World) (st k : Nat) : World := { w with steps := st, nextId := w.nextId + k }
@[simp] theorem setSN_steps (w : World) (st k : Nat) : (setSN w st k).steps = st := rfl
@[simp] theorem setSN_nextId (w : World) (st k : Nat) : (setSN w st k).nextId = w.nextId + k := rfl
@[simp] theorem setSN_setSN (w : World) (a k b k' : Nat) : setSN (setSN w a k) b k' = setSN w b (k + k') := by
  simp [setSN, Nat.add_assoc]
theorem setSN_self (w : World) : setSN w w.steps 0 = w := rfl
def asN (w : World) (r : PR) (k : Nat) : Except Err (List Tok) × World := (r.1, setSN w r.2 k)
@[simp] theorem asN_ok (w : World) (a : List Tok) (st k : Nat) : asN w (.ok a, st) k = (.ok a, setSN w st k) := rfl
@[simp] theorem asN_error (w : World) (e : Err) (st k : Nat) : asN w (.error e, st) k = (.error e, setSN w st k) := rfl
@[simp] theorem asN_setSN (w : World) (a k : Nat) (r : PR) (k' : Nat) : asN (setSN w a k) r k' = asN w r (k + k') := by
  simp [asN]

/-- ids not handed out yet have no entry in the provider registries -/
def Fresh (w : World) : Prop := ∀ p, w.nextId ≤ p → alGet p w.provideCache = none ∧ alGet p w.provideRefs = none

theorem fresh_setSN (w : World) (st k : Nat) (h : Fresh w) : Fresh (setSN w st k) := by
  intro p hp
  exact h p (by simp at hp; omega)

theorem run_bind_asN (x : M (List Tok)) (f : List Tok → M (List Tok)) (wc w : World) (r : PR) (g : List Tok → Nat → PR)
    (hx : ∃ k, x.run.run wc = asN w r k)
    (hf : ∀ a st k, ∃ k', (f a).run.run (setSN w st k) = asN w (g a st) k') :
    ∃ k, (x >>= f).run.run wc = asN w (pbind r g) k := by
  obtain ⟨k, hx⟩ := hx
  rw [run_bind, hx]
  rcases r with ⟨r, st⟩
  cases r with
  | error e => exact ⟨k, rfl⟩
  | ok a => simpa [pbind] using hf a st k

theorem filter_not_contains_self (l : List Nat) : l.filter (fun r => !l.contains r) = [] := by
  simp [List.filter_eq_nil_iff]

theorem cleanup_lemma (pid : Nat) (payload : Layer) (w : World)
    (h1 : alGet pid w.provideCache = none) (h2 : alGet pid w.provideRefs = none) :
    cacheCleanupW pid (holdSelfW pid { w with provideCache := alSet pid payload w.provideCache }) = (none, w) := by
  unfold cacheCleanupW holdSelfW
  simp only [h2, Option.getD_none, List.contains_nil, List.nil_append, alGet_alSet_same]
  simp only [Bool.false_eq_true, if_false]
  have hf : ([pid].filter (· ≠ pid)) = [] := by simp
  simp only [hf, List.isEmpty_nil, if_true]
  unfold popProvideCacheW
  simp only [alHas, alGet_alSet_same, Option.isSome_some, if_true]
  have e1 : alDel pid (alSet pid ([] : List Nat) (alSet pid [pid] w.provideRefs)) = w.provideRefs := by
    have : alSet pid ([] : List Nat) (alSet pid [pid] w.provideRefs) = alSet pid [] w.provideRefs := by
      generalize w.provideRefs = l at h2
      induction l with
      | nil => simp [alSet]
      | cons a rest ih =>
        obtain ⟨ak, av⟩ := a
        by_cases hk : ak = pid
        · simp [alGet, hk] at h2
        · simp only [alGet, hk, if_false] at h2
          simp [alSet, hk, ih h2]
    rw [this, alDel_alSet_fresh _ _ _ h2]
  have e2 : alDel pid (alSet pid payload w.provideCache) = w.provideCache := alDel_alSet_fresh _ _ _ h1
  simp [e1, e2]

/-- the world in which a provider's body starts -/
def enterW (w : World) (payload : Layer) : World :=
  holdSelfW w.nextId { w with steps := w.steps + 1, nextId := w.nextId + 1, provideCache := alSet w.nextId payload w.provideCache }

theorem fresh_enterW (w : World) (payload : Layer) (h : Fresh w) : Fresh (enterW w payload) := by
  intro p hp
  have hp' : w.nextId + 1 ≤ p := hp
  have hne : p ≠ w.nextId := by omega
  obtain ⟨h1, h2⟩ := h p (by omega)
  constructor
  · show alGet p (alSet w.nextId payload w.provideCache) = none
    rw [alGet_alSet_ne _ _ _ _ (Ne.symm hne)]; exact h1
  · show alGet p (alSet w.nextId _ w.provideRefs) = none
    rw [alGet_alSet_ne _ _ _ _ (Ne.symm hne)]; exact h2

/-- leaving the provider after its body moved the counters only: everything is as before it was entered -/
theorem leave_after_body (w : World) (payload : Layer) (st k : Nat) (h : Fresh w) :
    cacheCleanupW w.nextId (setSN (enterW w payload) st k) = (none, setSN w st (k + 1)) := by
  obtain ⟨h1, h2⟩ := h w.nextId (Nat.le_refl _)
  have := cleanup_lemma w.nextId payload (setSN w st (k + 1)) h1 h2
  rw [← this]
  congr 1
  simp [setSN, enterW, holdSelfW]
  omega

theorem fail_after_body (w : World) (payload : Layer) (st k : Nat) (h : Fresh w) :
    provideFailW w.nextId w.allRefIds (setSN (enterW w payload) st k) = (none, setSN w st (k + 1)) := by
  unfold provideFailW
  have : (setSN (enterW w payload) st k).allRefIds = w.allRefIds := rfl
  rw [this, filter_not_contains_self]
  simp only [unregisterAllW]
  exact leave_after_body w payload st k h

theorem startsWith_injectKey (key : Str) : startsWith injectPrefix (injectPrefix ++ key) = true := by
  simp [startsWith]

theorem model_calm (env : Env) : ∀ n,
    (∀ nodes ctx c0 w, calmL nodes = true → okNamesL nodes = true → ctxFree ctx = true → SameVars ctx c0 → Fresh w →
      ∃ k, (renderNodes env n nodes ctx).run.run w = asN w (cNodes env.maxSteps n nodes c0 w.steps) k) ∧
    (∀ x items i body ctx c0 w, calmL body = true → okNamesL body = true → ctxFree ctx = true → SameVars ctx c0 → Fresh w →
      (∀ it ∈ items, slotFree it = true) →
      ∃ k, (renderFor env n x items i body ctx).run.run w = asN w (cFor env.maxSteps n x items i body c0 w.steps) k) ∧
    (∀ nd ctx c0 w, calm nd = true → okNames nd = true → ctxFree ctx = true → SameVars ctx c0 → Fresh w →
      ∃ k, (renderNode env n nd ctx).run.run w = asN w (cNode env.maxSteps n nd c0 w.steps) k) := by
  intro n
  induction n with
  | zero =>
    refine ⟨?_, ?_, ?_⟩
    · intro nodes ctx c0 w _ _ _ _ _; exact ⟨0, by simp only [renderNodes, cNodes, run_throw]; rfl⟩
    · intro x items i body ctx c0 w _ _ _ _ _ _; exact ⟨0, by simp only [renderFor, cFor, run_throw]; rfl⟩
    · intro nd ctx c0 w _ _ _ _ _; exact ⟨0, by simp only [renderNode, cNode, run_throw]; rfl⟩
  | succ n ih =>
    obtain ⟨ihN, ihF, ihD⟩ := ih
    have ihN' : ∀ nodes ctx c0 w st k, calmL nodes = true → okNamesL nodes = true → ctxFree ctx = true → SameVars ctx c0 → Fresh w →
        ∃ k', (renderNodes env n nodes ctx).run.run (setSN w st k) = asN w (cNodes env.maxSteps n nodes c0 st) k' := by
      intro nodes ctx c0 w st k hp ho hc hs hf
      obtain ⟨k', h⟩ := ihN nodes ctx c0 (setSN w st k) hp ho hc hs (fresh_setSN w st k hf)
      exact ⟨k + k', by simpa using h⟩
    have ihF' : ∀ x items i body ctx c0 w st k, calmL body = true → okNamesL body = true → ctxFree ctx = true → SameVars ctx c0 → Fresh w →
        (∀ it ∈ items, slotFree it = true) →
        ∃ k', (renderFor env n x items i body ctx).run.run (setSN w st k) = asN w (cFor env.maxSteps n x items i body c0 st) k' := by
      intro x items i body ctx c0 w st k hp ho hc hs hf hi
      obtain ⟨k', h⟩ := ihF x items i body ctx c0 (setSN w st k) hp ho hc hs (fresh_setSN w st k hf) hi
      exact ⟨k + k', by simpa using h⟩
    refine ⟨?_, ?_, ?_⟩
    · intro nodes ctx c0 w hp ho hc hs hf
      cases nodes with
      | nil => exact ⟨0, by simp only [renderNodes, cNodes, run_pure]; rfl⟩
      | cons nd rest =>
        simp only [calmL, okNamesL, Bool.and_eq_true] at hp ho
        simp only [renderNodes, cNodes]
        refine run_bind_asN _ _ w w _ _ (ihD nd ctx c0 w hp.1 ho.1 hc hs hf) ?_
        intro a st1 k1
        refine run_bind_asN _ _ _ w _ _ (ihN' rest ctx c0 w st1 k1 hp.2 ho.2 hc hs hf) ?_
        intro b st2 k2
        exact ⟨k2, rfl⟩
    · intro x items i body ctx c0 w hp ho hc hs hf hi
      cases items with
      | nil => exact ⟨0, by simp only [renderFor, cFor, run_pure]; rfl⟩
      | cons item items =>
        simp only [renderFor, cFor]
        have hit := hi item (List.mem_cons_self ..)
        have h1 := ihN body (ctx ++ [forLayer ctx x i item]) (c0 ++ [forLayer c0 x i item]) w hp ho
          (ctxFree_push ctx _ hc (forLayer_free ctx x i item hc hit))
          (by rw [forLayer_same ctx c0 x i item hs]; exact sameVars_push ctx c0 _ hs) hf
        refine run_bind_asN _ _ w w _ _ h1 ?_
        intro a st1 k1
        refine run_bind_asN _ _ _ w _ _ (ihF' x items (i + 1) body ctx c0 w st1 k1 hp ho hc hs hf (fun it h => hi it (List.mem_cons_of_mem _ h))) ?_
        intro b st2 k2
        exact ⟨k2, rfl⟩
    · intro nd ctx c0 w hp ho hc hs hf
      unfold renderNode cNode
      simp only [run_bind, run_get]
      by_cases hst : w.steps ≥ env.maxSteps
      · exact ⟨0, by simp only [hst, if_true, run_bind, run_throw]; rfl⟩
      · simp only [hst, if_false, run_bind, run_set]
        have hw1 : ({ w with steps := w.steps + 1 } : World) = setSN w (w.steps + 1) 0 := rfl
        cases nd with
        | text s => exact ⟨0, rfl⟩
        | out e =>
          simp only [okNames] at ho
          have hv := evalExpr_free ctx e hc
          have hE := evalExpr_same ctx c0 e hs ho
          refine ⟨0, ?_⟩
          simp only [← hE]
          cases hev : evalExpr ctx e <;> simp only [hev, slotFree] at hv ⊢ <;> first | rfl | cases hv
        | ifn c t e =>
          simp only [calm, okNames, Bool.and_eq_true] at hp ho
          simp only [← evalExpr_same ctx c0 c hs ho.1.1]
          split
          · exact ihN' t ctx c0 w _ 0 hp.1 ho.1.2 hc hs hf
          · exact ihN' e ctx c0 w _ 0 hp.2 ho.2 hc hs hf
        | forn x e body =>
          simp only [calm, okNames, Bool.and_eq_true] at hp ho
          simp only [← evalExpr_same ctx c0 e hs ho.1]
          exact ihF' x _ 0 body ctx c0 w _ 0 hp ho.2 hc hs hf (iterVals_free _ (evalExpr_free ctx e hc))
        | withn x e body =>
          simp only [calm, okNames, Bool.and_eq_true] at hp ho
          simp only [← evalExpr_same ctx c0 e hs ho.1]
          refine ihN' body _ _ w _ 0 hp ho.2 (ctxFree_push ctx _ hc ?_) (sameVars_push ctx c0 _ hs) hf
          simp [slotFreeKvs, evalExpr_free ctx e hc]
        | elem tag body =>
          simp only [calm, okNames] at hp ho
          rw [hw1]
          refine run_bind_asN _ _ _ w _ _ (ihN' body ctx c0 w _ 0 hp ho hc hs hf) ?_
          intro a st1 k1
          exact ⟨k1, rfl⟩
        | provide key kwargs body =>
          simp only [calm, okNames] at hp ho
          simp only
          by_cases hid : isIdentifier key = true
          · simp only [hid, Bool.not_true, Bool.false_eq_true, if_false, run_bind, run_genId, run_modify, run_get, run_tryCatch]
            have hE : holdSelfW w.nextId ({ w with nextId := w.nextId + 1, steps := w.steps + 1, provideCache := alSet w.nextId (evalKwargs ctx kwargs) w.provideCache } : World) = enterW w (evalKwargs ctx kwargs) := rfl
            rw [hE]
            obtain ⟨k2, hbody⟩ := ihN body (ctx ++ [[(injectPrefix ++ key, .provRef w.nextId)]]) c0 (enterW w (evalKwargs ctx kwargs)) hp ho
              (ctxFree_push ctx _ hc (by simp [slotFreeKvs, slotFree]))
              (sameVars_push_inject ctx c0 _ _ (internal_injectKey key) hs) (fresh_enterW w _ hf)
            have hsteps : (enterW w (evalKwargs ctx kwargs)).steps = w.steps + 1 := rfl
            rw [hbody, hsteps]
            rcases cNodes env.maxSteps n body c0 (w.steps + 1) with ⟨r, st2⟩
            cases r with
            | ok a =>
              refine ⟨k2 + 1, ?_⟩
              simp only [asN_ok, cacheCleanup, run_liftW, leave_after_body w _ st2 k2 hf, run_pure]
            | error e =>
              refine ⟨k2 + 1, ?_⟩
              simp only [asN_error, provideFail, run_liftW, fail_after_body w _ st2 k2 hf, run_throw]
          · simp only [Bool.not_eq_true] at hid
            exact ⟨0, by simp only [hid, Bool.not_false, if_true, run_bind, run_throw]; rfl⟩
        | _ => simp [calm] at hp

/-! ### the reading of the properties on the provider fragment -/

open Djc.SpecRender

theorem spec_calm (env : Env) : ∀ n,
    (∀ nodes (e : SEnv) s, calmL nodes = true → ctxFree e.vars = true →
      (sNodes env n nodes e).run s = asSpec s (cNodes env.maxSteps n nodes e.vars s.steps)) ∧
    (∀ x items i body (e : SEnv) s, calmL body = true → ctxFree e.vars = true → (∀ it ∈ items, slotFree it = true) →
      (sFor env n x items i body e).run s = asSpec s (cFor env.maxSteps n x items i body e.vars s.steps)) ∧
    (∀ nd (e : SEnv) s, calm nd = true → ctxFree e.vars = true →
      (sNode env n nd e).run s = asSpec s (cNode env.maxSteps n nd e.vars s.steps)) := by
  intro n
  induction n with
  | zero =>
    refine ⟨?_, ?_, ?_⟩
    · intro nodes e s _ _; simp only [sNodes, cNodes, srun_throw]; rfl
    · intro x items i body e s _ _ _; simp only [sFor, cFor, srun_throw]; rfl
    · intro nd e s _ _; simp only [sNode, cNode, srun_throw]; rfl
  | succ n ih =>
    obtain ⟨ihN, ihF, ihD⟩ := ih
    have ihN' : ∀ nodes (e : SEnv) s st, calmL nodes = true → ctxFree e.vars = true →
        (sNodes env n nodes e).run (setStepsS s st) = asSpec s (cNodes env.maxSteps n nodes e.vars st) := by
      intro nodes e s st hp hc; simpa using ihN nodes e (setStepsS s st) hp hc
    have ihF' : ∀ x items i body (e : SEnv) s st, calmL body = true → ctxFree e.vars = true → (∀ it ∈ items, slotFree it = true) →
        (sFor env n x items i body e).run (setStepsS s st) = asSpec s (cFor env.maxSteps n x items i body e.vars st) := by
      intro x items i body e s st hp hc hi; simpa using ihF x items i body e (setStepsS s st) hp hc hi
    refine ⟨?_, ?_, ?_⟩
    · intro nodes e s hp hc
      cases nodes with
      | nil => simp only [sNodes, cNodes, srun_pure]; rfl
      | cons nd rest =>
        simp only [calmL, Bool.and_eq_true] at hp
        simp only [sNodes, cNodes]
        refine srun_bind_as _ _ _ _ _ (ihD nd e s hp.1 hc) ?_
        intro a st1
        refine srun_bind_as _ _ _ _ _ (ihN' rest e s st1 hp.2 hc) ?_
        intro b st2
        rfl
    · intro x items i body e s hp hc hi
      cases items with
      | nil => simp only [sFor, cFor, srun_pure]; rfl
      | cons item items =>
        simp only [sFor, cFor]
        have hit := hi item (List.mem_cons_self ..)
        have h1 := ihN body (e.push (forLayer e.vars x i item)) s hp
          (by rw [push_vars]; exact ctxFree_push e.vars _ hc (forLayer_free e.vars x i item hc hit))
        rw [push_vars] at h1
        refine srun_bind_as _ _ _ _ _ h1 ?_
        intro a st1
        refine srun_bind_as _ _ _ _ _ (ihF' x items (i + 1) body e s st1 hp hc (fun it h => hi it (List.mem_cons_of_mem _ h))) ?_
        intro b st2
        rfl
    · intro nd e s hp hc
      unfold sNode cNode
      simp only [srun_bind, srun_get]
      by_cases hst : s.steps ≥ env.maxSteps
      · simp only [hst, if_true, srun_bind, srun_throw]; rfl
      · simp only [hst, if_false, srun_bind, srun_set]
        cases nd with
        | text s => rfl
        | out ex =>
          have hv := evalExpr_free e.vars ex hc
          simp only
          cases hev : evalExpr e.vars ex <;> simp only [hev, slotFree] at hv ⊢ <;> first | rfl | cases hv
        | ifn c t el =>
          simp only [calm, Bool.and_eq_true] at hp
          simp only
          split
          · exact ihN' t e s _ hp.1 hc
          · exact ihN' el e s _ hp.2 hc
        | forn x ex body =>
          simp only [calm] at hp
          exact ihF' x _ 0 body e s _ hp hc (iterVals_free _ (evalExpr_free e.vars ex hc))
        | withn x ex body =>
          simp only [calm] at hp
          have h1 := ihN' body (e.push [(x, evalExpr e.vars ex)]) s (s.steps + 1) hp
            (by rw [push_vars]; exact ctxFree_push e.vars _ hc (by simp [slotFreeKvs, evalExpr_free e.vars ex hc]))
          rw [push_vars] at h1
          exact h1
        | elem tag body =>
          simp only [calm] at hp
          refine srun_bind_as _ _ _ _ _ (ihN' body e s _ hp hc) ?_
          intro a st1
          rfl
        | provide key kwargs body =>
          simp only [calm] at hp
          simp only
          by_cases hid : isIdentifier key = true
          · simp only [hid, Bool.not_true, Bool.false_eq_true, if_false]
            exact ihN' body (.mk e.vars ((key, evalKwargs e.vars kwargs) :: e.prov) e.inst e.dflts) s _ hp hc
          · simp only [Bool.not_eq_true] at hid
            simp only [hid, Bool.not_false, if_true, srun_bind, srun_throw]; rfl
        | _ => simp [calm] at hp

end Djc.Proofs.Calm
