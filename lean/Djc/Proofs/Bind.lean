import Djc.Proofs.AList
import Djc.Model.Bind
import Djc.Spec.Bind
namespace Djc.Proofs.Bind
open Djc.AList Djc.Model.Bind Djc.Spec.Bind

variable {κ : Type} [DecidableEq κ]

/-! ### error classes -/

theorem pyBind_err_type {s : Sig κ} {P : List Nat} {K : List (κ × Nat)} {e : Err}
    (h : pyBind s P K = .error e) : e = .type := by
  unfold pyBind at h
  split at h
  · cases h; rfl
  · split at h
    · cases h; rfl
    · split at h
      · cases h; rfl
      · split at h
        · cases h; rfl
        · simp only at h
          split at h
          · cases h; rfl
          · cases h

theorem vstep_err_type {path : Path} {s : Sig κ} {st : VState κ} {a : Arg κ} {e : Err}
    (h : vstep path s st a = .error e) : e = .type := by
  cases a with
  | pos v =>
    simp only [vstep] at h
    split at h
    · cases h; rfl
    · split at h
      · cases h; rfl
      · split at h
        · split at h
          · cases h; rfl
          · cases h
        · cases h
  | kw k v =>
    simp only [vstep] at h
    split at h
    · cases h; rfl
    · split at h
      · cases h; rfl
      · cases h

theorem vloop_err_type {path : Path} {s : Sig κ} {e : Err} (L : List (Arg κ)) :
    ∀ {st : VState κ}, vloop path s st L = .error e → e = .type := by
  induction L with
  | nil => intro st h; simp [vloop] at h
  | cons a as ih =>
    intro st h
    simp only [vloop] at h
    cases hs : vstep path s st a with
    | error e' => rw [hs] at h; simp at h; subst h; exact vstep_err_type hs
    | ok st' => rw [hs] at h; exact ih h

theorem defaultsLoop_err_type {s : Sig κ} {used : List κ} {n : Nat} {e : Err}
    (ps : List (Param κ × Nat)) :
    ∀ {vkw : List (κ × Nat)}, defaultsLoop s used n ps vkw = .error e → e = .type := by
  induction ps with
  | nil => intro vkw h; simp [defaultsLoop] at h
  | cons p ps ih =>
    intro vkw h
    obtain ⟨p, i⟩ := p
    simp only [defaultsLoop] at h
    split at h
    · exact ih h
    · split at h
      · split at h
        · cases h; rfl
        · split at h <;> exact ih h
      · split at h
        · cases h; rfl
        · exact ih h

theorem validate_err_type {path : Path} {s : Sig κ} {L : List (Arg κ)} {extra : List (κ × Nat)}
    {e : Err} (h : validate path s L extra = .error e) : e = .type := by
  unfold validate at h
  cases hv : vloop path s vinit L with
  | error e' => rw [hv] at h; simp at h; subst h; exact vloop_err_type L hv
  | ok st =>
    rw [hv] at h
    simp only at h
    split at h
    · cases h; rfl
    · split at h
      · rename_i e' hd
        simp at h; subst h; exact defaultsLoop_err_type _ hd
      · cases h

/-! ### positional after keyword -/

def hasPos : List (Arg κ) → Bool
  | [] => false
  | .pos _ :: _ => true
  | .kw _ _ :: rest => hasPos rest

def hasKw : List (Arg κ) → Bool
  | [] => false
  | .kw _ _ :: _ => true
  | .pos _ :: rest => hasKw rest

def posAfterKw : List (Arg κ) → Bool
  | [] => false
  | .kw _ _ :: rest => hasPos rest || posAfterKw rest
  | .pos _ :: rest => posAfterKw rest

theorem splitArgs_nopos {L : List (Arg κ)} (h : hasPos L = false) :
    ∃ K, splitArgs L = some ([], K) := by
  induction L with
  | nil => exact ⟨[], rfl⟩
  | cons a as ih =>
    cases a with
    | pos v => simp [hasPos] at h
    | kw k v =>
      obtain ⟨K, hK⟩ := ih (by simpa [hasPos] using h)
      exact ⟨(k, v) :: K, by simp [splitArgs, hK]⟩

theorem splitArgs_none_of_hasPos {L : List (Arg κ)} (h : hasPos L = true) (k : κ) (v : Nat) :
    splitArgs (Arg.kw k v :: L) = none := by
  simp only [splitArgs]
  cases hs : splitArgs L with
  | none => rfl
  | some pk =>
    obtain ⟨P, K⟩ := pk
    cases P with
    | cons x xs => rfl
    | nil =>
      exfalso
      -- a list that splits with no positionals has no positional
      clear k v
      induction L generalizing K with
      | nil => simp [hasPos] at h
      | cons a as ih =>
        cases a with
        | pos w =>
          simp only [splitArgs] at hs
          cases h2 : splitArgs as with
          | none => simp [h2] at hs
          | some pk2 => obtain ⟨P2, K2⟩ := pk2; simp [h2] at hs
        | kw k2 w =>
          simp only [splitArgs] at hs
          cases h2 : splitArgs as with
          | none => simp [h2] at hs
          | some pk2 =>
            obtain ⟨P2, K2⟩ := pk2
            cases P2 with
            | nil => exact ih (by simpa [hasPos] using h) K2 h2
            | cons x xs => simp [h2] at hs

theorem splitArgs_none_of_posAfterKw {L : List (Arg κ)} (h : posAfterKw L = true) :
    splitArgs L = none := by
  induction L with
  | nil => simp [posAfterKw] at h
  | cons a as ih =>
    cases a with
    | pos v =>
      have := ih (by simpa [posAfterKw] using h)
      simp [splitArgs, this]
    | kw k v =>
      simp only [posAfterKw, Bool.or_eq_true] at h
      rcases h with h | h
      · exact splitArgs_none_of_hasPos h k v
      · have := ih h
        simp [splitArgs, this]

theorem splitSpecial_error {special : κ → Bool} {e : Err} (L : List (Arg κ)) :
    ∀ {st : Split κ}, splitSpecial special st L = .error e →
      e = .syntax ∧ ((st.seenSpecial = true ∧ hasPos L = true) ∨ posAfterKw L = true) := by
  induction L with
  | nil => intro st h; simp [splitSpecial] at h
  | cons a as ih =>
    intro st h
    cases a with
    | kw k v =>
      simp only [splitSpecial] at h
      split at h
      · have := ih h
        refine ⟨this.1, Or.inr ?_⟩
        simp only [posAfterKw, Bool.or_eq_true]
        rcases this.2 with ⟨_, h2⟩ | h2
        · exact Or.inl h2
        · exact Or.inr h2
      · have := ih h
        refine ⟨this.1, ?_⟩
        rcases this.2 with ⟨h1, h2⟩ | h2
        · right
          simp only [posAfterKw, Bool.or_eq_true]
          exact Or.inl h2
        · right
          simp only [posAfterKw, Bool.or_eq_true]
          exact Or.inr h2
    | pos v =>
      simp only [splitSpecial] at h
      split at h
      · rename_i hs
        cases h
        exact ⟨rfl, Or.inl ⟨hs, by simp [hasPos]⟩⟩
      · have := ih h
        refine ⟨this.1, ?_⟩
        rcases this.2 with ⟨h1, h2⟩ | h2
        · left; exact ⟨by simpa using h1, by simp [hasPos]⟩
        · right; simpa [posAfterKw] using h2

/-! ### special keys need **kwargs -/

theorem aset_ne_nil (k : κ) (v : Nat) (xs : List (κ × Nat)) : aset k v xs ≠ [] := by
  cases xs with
  | nil => simp [aset]
  | cons p xs =>
    obtain ⟨k', v'⟩ := p
    simp only [aset]
    split <;> simp

theorem splitSpecial_invalid_nonempty {special : κ → Bool} (L : List (Arg κ)) :
    ∀ {st sp : Split κ}, splitSpecial special st L = .ok sp →
      (st.invalid ≠ [] ∨ hasSpecialKw special L = true) → sp.invalid ≠ [] := by
  induction L with
  | nil =>
    intro st sp h hne
    simp [splitSpecial] at h; subst h
    rcases hne with h | h
    · exact h
    · simp [hasSpecialKw] at h
  | cons a as ih =>
    intro st sp h hne
    cases a with
    | kw k v =>
      simp only [splitSpecial] at h
      split at h
      · exact ih h (Or.inl (aset_ne_nil _ _ _))
      · rename_i hs
        refine ih h ?_
        rcases hne with h1 | h1
        · exact Or.inl h1
        · right
          simp only [hasSpecialKw, Bool.or_eq_true] at h1
          rcases h1 with h1 | h1
          · exact absurd h1 hs
          · exact h1
    | pos v =>
      simp only [splitSpecial] at h
      split at h
      · cases h
      · refine ih h ?_
        rcases hne with h1 | h1
        · exact Or.inl h1
        · right; simpa [hasSpecialKw] using h1

/-! ### the two validator paths -/

theorem mem_names_allNames (s : Sig κ) (k : κ) :
    k ∈ s.allNames ↔ (k ∈ s.names ∨ s.varargs = some k ∨ s.varkw = some k) := by
  simp only [Sig.allNames, Sig.names, List.mem_append, List.map_append, Option.mem_toList,
    List.mem_map]
  constructor
  · rintro (((h | h) | h) | h)
    · exact Or.inl (Or.inl h)
    · exact Or.inr (Or.inl h)
    · exact Or.inl (Or.inr h)
    · exact Or.inr (Or.inr h)
  · rintro ((h | h) | h | h)
    · exact Or.inl (Or.inl (Or.inl h))
    · exact Or.inl (Or.inr h)
    · exact Or.inl (Or.inl (Or.inr h))
    · exact Or.inr h

/-- The keyword-name tests of the fast and the fallback validator coincide, except for a keyword
that is literally the name of the `*args` parameter of a function without `**kwargs`. -/
theorem validKey_agree (s : Sig κ) (k : κ) (h : s.varkw.isSome = true ∨ s.varargs ≠ some k) :
    validKey .code s k = validKey .sig s k := by
  simp only [validKey]
  cases hv : s.varkw with
  | some w => by_cases hk : k ∈ s.names <;> simp [hk]
  | none =>
    have h2 : s.varargs ≠ some k := by
      rcases h with h | h
      · simp [hv] at h
      · exact h
    have := mem_names_allNames s k
    simp only [hv] at this
    by_cases hk : k ∈ s.names
    · simp [hk, this.mpr (Or.inl hk)]
    · have : k ∉ s.allNames := by
        intro hin
        rcases this.mp hin with h3 | h3 | h3
        · exact hk h3
        · exact h2 h3
        · cases h3
      simp [hk, this]

theorem vloop_path_agree (s : Sig κ) (L : List (Arg κ))
    (h : ∀ k ∈ kwKeys L, validKey .code s k = validKey .sig s k) :
    ∀ (st : VState κ), vloop .code s st L = vloop .sig s st L := by
  induction L with
  | nil => intro st; rfl
  | cons a as ih =>
    intro st
    have hstep : vstep .code s st a = vstep .sig s st a := by
      cases a with
      | pos v => rfl
      | kw k v =>
        have := h k (by simp [kwKeys])
        simp only [vstep, this]
    have hrest : ∀ k ∈ kwKeys as, validKey .code s k = validKey .sig s k := by
      intro k hk
      apply h
      cases a <;> simp [kwKeys, hk]
    simp only [vloop, hstep]
    cases vstep .sig s st a with
    | error e => rfl
    | ok st' => exact ih hrest st'

theorem splitSpecial_keep_keys {special : κ → Bool} (L : List (Arg κ)) :
    ∀ {st sp : Split κ}, splitSpecial special st L = .ok sp →
      ∀ k ∈ kwKeys sp.keep, k ∈ kwKeys st.keep ∨ k ∈ kwKeys L := by
  have kwKeys_append : ∀ (A B : List (Arg κ)), kwKeys (A ++ B) = kwKeys A ++ kwKeys B := by
    intro A B
    induction A with
    | nil => rfl
    | cons a as ih => cases a <;> simp [kwKeys, ih]
  induction L with
  | nil => intro st sp h k hk; simp [splitSpecial] at h; subst h; exact Or.inl hk
  | cons a as ih =>
    intro st sp h k hk
    cases a with
    | kw k' v =>
      simp only [splitSpecial] at h
      split at h
      · rcases ih h k hk with h1 | h1
        · exact Or.inl h1
        · exact Or.inr (by simp [kwKeys, h1])
      · rcases ih h k hk with h1 | h1
        · simp only [kwKeys_append, List.mem_append] at h1
          rcases h1 with h1 | h1
          · exact Or.inl h1
          · right; simp [kwKeys] at h1 ⊢; exact Or.inl h1
        · exact Or.inr (by simp [kwKeys, h1])
    | pos v =>
      simp only [splitSpecial] at h
      split at h
      · cases h
      · rcases ih h k hk with h1 | h1
        · simp only [kwKeys_append, List.mem_append] at h1
          rcases h1 with h1 | h1
          · exact Or.inl h1
          · simp [kwKeys] at h1
        · exact Or.inr (by simpa [kwKeys] using h1)

end Djc.Proofs.Bind
