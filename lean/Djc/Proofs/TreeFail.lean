/-
  Failing renders of trees of components (model of the code; continuation of `Djc/Proofs/Tree.lean`, same fragment).

  When a render of the fragment raises — a callback with fault injection, `NotRegistered`, the instance / work budget,
  fuel — what it leaves behind is delimited (`Frame`): every registry entry that existed before (ids generated earlier)
  is untouched, the provide registries and the fill-capture list are untouched, the id counter only grew, and nothing is
  registered under an id not generated yet.  So the residue of a failed render (the listed finding
  `error-leaves-registry-entries`) consists of entries under ids *of that render* only, and the world after the failure
  again satisfies `WInv`: the theorems of `Tree.lean` / `Stitch.lean` apply to every later render.
-/
import Djc.Proofs.Tree
namespace Djc.Proofs.TreeFail
open Djc.Tpl Djc.Render Djc.Proofs.Plain Djc.Proofs.Calm Djc.Proofs.Render Djc.Proofs.Leaf Djc.Proofs.Slotty Djc.Proofs.Tree

theorem bind_err {α β} (x : M α) (f : α → M β) (w w' : World) (e : Err)
    (h : (x >>= f).run.run w = (.error e, w')) :
    x.run.run w = (.error e, w') ∨ ∃ a w1, x.run.run w = (.ok a, w1) ∧ (f a).run.run w1 = (.error e, w') := by
  rw [run_bind] at h
  rcases hx : x.run.run w with ⟨r, w1⟩
  simp only [hx] at h
  cases r with
  | error e' =>
    left
    have h' : ((Except.error e' : Except Err β), w1) = (Except.error e, w') := h
    cases h'
    rfl
  | ok a => right; exact ⟨a, w1, rfl, h⟩

/-- the event log only grew, and the `get_context_data` calls logged meanwhile carry ids generated meanwhile, in
strictly increasing order (so: each id at most once) -/
def EvsOk (w w' : World) : Prop :=
  ∃ evs, w'.events = w.events ++ evs ∧ (∀ k ∈ gcdIds evs, w.nextId ≤ k ∧ k < w'.nextId) ∧ (gcdIds evs).Pairwise (· < ·)

theorem EvsOk.same {w w' : World} (h : w'.events = w.events) : EvsOk w w' := by
  refine ⟨[], by simp [h], ?_, List.Pairwise.nil⟩
  intro k hk; cases hk

theorem EvsOk.quiet {w w' : World} (evs : List Ev) (h : w'.events = w.events ++ evs) (hg : gcdIds evs = []) : EvsOk w w' := by
  refine ⟨evs, h, ?_, ?_⟩
  · rw [hg]; intro k hk; cases hk
  · rw [hg]; exact List.Pairwise.nil

theorem EvsOk.one {w w' : World} (ev : Ev) (hn : w'.nextId = w.nextId) (hev : gcdIds [ev] = [])
    (h : w'.events = w.events ∨ w'.events = w.events ++ [ev]) : EvsOk w w' := by
  rcases h with h | h
  · exact EvsOk.same h
  · exact EvsOk.quiet [ev] h hev

theorem EvsOk.trans {a b c : World} (hab : a.nextId ≤ b.nextId) (hbc : b.nextId ≤ c.nextId) (h1 : EvsOk a b) (h2 : EvsOk b c) :
    EvsOk a c := by
  obtain ⟨e1, he1, hr1, hp1⟩ := h1
  obtain ⟨e2, he2, hr2, hp2⟩ := h2
  refine ⟨e1 ++ e2, by rw [he2, he1, List.append_assoc], ?_, ?_⟩
  · intro k hk
    rw [gcdIds_append, List.mem_append] at hk
    rcases hk with hk | hk
    · have := hr1 k hk; omega
    · have := hr2 k hk; omega
  · rw [gcdIds_append, List.pairwise_append]
    refine ⟨hp1, hp2, ?_⟩
    intro x hx y hy
    have := hr1 x hx; have := hr2 y hy; omega

theorem EvsOk.of_range {w w' : World} (h : ∃ evs, w'.events = w.events ++ evs ∧ gcdIds evs = List.range' w.nextId (w'.nextId - w.nextId)) :
    EvsOk w w' := by
  obtain ⟨evs, he, hg⟩ := h
  refine ⟨evs, he, ?_, ?_⟩
  · intro k hk
    rw [hg, List.mem_range'_1] at hk
    omega
  · rw [hg]; exact List.pairwise_lt_range'

/-- what any run of the fragment — returning or raising — may have done to the world -/
structure Frame (w w' : World) : Prop where
  next : w.nextId ≤ w'.nextId
  rc : ∀ k, k < w.nextId → alGet k w'.rendererCache = alGet k w.rendererCache
  cc : ∀ k, k < w.nextId → alGet k w'.ctxCache = alGet k w.ctxCache
  ca : ∀ k, k < w.nextId → alGet k w'.childAttrs = alGet k w.childAttrs
  prov : w'.provideCache = w.provideCache ∧ w'.provideRefs = w.provideRefs ∧ w'.allRefIds = w.allRefIds
  hrc : ∀ k, w'.nextId ≤ k → alGet k w'.rendererCache = none
  hcc : ∀ k, w'.nextId ≤ k → alGet k w'.ctxCache = none
  hca : ∀ k, w'.nextId ≤ k → alGet k w'.childAttrs = none
  good : (∀ k cc, alGet k w.ctxCache = some cc → GoodC cc) → ∀ k cc, alGet k w'.ctxCache = some cc → GoodC cc
  evs : EvsOk w w'

theorem Frame.refl {w : World} (hw : WInv w) : Frame w w :=
  ⟨Nat.le_refl _, fun _ _ => rfl, fun _ _ => rfl, fun _ _ => rfl, ⟨rfl, rfl, rfl⟩, hw.rc, hw.cc, hw.ca, fun h => h, EvsOk.same rfl⟩

theorem Frame.trans {a b c : World} (h1 : Frame a b) (h2 : Frame b c) : Frame a c where
  next := Nat.le_trans h1.next h2.next
  rc := fun k hk => by rw [h2.rc k (Nat.lt_of_lt_of_le hk h1.next), h1.rc k hk]
  cc := fun k hk => by rw [h2.cc k (Nat.lt_of_lt_of_le hk h1.next), h1.cc k hk]
  ca := fun k hk => by rw [h2.ca k (Nat.lt_of_lt_of_le hk h1.next), h1.ca k hk]
  prov := by
    obtain ⟨a1, a2, a3⟩ := h1.prov
    obtain ⟨b1, b2, b3⟩ := h2.prov
    exact ⟨b1.trans a1, b2.trans a2, b3.trans a3⟩
  hrc := h2.hrc
  hcc := h2.hcc
  hca := h2.hca
  good := fun h => h2.good (h1.good h)
  evs := EvsOk.trans h1.next h2.next h1.evs h2.evs

theorem Frame.winv {w w' : World} (hw : WInv w) (h : Frame w w') : WInv w' :=
  ⟨by rw [h.prov.1]; exact hw.prov, h.hrc, h.hcc, h.hca,
   fun k hk => by rw [h.prov.2.2]; exact hw.refs k (Nat.le_trans h.next hk), h.good hw.good⟩

theorem Frame.of_bal {env : Env} {w w' : World} {ids : List Nat} (hw : WInv w) (hb : Bal env w w' ids) : Frame w w' := by
  have hlow : ∀ k, k < w.nextId → k ∉ ids := fun k hk hm => by have := (hb.range k hm).1; omega
  have hw' := hw.step hb
  exact ⟨hb.next, fun k hk => hb.rc k (hlow k hk), fun k hk => hb.cc k (hlow k hk), fun k _ => hb.ca k, ⟨hb.prov.1, hb.prov.2.1, hb.prov.2.2.1⟩,
    hw'.rc, hw'.cc, hw'.ca, fun _ => hw'.good, EvsOk.of_range hb.evs⟩

theorem Frame.left {a b w' : World} (h : core a = core b) (hf : Frame a w') : Frame b w' := by
  obtain ⟨h1, h2, h3, h4, h5, h6, h7, h8, h9⟩ := core_fields h
  constructor
  · rw [← h1]; exact hf.next
  · rw [← h1, ← h3]; exact hf.rc
  · rw [← h1, ← h2]; exact hf.cc
  · rw [← h1, ← h4]; exact hf.ca
  · rw [← h5, ← h6, ← h7]; exact hf.prov
  · exact hf.hrc
  · exact hf.hcc
  · exact hf.hca
  · rw [← h2]; exact hf.good
  · obtain ⟨evs, he, hr, hp⟩ := hf.evs
    exact ⟨evs, by rw [← h9]; exact he, by rw [← h1]; exact hr, hp⟩

theorem Frame.right {w a b : World} (h : core a = core b) (hf : Frame w a) : Frame w b := by
  obtain ⟨h1, h2, h3, h4, h5, h6, h7, h8, h9⟩ := core_fields h
  constructor
  · rw [← h1]; exact hf.next
  · rw [← h3]; exact hf.rc
  · rw [← h2]; exact hf.cc
  · rw [← h4]; exact hf.ca
  · rw [← h5, ← h6, ← h7]; exact hf.prov
  · rw [← h1, ← h3]; exact hf.hrc
  · rw [← h1, ← h2]; exact hf.hcc
  · rw [← h1, ← h4]; exact hf.hca
  · rw [← h2]; exact hf.good
  · obtain ⟨evs, he, hr, hp⟩ := hf.evs
    exact ⟨evs, by rw [← h9]; exact he, by rw [← h1]; exact hr, hp⟩

/-- a callback that raised touched nothing but the event log and the instance counter -/
theorem tick_err (env : Env) (ev : Ev) (w w' : World) (e : Err) (h : (tick env ev).run.run w = (.error e, w')) :
    core w' = core { w with events := w'.events } ∧ (w'.events = w.events ∨ w'.events = w.events ++ [ev]) := by
  unfold tick at h
  have tail : ∀ (a s : World), (match env.raiseAt with
      | some (i, c) =>
        if a.events.length = i then do
          set { a with events := a.events ++ [ev] }
          throw (.user c)
        else set { a with events := a.events ++ [ev] }
      | none => set { a with events := a.events ++ [ev] } : M Unit).run.run s = (.error e, w') →
      w' = { a with events := a.events ++ [ev] } := by
    intro a s ha
    cases hr : env.raiseAt with
    | none => simp only [hr, run_set] at ha; cases ha
    | some ic =>
      obtain ⟨i, c⟩ := ic
      simp only [hr] at ha
      split at ha
      · simp only [run_bind, run_set, run_throw] at ha; exact (snd_eq ha).symm
      · simp only [run_set] at ha; cases ha
  simp only [run_bind, run_get] at h
  cases ev with
  | gcd id =>
    simp only at h
    by_cases hg : w.gcds ≥ env.maxInst
    · simp only [hg, ↓reduceIte, run_throw] at h
      have := snd_eq h; subst this; exact ⟨rfl, .inl rfl⟩
    · simp only [hg, ↓reduceIte, run_pure] at h
      rw [tail { w with gcds := w.gcds + 1 } _ h]; exact ⟨rfl, .inr rfl⟩
  | before id => simp only [run_pure] at h; rw [tail _ _ h]; exact ⟨rfl, .inr rfl⟩
  | after id => simp only [run_pure] at h; rw [tail _ _ h]; exact ⟨rfl, .inr rfl⟩
  | inject id key => simp only [run_pure] at h; rw [tail _ _ h]; exact ⟨rfl, .inr rfl⟩


theorem linv_frame {env : Env} {w0 w : World} {Q : List QItem} (h0 : WInv w0) (hl : LInv env w0 Q w) : Frame w0 w := by
  have hlow : ∀ k, k < w0.nextId → k ∉ chIds Q ++ opIds Q := fun k hk hm => by have := (hl.range k hm).1; omega
  have hlow1 : ∀ k, k < w0.nextId → k ∉ chIds Q := fun k hk hm => hlow k hk (List.mem_append_left _ hm)
  have hw := hl.winv h0
  exact ⟨hl.next, fun k hk => hl.rc k (hlow1 k hk), fun k hk => hl.cc k (hlow k hk), fun k hk => hl.ca k (hlow1 k hk), ⟨hl.prov.1, hl.prov.2.1, hl.prov.2.2.1⟩,
    hw.rc, hw.cc, hw.ca, fun _ => hw.good, EvsOk.of_range hl.evs⟩

/-- reading a tag body for fills touches the capture list and the step counter only -/
theorem frame_capsteps {w : World} (hw : WInv w) (cp : List Captured) (st : Nat) : Frame w { w with cap := cp, steps := st } :=
  ⟨Nat.le_refl _, fun _ _ => rfl, fun _ _ => rfl, fun _ _ => rfl, ⟨rfl, rfl, rfl⟩, hw.rc, hw.cc, hw.ca, fun h => h, EvsOk.same rfl⟩

/-- what reading a body for fills may do to the world, whatever the outcome -/
def ExtrW (w w' : World) : Prop := ∃ cp st, w' = { w with cap := cp, steps := st }

theorem ExtrW.refl (w : World) : ExtrW w w := ⟨w.cap, w.steps, rfl⟩
theorem ExtrW.trans {a b c : World} (h1 : ExtrW a b) (h2 : ExtrW b c) : ExtrW a c := by
  obtain ⟨c1, s1, rfl⟩ := h1
  obtain ⟨c2, s2, rfl⟩ := h2
  exact ⟨c2, s2, rfl⟩

theorem fillnode_any (env : Env) (n : Nat) (nm : Str) (dv : Option Str) (content : List Node) (ctx : Ctx) (w w' : World)
    (r : Except Err (List Tok)) (hx : isExtracting ctx = true)
    (h : (renderNode env n (.fill (.lit nm) dv none content) ctx).run.run w = (r, w')) : ExtrW w w' := by
  cases n with
  | zero => simp only [renderNode, run_throw] at h; rw [← snd_eq h]; exact ExtrW.refl w
  | succ m =>
    unfold renderNode at h
    simp only [run_bind, run_get] at h
    by_cases hst : w.steps ≥ env.maxSteps
    · simp only [hst, if_true, run_throw] at h; rw [← snd_eq h]; exact ExtrW.refl w
    · simp only [hst, if_false, run_set, hx, Bool.not_true, Bool.false_eq_true, ↓reduceIte, evalExpr, run_pure] at h
      cases dv with
      | none =>
        simp only [Option.isSome_none, Bool.false_and, Bool.false_eq_true, ↓reduceIte, run_pure, run_bind, run_modify] at h
        rw [← snd_eq h]; exact ⟨_, _, rfl⟩
      | some d =>
        by_cases hid : isIdentifier d = true
        · simp only [hid, Bool.not_true, Bool.false_eq_true, ↓reduceIte, run_pure, run_bind, Option.isSome_some, Bool.true_and,
            decide_eq_true_eq, reduceCtorEq, run_modify] at h
          rw [← snd_eq h]; exact ⟨_, _, rfl⟩
        · simp only [hid, Bool.not_false, ↓reduceIte, run_bind, run_throw] at h
          rw [← snd_eq h]; exact ⟨_, _, rfl⟩

theorem extract_any (env : Env) : ∀ (n : Nat) (body : List Node) (ctx : Ctx) (w w' : World) (r : Except Err (List Tok)),
    fbody body = true → isExtracting ctx = true →
    (renderNodes env n body ctx).run.run w = (r, w') → ExtrW w w'
  | 0, _, _, w, _, _, _, _, h => by simp only [renderNodes, run_throw] at h; rw [← snd_eq h]; exact ExtrW.refl w
  | n + 1, [], ctx, w, w', r, _, _, h => by simp only [renderNodes, run_pure] at h; rw [← snd_eq h]; exact ExtrW.refl w
  | n + 1, nd :: rest, ctx, w, w', r, hb, hx, h => by
    cases nd with
    | fill nameE dataVar defaultVar content =>
      cases nameE with
      | var p => simp [fbody] at hb
      | lit nm =>
        cases defaultVar with
        | some d => simp [fbody] at hb
        | none =>
          simp only [fbody, Bool.and_eq_true] at hb
          simp only [renderNodes, run_bind] at h
          rcases h1 : (renderNode env n (.fill (.lit nm) dataVar none content) ctx).run.run w with ⟨r1, w1⟩
          have e1 := fillnode_any env n nm dataVar content ctx w w1 r1 hx h1
          rw [h1] at h
          cases r1 with
          | error e => simp only at h; rw [← snd_eq h]; exact e1
          | ok a =>
            simp only at h
            rcases h2 : (renderNodes env n rest ctx).run.run w1 with ⟨r2, w2⟩
            have e2 := extract_any env n rest ctx w1 w2 r2 hb.2 hx h2
            rw [h2] at h
            cases r2 with
            | error e => simp only at h; rw [← snd_eq h]; exact e1.trans e2
            | ok b => simp only [run_pure] at h; rw [← snd_eq h]; exact e1.trans e2
    | text _ => simp [fbody] at hb
    | out _ => simp [fbody] at hb
    | ifn _ _ _ => simp [fbody] at hb
    | forn _ _ _ => simp [fbody] at hb
    | withn _ _ _ => simp [fbody] at hb
    | elem _ _ => simp [fbody] at hb
    | slot _ _ _ _ _ => simp [fbody] at hb
    | comp _ _ _ _ _ => simp [fbody] at hb
    | provide _ _ _ => simp [fbody] at hb
    | block _ _ => simp [fbody] at hb
    | blockSuper => simp [fbody] at hb
    | «extends» _ => simp [fbody] at hb
    | includen _ => simp [fbody] at hb

/-- `resolve_fills` that raises: only the capture list and the step counter may differ -/
theorem resolveFills_err_f (env : Env) (n : Nat) (body : List Node) (ctx : Ctx) (w w' : World) (e : Err)
    (hb : fbody body = true) (h : (resolveFills env n body ctx).run.run w = (.error e, w')) : ExtrW w w' := by
  cases n with
  | zero => simp only [resolveFills, run_throw] at h; rw [← snd_eq h]; exact ExtrW.refl w
  | succ n =>
    unfold resolveFills at h
    cases body with
    | nil => simp only [List.isEmpty_nil, ↓reduceIte, run_pure] at h; cases h
    | cons nd rest =>
      simp only [List.isEmpty_cons, Bool.false_eq_true, ↓reduceIte, run_bind, run_get, run_modify] at h
      rcases h1 : (renderNodes env n (nd :: rest) (ctx ++ [[(fillGenKey, Val.fillGen)]])).run.run ({ w with cap := [] } : World) with ⟨r1, w1⟩
      have e1 : ExtrW w w1 := (ExtrW.trans ⟨[], w.steps, rfl⟩ (extract_any env n (nd :: rest) _ _ w1 r1 hb (isExtracting_push ctx) h1))
      rw [h1] at h
      cases r1 with
      | error e' => simp only at h; rw [← snd_eq h]; exact e1
      | ok content =>
        simp only [run_bind, run_get, run_modify] at h
        obtain ⟨cp, st, rfl⟩ := e1
        split at h
        · simp only [run_pure] at h; cases h
        · simp only [run_throw] at h; rw [← snd_eq h]; exact ⟨_, _, rfl⟩

theorem resolveFills_err (env : Env) (n : Nat) (body : List Node) (ctx : Ctx) (w w' : World) (e : Err)
    (hb : gbody body = true) (hc : ctxFree ctx = true)
    (h : (resolveFills env n body ctx).run.run w = (.error e, w')) : ExtrW w w' := by
  simp only [gbody, Bool.or_eq_true] at hb
  rcases hb with hb | hb
  · exact resolveFills_err_f env n body ctx w w' e hb h
  · cases n with
    | zero => simp only [resolveFills, run_throw] at h; rw [← snd_eq h]; exact ExtrW.refl w
    | succ n =>
      unfold resolveFills at h
      cases body with
      | nil => simp only [List.isEmpty_nil, ↓reduceIte, run_pure] at h; cases h
      | cons nd rest =>
        simp only [List.isEmpty_cons, Bool.false_eq_true, ↓reduceIte, run_bind, run_get, run_modify] at h
        have hcE : ctxFree (ctx ++ [[(fillGenKey, Val.fillGen)]]) = true := ctxFree_push ctx _ hc (by simp [slotFreeKvs, slotFree])
        rcases h1 : (renderNodes env n (nd :: rest) (ctx ++ [[(fillGenKey, Val.fillGen)]])).run.run ({ w with cap := [] } : World) with ⟨r1, w1⟩
        obtain ⟨st, rfl⟩ := (xstmt_all env n).nodes (nd :: rest) _ _ r1 w1 hb hcE (isExtracting_push ctx) h1
        rw [h1] at h
        cases r1 with
        | error e' => simp only at h; rw [← snd_eq h]; exact ⟨[], st, rfl⟩
        | ok content =>
          simp only [run_bind, run_get, run_modify] at h
          split at h
          · simp only [run_pure] at h; cases h
          · simp only [run_throw] at h; rw [← snd_eq h]; exact ⟨_, _, rfl⟩

structure EStmt (env : Env) (n : Nat) : Prop where
  nodes : ∀ nodes ctx w e w', tnodes nodes = true → ctxFree ctx = true → WInv w →
    (renderNodes env n nodes ctx).run.run w = (.error e, w') → Frame w w'
  for_ : ∀ x items i body ctx w e w', tnodes body = true → ctxFree ctx = true → (∀ it ∈ items, slotFree it = true) → WInv w →
    (renderFor env n x items i body ctx).run.run w = (.error e, w') → Frame w w'
  node : ∀ nd ctx w e w', tnode nd = true → ctxFree ctx = true → WInv w →
    (renderNode env n nd ctx).run.run w = (.error e, w') → Frame w w'
  tag : ∀ name kwargs only dyn body ctx w e w', isDynName name = false → gbody body = true → ctxFree ctx = true → WInv w →
    (renderCompTag env n name kwargs only dyn body ctx).run.run w = (.error e, w') → Frame w w'
  impl : ∀ name kw fills o ctx w e w', isDynName name = false → ctxFree ctx = true → ctxFree o = true → slotFreeKvs kw = true →
    GoodFills fills → WInv w →
    (renderImpl env n name kw fills (some o) ctx).run.run w = (.error e, w') → Frame w w'
  run : ∀ r k attrs w e w', GoodR env r k → WInv w →
    (runRenderer env n r attrs).run.run w = (.error e, w') → Frame w w'
  slot : ∀ nameE isRequired data body ctx w e w', tnodes body = true → ctxFree ctx = true → WInv w →
    (renderSlot env n nameE false isRequired data body ctx).run.run w = (.error e, w') → Frame w w'
  loop : ∀ Q parts out w0 w e w', WInv w0 → LInv env w0 Q w → PartsOk parts → holeIds out = [] →
    (postRender env n Q parts out).run.run w = (.error e, w') → Frame w0 w'

theorem err_inj {α} {e e' : Err} {w w' : World} (h : ((Except.error e : Except Err α), w) = (.error e', w')) : e = e' ∧ w = w' := by
  cases h; exact ⟨rfl, rfl⟩

theorem estmt_zero (env : Env) : EStmt env 0 := by
  constructor
  · intro nodes ctx w e w' _ _ hw h; simp only [renderNodes, run_throw] at h; obtain ⟨_, rfl⟩ := err_inj h; exact Frame.refl hw
  · intro x items i body ctx w e w' _ _ _ hw h; simp only [renderFor, run_throw] at h; obtain ⟨_, rfl⟩ := err_inj h; exact Frame.refl hw
  · intro nd ctx w e w' _ _ hw h; simp only [renderNode, run_throw] at h; obtain ⟨_, rfl⟩ := err_inj h; exact Frame.refl hw
  · intro name kwargs only dyn body ctx w e w' _ _ _ hw h; simp only [renderCompTag, run_throw] at h; obtain ⟨_, rfl⟩ := err_inj h; exact Frame.refl hw
  · intro name kw fills o ctx w e w' _ _ _ _ _ hw h; simp only [renderImpl, run_throw] at h; obtain ⟨_, rfl⟩ := err_inj h; exact Frame.refl hw
  · intro r k attrs w e w' _ hw h; simp only [runRenderer, run_throw] at h; obtain ⟨_, rfl⟩ := err_inj h; exact Frame.refl hw
  · intro nameE isRequired data body ctx w e w' _ _ hw h; simp only [renderSlot, run_throw] at h; obtain ⟨_, rfl⟩ := err_inj h; exact Frame.refl hw
  · intro Q parts out w0 w e w' h0 hl _ _ h; simp only [postRender, run_throw] at h; obtain ⟨_, rfl⟩ := err_inj h; exact linv_frame h0 hl

theorem estmt_nodes (env : Env) (hlib : GoodLib env) (n : Nat) (ih : EStmt env n) :
    ∀ nodes ctx w e w', tnodes nodes = true → ctxFree ctx = true → WInv w →
    (renderNodes env (n + 1) nodes ctx).run.run w = (.error e, w') → Frame w w' := by
  have st := stmt_all env hlib n
  intro nodes ctx w e w' ht hc hw h
  cases nodes with
  | nil => simp only [renderNodes, run_pure] at h; cases h
  | cons nd rest =>
    simp only [tnodes, Bool.and_eq_true] at ht
    simp only [renderNodes] at h
    rcases bind_err _ _ _ _ _ h with h1 | ⟨a, w1, h1, h⟩
    · exact ih.node nd ctx w e w' ht.1 hc hw h1
    · have b1 := st.node nd ctx w a w1 ht.1 hc hw h1
      rcases bind_err _ _ _ _ _ h with h2 | ⟨b, w2, h2, h⟩
      · exact (Frame.of_bal hw b1).trans (ih.nodes rest ctx w1 e w' ht.2 hc (hw.step b1) h2)
      · simp only [run_pure] at h; cases h

theorem estmt_for (env : Env) (hlib : GoodLib env) (n : Nat) (ih : EStmt env n) :
    ∀ x items i body ctx w e w', tnodes body = true → ctxFree ctx = true → (∀ it ∈ items, slotFree it = true) → WInv w →
    (renderFor env (n + 1) x items i body ctx).run.run w = (.error e, w') → Frame w w' := by
  have st := stmt_all env hlib n
  intro x items i body ctx w e w' ht hc hi hw h
  cases items with
  | nil => simp only [renderFor, run_pure] at h; cases h
  | cons item items =>
    simp only [renderFor] at h
    have hit := hi item (List.mem_cons_self ..)
    have hcf := ctxFree_push ctx _ hc (forLayer_free ctx x i item hc hit)
    rcases bind_err _ _ _ _ _ h with h1 | ⟨a, w1, h1, h⟩
    · exact ih.nodes body _ w e w' ht hcf hw h1
    · have b1 := st.nodes body _ w a w1 ht hcf hw h1
      rcases bind_err _ _ _ _ _ h with h2 | ⟨b, w2, h2, h⟩
      · exact (Frame.of_bal hw b1).trans (ih.for_ x items (i + 1) body ctx w1 e w' ht hc (fun it h => hi it (List.mem_cons_of_mem _ h)) (hw.step b1) h2)
      · simp only [run_pure] at h; cases h

theorem estmt_node (env : Env) (hlib : GoodLib env) (n : Nat) (ih : EStmt env n) :
    ∀ nd ctx w e w', tnode nd = true → ctxFree ctx = true → WInv w →
    (renderNode env (n + 1) nd ctx).run.run w = (.error e, w') → Frame w w' := by
  intro nd ctx w e w' ht hc hw h
  unfold renderNode at h
  simp only [run_bind, run_get] at h
  by_cases hst : w.steps ≥ env.maxSteps
  · simp only [hst, if_true, run_throw] at h; obtain ⟨_, rfl⟩ := err_inj h; exact Frame.refl hw
  · simp only [hst, if_false, run_set] at h
    have hcore : core ({ w with steps := w.steps + 1 } : World) = core w := rfl
    have hw1 : WInv ({ w with steps := w.steps + 1 } : World) := WInv.of_core hcore.symm hw
    cases nd with
    | text s => simp only [run_pure] at h; cases h
    | out e' =>
      have hv := evalExpr_free ctx e' hc
      cases hev : evalExpr ctx e' <;> simp only [hev, slotFree, run_bind, run_set, run_pure] at hv h <;> first
        | cases h
        | cases hv
    | ifn c t el =>
      simp only [tnode, Bool.and_eq_true] at ht
      simp only at h
      split at h
      · exact Frame.left hcore (ih.nodes t ctx _ e w' ht.1 hc hw1 h)
      · exact Frame.left hcore (ih.nodes el ctx _ e w' ht.2 hc hw1 h)
    | forn x ex body =>
      simp only [tnode] at ht
      exact Frame.left hcore (ih.for_ x _ 0 body ctx _ e w' ht hc (iterVals_free _ (evalExpr_free ctx ex hc)) hw1 h)
    | withn x ex body =>
      simp only [tnode] at ht
      refine Frame.left hcore (ih.nodes body _ _ e w' ht (ctxFree_push ctx _ hc ?_) hw1 h)
      simp [slotFreeKvs, evalExpr_free ctx ex hc]
    | elem tag body =>
      simp only [tnode] at ht
      rcases bind_err _ _ _ _ _ h with hs | ⟨u, ws, hs, h⟩
      · simp only [run_set] at hs; cases hs
      · simp only [run_set] at hs
        obtain ⟨_, rfl⟩ := ok_inj hs
        rcases bind_err _ _ _ _ _ h with h1 | ⟨a, w1, h1, h⟩
        · exact Frame.left hcore (ih.nodes body ctx _ e w' ht hc hw1 h1)
        · simp only [run_pure] at h; cases h
    | comp name kwargs only dyn body =>
      simp only [tnode, Bool.and_eq_true, Bool.not_eq_true'] at ht
      obtain ⟨hb, hd⟩ := ht
      exact Frame.left hcore (ih.tag name kwargs only dyn body ctx _ e w' hd hb hc hw1 h)
    | slot nameE isDefault isRequired data body =>
      simp only [tnode, Bool.and_eq_true, Bool.not_eq_true'] at ht
      obtain ⟨hdf, hb⟩ := ht
      subst hdf
      exact Frame.left hcore (ih.slot nameE isRequired data body ctx _ e w' hb hc hw1 h)
    | fill a b c d => simp [tnode] at ht
    | provide a b c => simp [tnode] at ht
    | block a b => simp [tnode] at ht
    | blockSuper => simp [tnode] at ht
    | «extends» a => simp [tnode] at ht
    | includen a => simp [tnode] at ht

theorem estmt_slot (env : Env) (n : Nat) (ih : EStmt env n) :
    ∀ nameE isRequired data body ctx w e w', tnodes body = true → ctxFree ctx = true → WInv w →
    (renderSlot env (n + 1) nameE false isRequired data body ctx).run.run w = (.error e, w') → Frame w w' := by
  intro nameE isRequired data body ctx w e w' hb hc hw h
  rcases slot_unfolds env n nameE isRequired data body ctx w hc hw with ⟨e', he⟩ | he | ⟨cid, cc, c3, _, hcc, hc3, hcase⟩
  · rw [he] at h
    obtain ⟨_, rfl⟩ := err_inj h
    exact Frame.refl hw
  · rw [he] at h; cases h
  · rcases hcase with ⟨_, _, he⟩ | ⟨f, hf, _, _, he⟩
    · rw [he] at h
      exact ih.nodes body c3 w e w' hb hc3 hw h
    · rw [he] at h
      obtain ⟨k', hmem⟩ := sGet_mem _ _ f hf
      have hgf : GoodFill f := (hw.good cid cc hcc).1 (k', f) hmem
      exact ih.nodes f.nodes c3 w e w' hgf.1 hc3 hw h

theorem estmt_tag (env : Env) (n : Nat) (ih : EStmt env n) :
    ∀ name kwargs only dyn body ctx w e w', isDynName name = false → gbody body = true → ctxFree ctx = true → WInv w →
    (renderCompTag env (n + 1) name kwargs only dyn body ctx).run.run w = (.error e, w') → Frame w w' := by
  intro name kwargs only dyn body ctx w e w' hd hb hc hw h
  unfold renderCompTag at h
  cases hext : isExtracting ctx with
  | true => simp only [hext, ↓reduceIte, run_pure] at h; cases h
  | false =>
    simp only [hext, Bool.false_eq_true, ↓reduceIte] at h
    cases hf : findDef env name with
    | none =>
      simp only [hf, hd, Bool.false_eq_true, ↓reduceIte, run_bind, run_throw] at h
      obtain ⟨_, rfl⟩ := err_inj h; exact Frame.refl hw
    | some d =>
      simp only [hf] at h
      rcases bind_err _ _ _ _ _ h with hres | ⟨fills, w1, hres, h⟩
      · obtain ⟨cp, st, rfl⟩ := resolveFills_err env n body ctx w w' e hb hc hres
        exact frame_capsteps hw cp st
      · cases n with
        | zero => simp only [resolveFills, run_throw] at hres; cases hres
        | succ m =>
          obtain ⟨hgf, st, rfl⟩ := resolveFills_ok env m body ctx w w1 fills hb hc hres
          have hcore : core ({ w with steps := st } : World) = core w := rfl
          refine Frame.left hcore (ih.impl name (evalKwargs ctx kwargs) fills ctx _ _ e w' hd ?_ hc (evalKwargs_free ctx hc kwargs) hgf
            (WInv.of_core hcore.symm hw) h)
          split
          · exact ctxFree_isolatedCopy ctx hc
          · exact hc

/-- the world in which `_render_impl` raised before it queued its renderer: at most the new `ComponentContext` entry -/
theorem frame_reg (w w' : World) (hw : WInv w) (cc : Option CompCtx) (hcc : ∀ c, cc = some c → GoodC c)
    (e1 : w'.nextId = w.nextId + 1)
    (e2 : w'.ctxCache = match cc with | some c => alSet w.nextId c w.ctxCache | none => w.ctxCache)
    (e3 : w'.rendererCache = w.rendererCache) (e4 : w'.childAttrs = w.childAttrs)
    (e5 : w'.provideCache = w.provideCache) (e6 : w'.provideRefs = w.provideRefs) (e7 : w'.allRefIds = w.allRefIds)
    (e8 : w'.cap = w.cap) (e9 : w'.events = w.events ∨ w'.events = w.events ++ [.gcd w.nextId]) : Frame w w' := by
  constructor
  rotate_right
  · rcases e9 with e9 | e9
    · exact EvsOk.same e9
    · refine ⟨[.gcd w.nextId], e9, ?_, by simp [gcdIds]⟩
      intro k hk; simp only [gcdIds, List.mem_singleton] at hk; omega
  · omega
  · intro k _; rw [e3]
  · intro k hk
    rw [e2]
    cases cc with
    | none => rfl
    | some c => exact alGet_alSet_ne _ _ _ _ (by omega)
  · intro k _; rw [e4]
  · exact ⟨e5, e6, e7⟩
  · intro k hk; rw [e3]; exact hw.rc k (by omega)
  · intro k hk
    rw [e2]
    cases cc with
    | none => exact hw.cc k (by omega)
    | some c => simp only; rw [alGet_alSet_ne _ _ _ _ (by omega)]; exact hw.cc k (by omega)
  · intro k hk; rw [e4]; exact hw.ca k (by omega)
  · intro _ k c hk
    rw [e2] at hk
    cases cc with
    | none => exact hw.good k c hk
    | some c0 =>
      simp only at hk
      by_cases e : w.nextId = k
      · rw [e, alGet_alSet_same] at hk
        injection hk with hk
        rw [← hk]; exact hcc c0 rfl
      · rw [alGet_alSet_ne _ _ _ _ e] at hk; exact hw.good k c hk

theorem Frame.of_core_eq {w a b : World} (h : core b = core a) (hf : Frame w a) : Frame w b := Frame.right h.symm hf

theorem loop_root_err (env : Env) (n : Nat) (ih : EStmt env n) (w w1 w' : World) (e : Err) (hw : WInv w)
    (h : (postRender env n [{ before := [], child := some w.nextId, parent := none, grand := none }] [] []).run.run w1 = (.error e, w'))
    (cc : CompCtx) (r : Renderer) (hg : GoodR env r w.nextId) (hcc : GoodC cc)
    (e1 : w1.nextId = w.nextId + 1) (e2 : w1.ctxCache = alSet w.nextId cc w.ctxCache)
    (e3 : w1.rendererCache = alSet w.nextId r w.rendererCache) (e4 : w1.childAttrs = w.childAttrs)
    (e5 : w1.provideCache = w.provideCache) (e6 : w1.provideRefs = w.provideRefs) (e7 : w1.allRefIds = w.allRefIds)
    (e8 : w1.cap = w.cap) (e9 : w1.events = w.events ++ [.gcd w.nextId]) :
    Frame w w' := by
  have hb := reg_Bal env w w1 cc r hw hg hcc e1 e2 e3 e4 e5 e6 e7 e8 e9
  have hl : LInv env w [{ before := [], child := some w.nextId, parent := none, grand := none }] w1 :=
    LInv.of_bal (by simpa [chIds] using hb) (by simp [opIds]) (by intro it hit; simp only [List.mem_singleton] at hit; rw [hit]; rfl)
  exact ih.loop _ [] [] w w1 e w' hw hl partsOk_nil rfl h

theorem estmt_impl (env : Env) (hlib : GoodLib env) (n : Nat) (ih : EStmt env n) :
    ∀ name kw fills o ctx w e w', isDynName name = false → ctxFree ctx = true → ctxFree o = true → slotFreeKvs kw = true →
    GoodFills fills → WInv w →
    (renderImpl env (n + 1) name kw fills (some o) ctx).run.run w = (.error e, w') → Frame w w' := by
  intro name kw fills o ctx w e w' hd hc ho hkw hgf hw h
  rw [renderImpl_succ] at h
  generalize parentOf ctx = par at h
  unfold implBody at h
  cases hf : findDef env name with
  | none =>
    cases par with
    | none =>
      simp only [run_bind, run_genId, hd, hf, Bool.false_eq_true, ↓reduceIte, Bool.not_false, run_pure, Option.isNone_none,
        Bool.true_and, Option.isSome_none, run_modify, registerRefW, hw.prov, List.isEmpty_nil, run_throw] at h
      cases hrc : hasRootRc ctx <;> simp only [hrc, Bool.false_eq_true, ↓reduceIte, run_pure, run_modify, run_bind, run_throw] at h <;>
        (split at h
         · rename_i a wt ht
           obtain ⟨g, rfl⟩ := tick_ok _ _ _ _ _ ht
           obtain ⟨_, rfl⟩ := err_inj h
           exact frame_reg w _ hw (some _) (fun c hc' => by injection hc' with hc'; rw [← hc']; exact good_cc name w.nextId _ fills o hgf ho) rfl rfl rfl rfl hw.prov.symm rfl rfl rfl (.inr rfl)
         · rename_i e2 wt ht
           obtain ⟨_, rfl⟩ := err_inj h
           have hc2 := tick_err _ _ _ _ _ ht
           exact Frame.of_core_eq hc2.1 (frame_reg w _ hw (some _) (fun c hc' => by injection hc' with hc'; rw [← hc']; exact good_cc name w.nextId _ fills o hgf ho) rfl rfl rfl rfl hw.prov.symm rfl rfl rfl hc2.2))
    | some p =>
      simp only [run_bind, run_genId, run_get] at h
      cases hpc : alGet p w.ctxCache with
      | none =>
        simp only [hpc, run_throw] at h
        obtain ⟨_, rfl⟩ := err_inj h
        exact frame_reg w _ hw none (fun _ hc' => by cases hc') rfl rfl rfl rfl rfl rfl rfl rfl (.inl rfl)
      | some pc =>
        simp only [hpc, hd, hf, Bool.false_eq_true, ↓reduceIte, Bool.not_false, run_pure, Option.isNone_some,
          Bool.false_and, Option.isSome_some, run_modify, registerRefW, hw.prov, List.isEmpty_nil, run_bind, run_throw] at h
        split at h
        · rename_i a wt ht
          obtain ⟨g, rfl⟩ := tick_ok _ _ _ _ _ ht
          obtain ⟨_, rfl⟩ := err_inj h
          exact frame_reg w _ hw (some _) (fun c hc' => by injection hc' with hc'; rw [← hc']; exact good_cc name w.nextId _ fills o hgf ho) rfl rfl rfl rfl hw.prov.symm rfl rfl rfl (.inr rfl)
        · rename_i e2 wt ht
          obtain ⟨_, rfl⟩ := err_inj h
          have hc2 := tick_err _ _ _ _ _ ht
          exact Frame.of_core_eq hc2.1 (frame_reg w _ hw (some _) (fun c hc' => by injection hc' with hc'; rw [← hc']; exact good_cc name w.nextId _ fills o hgf ho) rfl rfl rfl rfl hw.prov.symm rfl rfl rfl hc2.2)
  | some d =>
    have hgood := hlib d (findDef_mem env name d hf)
    have hgd := fun w' => getContextData_pure env w.nextId ctx kw d.data [] w' (pure_of_good d hgood.2)
    cases par with
    | none =>
      cases hrc : hasRootRc ctx with
      | true =>
        simp only [run_bind, run_genId, hd, hf, hrc, Bool.false_eq_true, ↓reduceIte, Bool.not_false, run_pure, Option.isNone_none,
          Bool.true_and, Bool.and_self, Option.isSome_none, run_modify, registerRefW, hw.prov, List.isEmpty_nil] at h
        split at h
        · rename_i a wt ht
          obtain ⟨g, rfl⟩ := tick_ok _ _ _ _ _ ht
          simp only [hgd, run_bind, run_pure, run_modify] at h
          exact loop_root_err env n ih w _ w' e hw h _ _ (good_renderer env name kw ctx w.nextId d _ fills hc hkw hf hgood.2)
            (good_cc name w.nextId _ fills o hgf ho) rfl rfl rfl rfl hw.prov.symm rfl rfl rfl rfl
        · rename_i e2 wt ht
          obtain ⟨_, rfl⟩ := err_inj h
          have hc2 := tick_err _ _ _ _ _ ht
          exact Frame.of_core_eq hc2.1 (frame_reg w _ hw (some _) (fun c hc' => by injection hc' with hc'; rw [← hc']; exact good_cc name w.nextId _ fills o hgf ho) rfl rfl rfl rfl hw.prov.symm rfl rfl rfl hc2.2)
      | false =>
        simp only [run_bind, run_genId, hd, hf, hrc, Bool.false_eq_true, ↓reduceIte, Bool.not_false, run_pure, Option.isNone_none,
          Bool.true_and, Bool.and_self, Bool.and_false, Option.isSome_none, run_modify, registerRefW, hw.prov, List.isEmpty_nil] at h
        split at h
        · rename_i a wt ht
          obtain ⟨g, rfl⟩ := tick_ok _ _ _ _ _ ht
          simp only [hgd, run_bind, run_pure, run_modify] at h
          exact loop_root_err env n ih w _ w' e hw h _ _ (good_renderer env name kw ctx w.nextId d _ fills hc hkw hf hgood.2)
            (good_cc name w.nextId _ fills o hgf ho) rfl rfl rfl rfl hw.prov.symm rfl rfl rfl rfl
        · rename_i e2 wt ht
          obtain ⟨_, rfl⟩ := err_inj h
          have hc2 := tick_err _ _ _ _ _ ht
          exact Frame.of_core_eq hc2.1 (frame_reg w _ hw (some _) (fun c hc' => by injection hc' with hc'; rw [← hc']; exact good_cc name w.nextId _ fills o hgf ho) rfl rfl rfl rfl hw.prov.symm rfl rfl rfl hc2.2)
    | some p =>
      simp only [run_bind, run_genId, run_get] at h
      cases hpc : alGet p w.ctxCache with
      | none =>
        simp only [hpc, run_throw] at h
        obtain ⟨_, rfl⟩ := err_inj h
        exact frame_reg w _ hw none (fun _ hc' => by cases hc') rfl rfl rfl rfl rfl rfl rfl rfl (.inl rfl)
      | some pc =>
        simp only [hpc, hd, hf, Bool.false_eq_true, ↓reduceIte, Bool.not_false, run_pure, Option.isNone_some,
          Bool.false_and, Option.isSome_some, run_modify, registerRefW, hw.prov, List.isEmpty_nil, run_bind] at h
        split at h
        · rename_i a wt ht
          obtain ⟨g, rfl⟩ := tick_ok _ _ _ _ _ ht
          simp only [hgd, run_bind, run_pure, run_modify] at h
          cases h
        · rename_i e2 wt ht
          obtain ⟨_, rfl⟩ := err_inj h
          have hc2 := tick_err _ _ _ _ _ ht
          exact Frame.of_core_eq hc2.1 (frame_reg w _ hw (some _) (fun c hc' => by injection hc' with hc'; rw [← hc']; exact good_cc name w.nextId _ fills o hgf ho) rfl rfl rfl rfl hw.prov.symm rfl rfl rfl hc2.2)


theorem frame_events {w : World} (hw : WInv w) (evs : List Ev) (g : Nat) (hq : EvsOk w { w with events := evs, gcds := g }) :
    Frame w { w with events := evs, gcds := g } :=
  ⟨Nat.le_refl _, fun _ _ => rfl, fun _ _ => rfl, fun _ _ => rfl, ⟨rfl, rfl, rfl⟩, hw.rc, hw.cc, hw.ca, fun h => h, hq⟩

theorem estmt_run (env : Env) (hlib : GoodLib env) (n : Nat) (ih : EStmt env n) :
    ∀ r k attrs w e w', GoodR env r k → WInv w →
    (runRenderer env (n + 1) r attrs).run.run w = (.error e, w') → Frame w w' := by
  intro r k attrs w e w' hg hw h
  unfold runRenderer at h
  obtain ⟨d, hf⟩ := hg.reg
  simp only [hg.dyn, Option.isNone_none, ↓reduceIte, hf] at h
  rcases bind_err _ _ _ _ _ h with ht | ⟨u, w1, ht, h⟩
  · have hc2 := tick_err _ _ _ _ _ ht
    exact Frame.of_core_eq hc2.1 (frame_events hw _ _ (EvsOk.one (Ev.before r.id) rfl rfl hc2.2))
  · obtain ⟨g, rfl⟩ := tick_ok _ _ _ _ _ ht
    have hf1 : Frame w { w with events := w.events ++ [Ev.before r.id], gcds := g } :=
      frame_events hw _ _ (EvsOk.quiet [Ev.before r.id] rfl rfl)
    rcases bind_err _ _ _ _ _ h with hr | ⟨html, w2, hr, h⟩
    · exact hf1.trans (ih.nodes d.template r.ctx _ e w' (hlib d (findDef_mem env r.name d hf)).1 hg.free (hf1.winv hw) hr)
    · simp only [run_pure] at h; cases h

theorem estmt_loop (env : Env) (hlib : GoodLib env) (n : Nat) (ih : EStmt env n) :
    ∀ Q parts out w0 w e w', WInv w0 → LInv env w0 Q w → PartsOk parts → holeIds out = [] →
    (postRender env (n + 1) Q parts out).run.run w = (.error e, w') → Frame w0 w' := by
  have st := stmt_all env hlib n
  intro Q parts out w0 w e w' h0 hl hp ho h
  cases Q with
  | nil => simp only [postRender, run_pure] at h; cases h
  | cons item queue =>
    unfold postRender at h
    cases hc : item.child with
    | none =>
      simp only [hc] at h
      cases hpar : item.parent with
      | none =>
        simp only [hpar, run_throw] at h
        obtain ⟨_, rfl⟩ := err_inj h
        exact linv_frame h0 hl
      | some pid =>
        simp only [hpar] at h
        rcases bind_err _ _ _ _ _ h with hget | ⟨wg, w1, hget, h⟩
        · simp only [run_get] at hget; cases hget
        · simp only [run_get] at hget
          obtain ⟨rfl, rfl⟩ := ok_inj hget
          rw [ite_hoist] at h
          rcases bind_err _ _ _ _ _ h with ht | ⟨u, w1, ht, h⟩
          · -- the `on_render_after` callback raised
            have hfr := linv_frame h0 hl
            split at ht
            · have hc2 := tick_err _ _ _ _ _ ht
              exact hfr.trans (Frame.of_core_eq hc2.1 (frame_events (hl.winv h0) _ _ (EvsOk.one (Ev.after pid) rfl rfl hc2.2)))
            · simp only [run_pure] at ht; cases ht
          · obtain ⟨evs, g, rfl, hev⟩ := opt_tick_ok env _ _ _ _ _ ht (by intro i hh; cases hh)
            simp only [run_bind, run_modify, unregisterRef, run_liftW, unregisterRefW] at h
            have hpr : w0.nextId ≤ pid := (hl.range pid (by simp [chIds, opIds, hc, hpar])).1
            have href : w.allRefIds.contains pid = false := by rw [hl.prov.2.2.1]; exact h0.refs pid hpr
            simp only [href, Bool.not_false, ↓reduceIte, run_pure] at h
            have hl2 : LInv env w0 queue ({ w with ctxCache := alDel pid w.ctxCache, events := w.events ++ evs, gcds := g } : World) :=
              LInv.finish h0 hl hc hpar hev rfl
            have hhtml : holeIds (partsGet pid parts ++ item.before) = [] := by
              rw [holeIds_append, hp pid, hl.noh item (List.mem_cons_self ..)]; rfl
            cases hgr : item.grand with
            | none =>
              simp only [hgr] at h
              exact ih.loop queue _ _ w0 _ e w' h0 hl2 (partsOk_del parts pid hp) (by simp [holeIds_append, ho, hhtml]) h
            | some gid =>
              simp only [hgr] at h
              refine ih.loop queue _ _ w0 _ e w' h0 hl2 (partsOk_set _ gid _ (partsOk_del parts pid hp) ?_) ho h
              simp [holeIds_append, partsOk_del parts pid hp gid, hhtml]
    | some cid =>
      simp only [hc] at h
      have hfr := linv_frame h0 hl
      rcases bind_err _ _ _ _ _ h with hparts | ⟨parts', w1, hparts, hq⟩
      · -- "Parent ID is None"
        cases hb : item.before.isEmpty with
        | true => simp only [hb, ↓reduceIte, run_pure] at hparts; cases hparts
        | false =>
          simp only [hb, Bool.false_eq_true, ↓reduceIte] at hparts
          cases hpar : item.parent with
          | none => simp only [hpar, run_throw] at hparts; obtain ⟨_, rfl⟩ := err_inj hparts; exact hfr
          | some pid => simp only [hpar, run_pure] at hparts; cases hparts
      · clear h
        have hp' : PartsOk parts' ∧ w = w1 := by
          cases hb : item.before.isEmpty with
          | true =>
            simp only [hb, ↓reduceIte, run_pure] at hparts
            obtain ⟨rfl, rfl⟩ := ok_inj hparts
            exact ⟨hp, rfl⟩
          | false =>
            simp only [hb, Bool.false_eq_true, ↓reduceIte] at hparts
            cases hpar : item.parent with
            | none => simp only [hpar, run_throw] at hparts; cases hparts
            | some pid =>
              simp only [hpar, run_pure] at hparts
              obtain ⟨rfl, rfl⟩ := ok_inj hparts
              refine ⟨partsOk_set _ pid _ hp ?_, rfl⟩
              rw [holeIds_append, hp pid, hl.noh item (List.mem_cons_self ..)]; rfl
        obtain ⟨hp', hww⟩ := hp'
        subst hww
        clear hparts
        rcases bind_err _ _ _ _ _ hq with hget | ⟨wg, w1, hget, hq⟩
        · cases (show ((Except.ok w : Except Err World), w) = _ from hget)
        · obtain ⟨hwg, hw1⟩ := ok_inj (show ((Except.ok w : Except Err World), w) = _ from hget)
          subst hwg
          subst hw1
          obtain ⟨r, hr, hg⟩ := hl.rcNew cid (by simp [chIds, hc])
          simp only [hr] at hq
          rcases bind_err _ _ _ _ _ hq with hset | ⟨u, w1, hset, hq⟩
          · simp only [run_set] at hset; cases hset
          · simp only [run_set] at hset
            obtain ⟨_, hw1⟩ := ok_inj hset
            subst hw1
            have hwg := hl.winv h0
            have hw1 : WInv ({ w with rendererCache := alDel cid w.rendererCache, childAttrs := alDel cid w.childAttrs } : World) :=
              ⟨hwg.prov, fun k hk => alGet_alDel_none k cid _ (hwg.rc k hk), hwg.cc, fun k hk => alGet_alDel_none k cid _ (hwg.ca k hk), hwg.refs, hwg.good⟩
            have hcid : w0.nextId ≤ cid := (hl.range cid (by simp [chIds, hc])).1
            have hfr1 : Frame w0 ({ w with rendererCache := alDel cid w.rendererCache, childAttrs := alDel cid w.childAttrs } : World) :=
              ⟨hfr.next,
               fun k hk => by rw [alGet_alDel_ne _ _ _ (by omega : cid ≠ k)]; exact hfr.rc k hk,
               hfr.cc,
               fun k hk => by rw [alGet_alDel_ne _ _ _ (by omega : cid ≠ k)]; exact hfr.ca k hk,
               hfr.prov, hw1.rc, hw1.cc, hw1.ca, hfr.good, hfr.evs⟩
            rcases bind_err _ _ _ _ _ hq with hrun | ⟨cg, w2, hrun, hq⟩
            · exact hfr1.trans (ih.run r cid _ _ e w' hg hw1 hrun)
            · obtain ⟨content, ga⟩ := cg
              obtain ⟨hb, hga⟩ := st.run r cid _ _ content ga w2 hg hw1 hrun
              rcases bind_err _ _ _ _ _ hq with hmod | ⟨u2, w3, hmod, hq⟩
              · simp only [run_modify] at hmod; cases hmod
              · simp only [run_modify] at hmod
                obtain ⟨_, hw3⟩ := ok_inj hmod
                subst hw3
                have hl3 := LInv.child (w3 := _) h0 hl hc rfl hb hga rfl
                exact ih.loop _ parts' out w0 _ e w' h0 hl3 hp' ho hq

theorem estmt_all (env : Env) (hlib : GoodLib env) : ∀ n, EStmt env n
  | 0 => estmt_zero env
  | n + 1 =>
    have ih := estmt_all env hlib n
    { nodes := estmt_nodes env hlib n ih
      for_ := estmt_for env hlib n ih
      node := estmt_node env hlib n ih
      tag := estmt_tag env n ih
      impl := estmt_impl env hlib n ih
      run := estmt_run env hlib n ih
      slot := estmt_slot env n ih
      loop := estmt_loop env hlib n ih }

/-- **A render of the fragment that raises — wherever, for whatever reason — disturbs nothing that was there before.** -/
theorem tree_failure_frame (env : Env) (hlib : GoodLib env) (n : Nat) (name : Str) (kwargs : List (Str × Expr)) (only dyn : Bool)
    (body : List Node) (ctx : Ctx) (w w' : World) (e : Err) (hd : isDynName name = false) (hb : gbody body = true)
    (hc : ctxFree ctx = true) (hw : WInv w)
    (h : (renderCompTag env n name kwargs only dyn body ctx).run.run w = (.error e, w')) : Frame w w' :=
  (estmt_all env hlib n).tag name kwargs only dyn body ctx w e w' hd hb hc hw h



/-! ### histories of renders -/

/-- one top-level render request: a `{% component %}` tag of the fragment and the Context it is rendered with -/
structure Req where
  name : Str
  kwargs : List (Str × Expr)
  only : Bool
  body : List Node
  ctx : Ctx

def Req.Good (env : Env) (q : Req) : Prop :=
  isDynName q.name = false ∧ gbody q.body = true ∧ ctxFree q.ctx = true ∧ isExtracting q.ctx = false ∧
    parentOf (if q.only || env.isolated then isolatedCopy q.ctx else q.ctx) = none

/-- the world after a history of renders, whatever each of them did (returned or raised) -/
def runHist (env : Env) (fuel : Nat) : List Req → World → World
  | [], w => w
  | q :: rest, w => runHist env fuel rest ((renderCompTag env fuel q.name q.kwargs q.only false q.body q.ctx).run.run w).2

/-- did every render of the history return? -/
def allReturn (env : Env) (fuel : Nat) : List Req → World → Prop
  | [], _ => True
  | q :: rest, w =>
    (∃ toks, ((renderCompTag env fuel q.name q.kwargs q.only false q.body q.ctx).run.run w).1 = .ok toks) ∧
      allReturn env fuel rest ((renderCompTag env fuel q.name q.kwargs q.only false q.body q.ctx).run.run w).2

theorem frame_of_run (env : Env) (hlib : GoodLib env) (fuel : Nat) (q : Req) (hq : q.Good env) (w : World) (hw : WInv w) :
    Frame w ((renderCompTag env fuel q.name q.kwargs q.only false q.body q.ctx).run.run w).2 := by
  obtain ⟨hd, hb, hc, _, _⟩ := hq
  rcases hr : (renderCompTag env fuel q.name q.kwargs q.only false q.body q.ctx).run.run w with ⟨r, w'⟩
  cases r with
  | error e => exact tree_failure_frame env hlib fuel q.name q.kwargs q.only false q.body q.ctx w w' e hd hb hc hw hr
  | ok toks => exact Frame.of_bal hw ((stmt_all env hlib fuel).tag q.name q.kwargs q.only false q.body q.ctx w toks w' hd hb hc hw hr)

/-- **Any history of renders — returning and raising mixed in any order — keeps the world well-formed and never touches
an entry that existed before the history began.** -/
theorem history_frame (env : Env) (hlib : GoodLib env) (fuel : Nat) : ∀ (qs : List Req) (w : World),
    (∀ q ∈ qs, q.Good env) → WInv w → Frame w (runHist env fuel qs w)
  | [], w, _, hw => Frame.refl hw
  | q :: rest, w, hq, hw => by
    have h1 := frame_of_run env hlib fuel q (hq q (List.mem_cons_self ..)) w hw
    exact h1.trans (history_frame env hlib fuel rest _ (fun x hx => hq x (List.mem_cons_of_mem _ hx)) (h1.winv hw))

/-- **A history in which every render returned leaves every registry exactly as it was** (lookup for lookup), however
many renders, however deep their trees. -/
theorem history_all_returned (env : Env) (hlib : GoodLib env) (fuel : Nat) : ∀ (qs : List Req) (w : World),
    (∀ q ∈ qs, q.Good env) → WInv w → allReturn env fuel qs w →
    (∀ k, alGet k (runHist env fuel qs w).ctxCache = alGet k w.ctxCache) ∧
    (∀ k, alGet k (runHist env fuel qs w).rendererCache = alGet k w.rendererCache) ∧
    (∀ k, alGet k (runHist env fuel qs w).childAttrs = alGet k w.childAttrs)
  | [], w, _, _, _ => ⟨fun _ => rfl, fun _ => rfl, fun _ => rfl⟩
  | q :: rest, w, hq, hw, hall => by
    obtain ⟨⟨toks, hok⟩, hrest⟩ := hall
    obtain ⟨hd, hb, hc, hext, hpar⟩ := hq q (List.mem_cons_self ..)
    rcases hr : (renderCompTag env fuel q.name q.kwargs q.only false q.body q.ctx).run.run w with ⟨r, w'⟩
    rw [hr] at hok hrest
    simp only at hok
    subst hok
    obtain ⟨hbal, _⟩ := tree_root_tag env hlib fuel q.name q.kwargs q.only false q.body q.ctx w w' toks hd hb hc hw hext hpar hr
    have hw' := hw.step hbal
    obtain ⟨i1, i2, i3⟩ := history_all_returned env hlib fuel rest w' (fun x hx => hq x (List.mem_cons_of_mem _ hx)) hw' hrest
    simp only [runHist, hr]
    exact ⟨fun k => (i1 k).trans (hbal.cc k (by simp)), fun k => (i2 k).trans (hbal.rc k (by simp)), fun k => (i3 k).trans (hbal.ca k)⟩

theorem range'_glue (a b c : Nat) (h1 : a ≤ b) (h2 : b ≤ c) :
    List.range' a (b - a) ++ List.range' b (c - b) = List.range' a (c - a) := by
  have e : b = a + 1 * (b - a) := by omega
  have h := List.range'_append (s := a) (m := b - a) (n := c - b) (step := 1)
  rw [← e] at h
  rw [h]
  congr 1
  omega

/-- **Ids over a whole history of returning renders**: the `get_context_data` calls made by all the renders of the
history together carry the ids `w.nextId, …, final.nextId - 1`, each exactly once, in order — no two instances of any two
pages rendered by the process share an id. -/
theorem history_ids_returned (env : Env) (hlib : GoodLib env) (fuel : Nat) : ∀ (qs : List Req) (w : World),
    (∀ q ∈ qs, q.Good env) → WInv w → allReturn env fuel qs w →
    w.nextId ≤ (runHist env fuel qs w).nextId ∧
    ∃ evs, (runHist env fuel qs w).events = w.events ++ evs ∧
      gcdIds evs = List.range' w.nextId ((runHist env fuel qs w).nextId - w.nextId)
  | [], w, _, _, _ => ⟨Nat.le_refl _, [], by simp [runHist], by simp [runHist, gcdIds]⟩
  | q :: rest, w, hq, hw, hall => by
    obtain ⟨⟨toks, hok⟩, hrest⟩ := hall
    obtain ⟨hd, hb, hc, hext, hpar⟩ := hq q (List.mem_cons_self ..)
    rcases hr : (renderCompTag env fuel q.name q.kwargs q.only false q.body q.ctx).run.run w with ⟨r, w'⟩
    rw [hr] at hok hrest
    simp only at hok
    subst hok
    obtain ⟨hbal, _⟩ := tree_root_tag env hlib fuel q.name q.kwargs q.only false q.body q.ctx w w' toks hd hb hc hw hext hpar hr
    have hw' := hw.step hbal
    obtain ⟨hn, evs2, he2, hg2⟩ := history_ids_returned env hlib fuel rest w' (fun x hx => hq x (List.mem_cons_of_mem _ hx)) hw' hrest
    obtain ⟨evs1, he1, hg1⟩ := hbal.evs
    simp only [runHist, hr]
    refine ⟨Nat.le_trans hbal.next hn, evs1 ++ evs2, ?_, ?_⟩
    · rw [he2, he1, List.append_assoc]
    · rw [gcdIds_append, hg1, hg2]
      exact range'_glue _ _ _ hbal.next hn

/-- **Ids over any history** — renders returning and raising in any order: the `get_context_data` calls logged over the
whole history carry strictly increasing ids, all generated during the history. -/
theorem history_ids (env : Env) (hlib : GoodLib env) (fuel : Nat) (qs : List Req) (w : World)
    (hq : ∀ q ∈ qs, q.Good env) (hw : WInv w) :
    ∃ evs, (runHist env fuel qs w).events = w.events ++ evs ∧
      (∀ k ∈ gcdIds evs, w.nextId ≤ k ∧ k < (runHist env fuel qs w).nextId) ∧
      (gcdIds evs).Pairwise (· < ·) ∧ (gcdIds evs).Nodup := by
  obtain ⟨evs, he, hr, hp⟩ := (history_frame env hlib fuel qs w hq hw).evs
  exact ⟨evs, he, hr, hp, hp.imp (fun h => Nat.ne_of_lt h)⟩

/-- the three-level example with a fault injected into its fourth callback (`get_context_data` of a leaf): the render
raises the injected error; entries of the unfinished instances stay (the listed finding), all under ids of this render -/
def exFailSummary : Bool :=
  let env : Env := { exEnv false with raiseAt := some (3, 0) }
  match (renderCompTag env 40 "page".toList [] false false [] exCtx).run.run {} with
  | (.error (.user 0), w') =>
    !w'.ctxCache.isEmpty && w'.ctxCache.all (fun kv => 1 ≤ kv.1 && kv.1 < w'.nextId) &&
      w'.rendererCache.all (fun kv => 1 ≤ kv.1 && kv.1 < w'.nextId) && w'.provideCache.isEmpty && w'.allRefIds.isEmpty
  | _ => false

/-- a history of three renders of the example page, the first with a fault in its fourth callback: the first raises,
the other two return; the ids handed to `get_context_data` over the whole history are pairwise distinct, and the
failed render's ids are not reused -/
def exHistIds : Bool :=
  let env : Env := { exEnv false with raiseAt := some (3, 0) }
  let q : Req := { name := "page".toList, kwargs := [], only := false, body := [], ctx := exCtx }
  let r1 := (renderCompTag env 40 q.name q.kwargs q.only false q.body q.ctx).run.run {}
  let w3 := runHist env 40 [q, q, q] {}
  let ids := gcdIds w3.events
  (match r1.1 with | .error (.user 0) => true | _ => false) &&
    decide (ids.Nodup) && decide (ids.length > 2 * (gcdIds r1.2.events).length) && decide (ids.length + 1 ≤ w3.nextId)

end Djc.Proofs.TreeFail
