/-
  C04 model: from the render markers of a page to the JS / CSS that is delivered.

  mirrors dependencies.py: COMPONENT_COMMENT_REGEX (which marker payloads the byte regex recognises),
  _process_dep_declarations (first-appearance dedupe of class hashes with a `seen` set),
  _prepare_tags_and_urls (inline in document mode / declare in fragment mode, only non-empty js / css),
  _postprocess_media_tags (dedupe of Media tags by URL, first tag wins).
-/
namespace Djc.Collect

abbrev Str := List Char

structure Cls where
  hasJs : Bool            -- is_nonempty_str(comp_cls.js)
  hasCss : Bool
  mediaJs : List Str      -- URLs of comp.media (own + inherited, see C16)
  mediaCss : List Str
deriving Repr, Inhabited

/-- the loop over `all_parts` with `seen_comp_hashes` / `comp_hashes` -/
def collectLoop : List Nat → List Nat → List Nat → List Nat
  | [], _, acc => acc
  | c :: rest, seen, acc =>
    if seen.contains c then collectLoop rest seen acc
    else collectLoop rest (c :: seen) (acc ++ [c])

def collect (ms : List Nat) : List Nat := collectLoop ms [] []

/-- the loop of `_postprocess_media_tags` with `tags_by_url` / `urls` -/
def dedupeLoop : List Str → List Str → List Str
  | [], urls => urls
  | u :: rest, urls => if urls.contains u then dedupeLoop rest urls else dedupeLoop rest (urls ++ [u])

def dedupe (us : List Str) : List Str := dedupeLoop us []

/-- specification of both: keep the first occurrence of everything, in order -/
def firstOcc {α} [DecidableEq α] : List α → List α
  | [] => []
  | a :: rest => a :: (firstOcc rest).filter (· ≠ a)

/-- a byte of the marker payload the regex class `[\w\-,/]` (bytes pattern: ASCII `\w`) accepts -/
def payloadChar (c : Char) : Bool :=
  c.val < 128 && (c.isAlphanum || c = '_' || c = '-' || c = ',' || c = '/')

/-- `COMPONENT_COMMENT_REGEX` recognises the marker with this payload -/
def harvestable (payload : Str) : Bool := !payload.isEmpty && payload.all payloadChar

/-- `hash,id,js,css` as written by `insert_component_dependencies_comment` (no js / css variables) -/
def payloadOf (clsHash id : Str) : Str := clsHash ++ [','] ++ id ++ [',', ',']

structure Out where
  classes : List Nat       -- comp_hashes
  inlineJs : List Nat      -- classes whose Component.js is inlined, in order (document)
  inlineCss : List Nat
  loadJsClasses : List Nat -- classes whose Component.js URL is declared to the loader (fragment)
  loadCssClasses : List Nat
  mediaJs : List Str       -- Media.js URLs after dedupe
  mediaCss : List Str
deriving Repr, Inhabited

def process (doc : Bool) (table : Nat → Cls) (ms : List Nat) : Out :=
  let cs := collect ms
  { classes := cs
    inlineJs := if doc then cs.filter (fun c => (table c).hasJs) else []
    inlineCss := if doc then cs.filter (fun c => (table c).hasCss) else []
    loadJsClasses := if doc then [] else cs.filter (fun c => (table c).hasJs)
    loadCssClasses := if doc then [] else cs.filter (fun c => (table c).hasCss)
    mediaJs := dedupe (cs.map (fun c => (table c).mediaJs)).flatten
    mediaCss := dedupe (cs.map (fun c => (table c).mediaCss)).flatten }

end Djc.Collect
