/-
  Operational model of the render pipeline.

  mirrors, function by function:
    component.py         ComponentNode.render, Component._render / _render_impl, _gen_component_renderer,
                         Component.inject, _normalize_slot_fills (string content)
    slots.py             SlotNode.render (+ _resolve_slot_context), FillNode.render / _extract_fill,
                         resolve_fills, _extract_fill_content, _nodelist_to_slot_render_func.render_func,
                         SlotIsFilled, SlotRef.__str__
    context.py           make_isolated_context_copy, _copy_forloop_context
    provide.py           ProvideNode.render, set_provided_context_var, get_injected_context_var
    perfutil/provide.py  managed_provide_cache, register_provide_reference, unregister_provide_reference
    perfutil/component.py component_post_render (the deque loop), the three module-level dicts
    components/dynamic.py DynamicComponent.get_context_data / on_render_before
    dependencies.py      set_component_attrs_for_js_and_css (token form), insert_component_dependencies_comment
    django               IfNode, ForNode, WithNode, VariableNode, Context push / update / new / flatten

  Python mutates one Context object in place and pops what it pushed; here a context is a value
  passed down, so "pop" is returning to the caller's value.  The places where the code edits
  `Context.dicts` by index (`render_func`) are modelled on the list.  Snapshots are the identity on
  values.  Every module-level registry is a field of `World`.
-/
import Djc.Model.Tpl
namespace Djc.Render
open Djc.Tpl

inductive Err where
  | outOfFuel
  | budget                            -- more work than the driver is willing to do (the case is skipped, not judged)
  | tse (site : String)               -- TemplateSyntaxError
  | notRegistered
  | keyError (site : String)
  | typeError (site : String)
  | runtime (site : String)
  | user (cls : Nat)                  -- fault injected into a user callback
deriving Repr, DecidableEq, Inhabited

/-- a `Slot` -/
structure FillFn where
  nodes : List Node
  dataVar : Option Str
  defaultVar : Option Str
  extra : Layer
  content : Option Str := none        -- plain string passed from Python (already escaped)
deriving Repr, Inhabited

/-- `ComponentContext` -/
structure CompCtx where
  name : Str
  id : Nat
  path : List Str
  fills : List (Str × FillFn)
  isDyn : Bool
  defaultSlot : Option Str
  outer : Option Ctx
deriving Repr, Inhabited

inductive Src where
  | kwarg (k : Str)                   -- kwargs.get(k, "")
  | const (v : Val)
  | inject (key : Str) (dflt : Option Str)
  | selfId                            -- self.id
  | side                              -- a nested, completed `OtherComponent.render()` whose result is dropped
deriving Repr, Inhabited

structure CompDef where
  name : Str
  template : List Node
  data : List (Str × Src)
deriving Repr, Inhabited

/-- what `_gen_component_renderer` closes over -/
structure Renderer where
  id : Nat
  name : Str
  ctx : Ctx                           -- the snapshot
  dynInner : Option (Str × List (Str × Val) × Ctx) := none   -- dynamic: inner name, kwargs, input.context
  fills : List (Str × FillFn) := []
  outer : Option Ctx := none
deriving Repr, Inhabited

inductive Ev where
  | gcd (id : Nat)
  | before (id : Nat)
  | after (id : Nat)
  | inject (id : Nat) (key : Str)
deriving Repr, DecidableEq, Inhabited

structure Captured where
  name : Str
  dataVar : Option Str
  defaultVar : Option Str
  nodes : List Node
  extra : Layer
deriving Repr, Inhabited

structure World where
  nextId : Nat := 1
  ctxCache : List (Nat × CompCtx) := []         -- component_context_cache
  rendererCache : List (Nat × Renderer) := []   -- component_renderer_cache
  childAttrs : List (Nat × List Str) := []      -- child_component_attrs
  provideCache : List (Nat × Layer) := []       -- provide_cache
  provideRefs : List (Nat × List Nat) := []     -- provide_references
  allRefIds : List Nat := []                    -- all_reference_ids
  cap : List Captured := []                     -- the list under `_DJC_FILL_GEN`
  events : List Ev := []
  rcLeak : Nat := 0                             -- layers left on the caller's render_context
  gcds : Nat := 0                               -- number of `get_context_data` calls so far
  steps : Nat := 0                              -- node renders so far
deriving Repr, Inhabited

structure Env where
  isolated : Bool
  lib : List CompDef
  raiseAt : Option (Nat × Nat) := none          -- (event index, error class)
  maxInst : Nat := 150                          -- more `get_context_data` calls than this = divergence
  maxSteps : Nat := 30000                       -- node renders the driver is willing to do for one program
deriving Repr, Inhabited

abbrev M := ExceptT Err (StateM World)

def findDef (env : Env) (n : Str) : Option CompDef := env.lib.find? (fun d => d.name = n)

def alGet {β} (k : Nat) : List (Nat × β) → Option β
  | [] => none
  | (k', v) :: rest => if k' = k then some v else alGet k rest
def alSet {β} (k : Nat) (v : β) : List (Nat × β) → List (Nat × β)
  | [] => [(k, v)]
  | (k', v') :: rest => if k' = k then (k', v) :: rest else (k', v') :: alSet k v rest
def alDel {β} (k : Nat) : List (Nat × β) → List (Nat × β)
  | [] => []
  | (k', v) :: rest => if k' = k then alDel k rest else (k', v) :: alDel k rest
def alHas {β} (k : Nat) (l : List (Nat × β)) : Bool := (alGet k l).isSome

def sGet (k : Str) : List (Str × FillFn) → Option FillFn
  | [] => none
  | (k', v) :: rest => if k' = k then some v else sGet k rest
def sSet (k : Str) (v : FillFn) : List (Str × FillFn) → List (Str × FillFn)
  | [] => [(k, v)]
  | (k', v') :: rest => if k' = k then (k', v) :: rest else (k', v') :: sSet k v rest

def genId : M Nat := do
  let w ← get
  set { w with nextId := w.nextId + 1 }
  pure w.nextId

/-- a user callback: recorded, or raising when it is the selected one -/
def tick (env : Env) (e : Ev) : M Unit := do
  let w ← get
  let w ← (match e with
    | .gcd _ => if w.gcds ≥ env.maxInst then throw .outOfFuel else pure { w with gcds := w.gcds + 1 }
    | _ => pure w : M World)
  match env.raiseAt with
  | some (i, c) =>
    if w.events.length = i then
      set { w with events := w.events ++ [e] }
      throw (.user c)
    else set { w with events := w.events ++ [e] }
  | none => set { w with events := w.events ++ [e] }

/-! ### provide bookkeeping (perfutil/provide.py) -/

/-- a step of the bookkeeping: the exception it raises (if any) and the world at that point -/
abbrev WStep := World → Option Err × World

/-- `provide_cache.pop(provide_id)` (no default: KeyError when the entry is gone) -/
def popProvideCacheW (pid : Nat) : WStep := fun w =>
  if alHas pid w.provideCache then (none, { w with provideCache := alDel pid w.provideCache })
  else (some (.keyError "provide_cache.pop"), w)

/-- the loop of `unregister_provide_reference` over `list(provide_references.keys())` -/
def unregisterLoopW (rid : Nat) : List Nat → WStep
  | [], w => (none, w)
  | p :: ps, w =>
    match alGet p w.provideRefs with
    | none => (some (.keyError "provide_references"), w)
    | some refs =>
      if !refs.contains rid then unregisterLoopW rid ps w
      else
        let refs' := refs.filter (· ≠ rid)
        let w1 : World := { w with provideRefs := alSet p refs' w.provideRefs }
        if refs'.isEmpty then
          match popProvideCacheW p w1 with
          | (some e, w2) => (some e, w2)
          | (none, w2) => unregisterLoopW rid ps { w2 with provideRefs := alDel p w2.provideRefs }
        else unregisterLoopW rid ps w1

/-- `unregister_provide_reference` -/
def unregisterRefW (rid : Nat) : WStep := fun w =>
  if !w.allRefIds.contains rid then (none, w)
  else unregisterLoopW rid (w.provideRefs.map (·.1)) { w with allRefIds := w.allRefIds.filter (· ≠ rid) }

/-- run a bookkeeping step inside the interpreter: the world is kept, the exception is raised -/
def liftW (f : WStep) : M Unit := do
  let w ← get
  let r := f w
  set r.2
  match r.1 with
  | some e => throw e
  | none => pure ()

def unregisterRef (rid : Nat) : M Unit := liftW (unregisterRefW rid)

def provIdsOf (ctx : Ctx) : List Nat :=
  (injectKeysOf ctx).filterMap (fun kv => match kv.2 with | .provRef p => some p | _ => none)

def registerRefW (ctx : Ctx) (rid : Nat) (w : World) : World :=
  if w.provideCache.isEmpty then w
  else
    let w := { w with allRefIds := if w.allRefIds.contains rid then w.allRefIds else w.allRefIds ++ [rid] }
    (provIdsOf ctx).foldl (fun w p =>
      let refs := (alGet p w.provideRefs).getD []
      { w with provideRefs := alSet p (if refs.contains rid then refs else refs ++ [rid]) w.provideRefs }) w

/-- what `managed_provide_cache` does on entry: the provider's own reference -/
def holdSelfW (pid : Nat) (w : World) : World :=
  let refs := (alGet pid w.provideRefs).getD []
  { w with provideRefs := alSet pid (if refs.contains pid then refs else refs ++ [pid]) w.provideRefs }

/-- `cache_cleanup` inside `managed_provide_cache` -/
def cacheCleanupW (pid : Nat) : WStep := fun w =>
  -- the provider drops the reference it held for the duration of its body
  let w : World := match alGet pid w.provideRefs with
    | some refs => { w with provideRefs := alSet pid (refs.filter (· ≠ pid)) w.provideRefs }
    | none => w
  match alGet pid w.provideRefs with
  | some refs =>
    if refs.isEmpty then popProvideCacheW pid { w with provideRefs := alDel pid w.provideRefs }
    else (none, w)
  | none => if alHas pid w.provideCache then popProvideCacheW pid w else (none, w)

def cacheCleanup (pid : Nat) : M Unit := liftW (cacheCleanupW pid)

def unregisterAllW : List Nat → WStep
  | [], w => (none, w)
  | r :: rs, w =>
    match unregisterRefW r w with
    | (some e, w') => (some e, w')
    | (none, w') => unregisterAllW rs w'

/-- the `except` branch of `managed_provide_cache` (before re-raising): every reference id that
appeared in the process-global set since the provider was entered is unregistered -/
def provideFailW (pid : Nat) (before : List Nat) : WStep := fun w =>
  match unregisterAllW (w.allRefIds.filter (fun r => !before.contains r)) w with
  | (some e, w') => (some e, w')
  | (none, w') => cacheCleanupW pid w'

def provideFail (pid : Nat) (before : List Nat) : M Unit := liftW (provideFailW pid before)

/-! ### contexts -/

/-- Object identity of a `Context`: the layers an object has when it is created (a snapshot, an
isolated copy, the root context) are marked with a key no template can name.  Everything pushed or
inserted later is transient: the code pops it before the render that uses the object returns.  So
the state of "the same Python object" once that render has returned is its marked layers. -/
def permKey : Str := "\x00perm".toList

def rebase (ctx : Ctx) : Ctx := ctx.map (fun l => setL permKey .none l)

/-- `Context.render_context` identity: the caller's `RenderContext` object is shared by the root
Context and by isolated copies of it (`context_copy.render_context = context.render_context`);
snapshots carry a copy.  Marked in layer 0 under a key no template can name. -/
def rcRootKey : Str := "\x00rcroot".toList

def hasRootRc (ctx : Ctx) : Bool :=
  match ctx with
  | l0 :: _ => hasL rcRootKey l0
  | [] => false

/-- `snapshot_context`: a new Context object with its own copy of the render context -/
def snapshot (ctx : Ctx) : Ctx :=
  rebase (match ctx with
    | l0 :: rest => l0.filter (fun kv => kv.1 ≠ rcRootKey) :: rest
    | [] => [])

/-- the Context a page is rendered with: `Context(vars)` -/
def rootCtx (vars : Layer) : Ctx := rebase [[(rcRootKey, .none)], vars]

/-- the state of the same Context object once the template render that was using it has returned -/
def liveLater (ctx : Ctx) : Ctx := ctx.filter (hasL permKey)

/-- `_copy_forloop_context`: the layer that is copied, if any.  The code takes the last layer that
has a `forloop` key; when that is layer 0 the index is falsy and `or -1` selects the newest layer. -/
def forLayerToCopy (ctx : Ctx) : Option Layer :=
  match (ctx.drop 1).reverse.find? (hasL forloopKey) with
  | some l => some l
  | none => if hasL forloopKey (ctx.headD []) then ctx.getLast? else none

/-- `make_isolated_context_copy` -/
def isolatedCopy (ctx : Ctx) : Ctx :=
  let l0 : Layer := if hasRootRc ctx then [(rcRootKey, .none)] else []
  let base : Ctx := match forLayerToCopy ctx with
    | some l => [l0, l]
    | none => [l0]
  let base := match ctxGet ctx compKey with
    | some v => ctxSetTop base compKey v
    | none => base
  rebase ((injectKeysOf ctx).foldl (fun b kv => ctxSetTop b kv.1 kv.2) base)

def isExtracting (ctx : Ctx) : Bool := ctxHas ctx fillGenKey

/-- `FillNode._extract_fill`: the captured variables -/
def capturedExtra (ctx : Ctx) : Layer :=
  let idx := (getLastIndex (hasL fillGenKey) ctx).getD 0
  let e := (ctx.drop idx).foldl (fun acc l => updateL acc (l.filter (fun kv => kv.1.head? ≠ some '_'))) []
  (ctx.foldl (fun acc l => if hasL forloopKey l then updateL acc l else acc) e).filter (fun kv => kv.1 ≠ permKey)

def isIdentifier (s : Str) : Bool :=
  match s with
  | [] => false
  | c :: _ => (c.isAlpha || c = '_') && s.all (fun c => c.isAlphanum || c = '_')

/-- the fill-choice logic of `SlotNode.render`; `fills` are the fills consulted -/
def chooseFillName (isDefault : Bool) (slotName : Str) (fills : List (Str × FillFn)) : Str :=
  if isDefault && (sGet defaultKey fills).isSome then defaultKey else slotName

def fillOfCaptured (c : Captured) : FillFn :=
  { nodes := c.nodes, dataVar := c.dataVar, defaultVar := c.defaultVar, extra := c.extra }

def blankBody (body : List Node) : Bool := body.all (fun nd => match nd with | .text s => isBlank s | _ => false)
def blankToks (content : List Tok) : Bool := content.all (fun t => match t with | .text s => isBlank s | _ => false)

/-- the decision part of `resolve_fills` / `_extract_fill_content`: from the fills that executed while
the body was rendered in extraction mode and what else the body printed, to the component's fills -/
def decideFills (captured : List Captured) (body : List Node) (content : List Tok) : Except Err (List (Str × FillFn)) :=
  if captured.isEmpty then
    if blankBody body then .ok []
    else .ok [(defaultKey, { nodes := body, dataVar := none, defaultVar := none, extra := [] })]
  else if !blankToks content then .error (.tse "fill alongside other content")
  else if !(captured.map (·.name)).Nodup then .error (.tse "duplicate fill")
  else .ok (captured.foldl (fun acc c => sSet c.name (fillOfCaptured c) acc) [])

/-- the checks `SlotNode.render` makes first: the `default` bookkeeping and the double-fill check.
Returns the name of the fill to use and the (possibly new)
name recorded as the component's default slot. -/
def slotChecks (isDefault isDyn : Bool) (recorded : Option Str) (slotName : Str)
    (fills : List (Str × FillFn)) : Except Err (Str × Option Str) :=
  let recorded' : Except Err (Option Str) :=
    if isDefault && !isDyn then
      match recorded with
      | some d => if slotName ≠ d then .error (.tse "two default slots") else .ok recorded
      | none => .ok (some slotName)
    else .ok recorded
  match recorded' with
  | .error e => .error e
  | .ok r =>
    if isDefault && !isDyn && slotName ≠ defaultKey && (sGet slotName fills).isSome && (sGet defaultKey fills).isSome then
      .error (.tse "slot filled twice")
    else
      .ok (chooseFillName isDefault slotName fills, r)

/-- the `required` check (made on the fills that are finally consulted) -/
def requiredCheck (isRequired isDyn : Bool) (fill : Option FillFn) : Except Err Unit :=
  if isRequired && fill.isNone && !isDyn then .error (.tse "required slot not filled") else .ok ()

def compVars (fills : List (Str × FillFn)) : Val := .isFilled (fills.map (fun kv => escapeSlotName kv.1))

def evalKwargs (ctx : Ctx) (kw : List (Str × Expr)) : List (Str × Val) := kw.map (fun kv => (kv.1, evalExpr ctx kv.2))

def kwGet (k : Str) (kw : List (Str × Val)) : Val := (lookupL k kw).getD (.str [])

/-- `Component.inject` -/
def injectM (env : Env) (id : Nat) (ctx : Ctx) (key : Str) (dflt : Option Str) : M Val := do
  tick env (.inject id key)
  match ctxGet ctx (injectPrefix ++ key) with
  | some (.provRef p) =>
    match alGet p (← get).provideCache with
    | some payload => pure (.injected payload)
    | none => throw (.keyError "provide_cache")
  | _ =>
    match dflt with
    | some d => pure (.str d)
    | none => throw (.keyError "inject")

def getContextData (env : Env) (id : Nat) (ctx : Ctx) (kw : List (Str × Val)) :
    List (Str × Src) → Layer → M Layer
  | [], acc => pure acc
  | (out, src) :: rest, acc => do
    let v ← match src with
      | .kwarg k => pure (kwGet k kw)
      | .const v => pure v
      | .inject key dflt => injectM env id ctx key dflt
      | .selfId => pure (.idBox id)
      | .side => pure (.str [])          -- must leave no trace in this render
    getContextData env id ctx kw rest (setL out v acc)

/-- the name a slot tag resolves to: a string as it is, anything else through `str()` -/
def slotNameOf (v : Val) : Str := match v with | .str s => s | v => pyStr v

def isDynName (n : Str) : Bool := n = "dynamic".toList
def isKey : Str := "is".toList

structure QItem where
  before : List Tok
  child : Option Nat
  parent : Option Nat
  grand : Option Nat
deriving Repr, Inhabited

/-- split a component's output at its placeholders (`nested_comp_pattern.finditer`) -/
def splitHoles (me : Nat) (parent : Option Nat) : List Tok → List Tok → List QItem
  | acc, [] => [{ before := acc, child := none, parent := some me, grand := parent }]
  | acc, .hole i _ :: rest => { before := acc, child := some i, parent := some me, grand := parent } :: splitHoles me parent [] rest
  | acc, t :: rest => splitHoles me parent (acc ++ [t]) rest

def partsGet (k : Nat) (l : List (Nat × List Tok)) : List Tok := (alGet k l).getD []

mutual
  def renderNodes (env : Env) : Nat → List Node → Ctx → M (List Tok)
    | 0, _, _ => throw .outOfFuel
    | _ + 1, [], _ => pure []
    | n + 1, nd :: rest, ctx => do
      let a ← renderNode env n nd ctx
      let b ← renderNodes env n rest ctx
      pure (a ++ b)

  def renderFor (env : Env) : Nat → Str → List Val → Nat → List Node → Ctx → M (List Tok)
    | 0, _, _, _, _, _ => throw .outOfFuel
    | _ + 1, _, [], _, _, _ => pure []
    | n + 1, x, item :: items, i, body, ctx => do
      let a ← renderNodes env n body (ctx ++ [forLayer ctx x i item])
      let b ← renderFor env n x items (i + 1) body ctx
      pure (a ++ b)

  def renderNode (env : Env) : Nat → Node → Ctx → M (List Tok)
    | 0, _, _ => throw .outOfFuel
    | n + 1, nd, ctx => do
      let w ← get
      if w.steps ≥ env.maxSteps then throw .budget
      set { w with steps := w.steps + 1 }
      match nd with
      | .text s => pure [.text s]
      | .out e =>
        match evalExpr ctx e with
        | .slotRef nodes Option.none => renderNodes env n nodes ctx   -- SlotRef.__str__ (same Context object)
        | .slotRef nodes (some stored) => do
          -- isolated mode, inside a fill: the fill is being rendered in the component's `outer_context` object (one
          -- per instance, shared by all its slot renders), which right now carries every layer pushed so far —
          -- i.e. it is the current `ctx`.  Slots of the same instance rendered while the default content prints
          -- see that state.
          let cid? : Option Nat := match ctxGet stored compKey with | some (.compRef c) => some c | _ => Option.none
          match cid? with
          | Option.none => renderNodes env n nodes stored
          | some cid =>
            let saved := (alGet cid (← get).ctxCache).bind (·.outer)
            modify (fun w => match alGet cid w.ctxCache with
              | some c => { w with ctxCache := alSet cid { c with outer := some ctx } w.ctxCache }
              | Option.none => w)
            let out ← renderNodes env n nodes stored
            modify (fun w => match alGet cid w.ctxCache with
              | some c => { w with ctxCache := alSet cid { c with outer := saved } w.ctxCache }
              | Option.none => w)
            pure out
        | v => pure [.text (pyStr v)]
      | .ifn c t e => if truthy (evalExpr ctx c) then renderNodes env n t ctx else renderNodes env n e ctx
      | .forn x e body => renderFor env n x (iterVals (evalExpr ctx e)) 0 body ctx
      | .withn x e body => renderNodes env n body (ctx ++ [[(x, evalExpr ctx e)]])
      | .elem tag body => do
        let inner ← renderNodes env n body ctx
        pure ([.opn tag []] ++ inner ++ [.cls tag])
      | .provide key kwargs body => do
        -- BaseNode resolves the params first
        let payload := evalKwargs ctx kwargs
        if !isIdentifier key then throw (.tse "provide key")
        let pid ← genId
        let ctx' := ctx ++ [[(injectPrefix ++ key, .provRef pid)]]
        modify (fun w => { w with provideCache := alSet pid payload w.provideCache })
        -- managed_provide_cache: the provider holds a reference of its own while its body renders
        let before := (← get).allRefIds
        modify (holdSelfW pid)
        let out ← (try renderNodes env n body ctx'
          catch e => do
            provideFail pid before
            throw e)
        cacheCleanup pid
        pure out
      | .fill nameE dataVar defaultVar body => do
        if !isExtracting ctx then throw (.tse "fill outside component")
        let name := evalExpr ctx nameE
        match name with
        | .str nm =>
          (match dataVar with
           | some d => if !isIdentifier d then throw (.runtime "fill data") else pure ()
           | none => pure ())
          (match defaultVar with
           | some d => if !isIdentifier d then throw (.runtime "fill default") else pure ()
           | none => pure ())
          if dataVar.isSome && dataVar = defaultVar then throw (.runtime "fill data = default")
          modify (fun w => { w with cap := w.cap ++ [{ name := nm, dataVar, defaultVar, nodes := body, extra := capturedExtra ctx }] })
          pure []
        | _ => throw (.tse "fill name not a string")
      | .slot nameE isDefault isRequired data body => renderSlot env n nameE isDefault isRequired data body ctx
      | .comp name kwargs only dyn body => renderCompTag env n name kwargs only dyn body ctx
      | _ => throw (.runtime "composition tag: flatten the family first")

  /-- `resolve_fills` -/
  def resolveFills (env : Env) : Nat → List Node → Ctx → M (List (Str × FillFn))
    | 0, _, _ => throw .outOfFuel
    | n + 1, body, ctx => do
      if body.isEmpty then return []
      let saved := (← get).cap
      modify (fun w => { w with cap := [] })
      let content ← renderNodes env n body (ctx ++ [[(fillGenKey, .fillGen)]])
      let captured := (← get).cap
      modify (fun w => { w with cap := saved })
      match decideFills captured body content with
      | .ok fills => pure fills
      | .error e => throw e

  /-- `ComponentNode.render` -/
  def renderCompTag (env : Env) : Nat → Str → List (Str × Expr) → Bool → Bool → List Node → Ctx → M (List Tok)
    | 0, _, _, _, _, _, _ => throw .outOfFuel
    | n + 1, name, kwargs, only, _dyn, body, ctx => do
      let kw := evalKwargs ctx kwargs
      if isExtracting ctx then return []
      match findDef env name with
      | none => if isDynName name then pure () else throw .notRegistered
      | some _ => pure ()
      let fills ← resolveFills env n body ctx
      let ctx' := if only || env.isolated then isolatedCopy ctx else ctx
      renderImpl env n name kw fills (some ctx) ctx'

  /-- `Component._render_impl` -/
  def renderImpl (env : Env) : Nat → Str → List (Str × Val) → List (Str × FillFn) → Option Ctx → Ctx → M (List Tok)
    | 0, _, _, _, _, _ => throw .outOfFuel
    | n + 1, name, kw, fills, outer, ctx => do
      let id ← genId
      let parent : Option Nat := match ctxGet ctx compKey with
        | some (.compRef p) => some p
        | _ => none
      let path ← match parent with
        | some p =>
          match alGet p (← get).ctxCache with
          | some pc => pure (pc.path ++ [name])
          | none => throw (.keyError "component_context_cache")
        | none => pure [name]
      -- `context.render_context.push({BLOCK_CONTEXT_KEY: …})` on the caller's RenderContext; popped only
      -- after the snapshot was taken (no try / finally)
      if parent.isNone && hasRootRc ctx then modify (fun w => { w with rcLeak := w.rcLeak + 1 })
      modify (registerRefW ctx id)
      let dyn := isDynName name
      modify (fun w => { w with ctxCache := alSet id { name, id, path, fills, isDyn := dyn, defaultSlot := none, outer := outer.map snapshot } w.ctxCache })
      if !dyn then tick env (.gcd id)
      let (data, dynInner) ← (if dyn then
          match lookupL isKey kw with
          | some (.str inner) =>
            if inner.isEmpty then throw (.typeError "dynamic: missing is") else
            match findDef env inner with
            | some _ => pure (([] : Layer), some (inner, kw.filter (fun kv => kv.1 ≠ isKey), if parent.isSome then liveLater ctx else ctx))
            | none => throw .notRegistered
          | _ => throw (.typeError "dynamic: missing is")
        else
          match findDef env name with
          | some d => do
            let l ← getContextData env id ctx kw d.data []
            pure (l, none)
          | none => throw .notRegistered : M (Layer × Option (Str × List (Str × Val) × Ctx)))
      let snap := snapshot (ctx ++ [data] ++ [[(compKey, .compRef id), (compVarsKey, compVars fills)]])
      -- `context.render_context.pop()`
      if parent.isNone && hasRootRc ctx then modify (fun w => { w with rcLeak := w.rcLeak - 1 })
      let r : Renderer := { id, name, ctx := snap, dynInner, fills, outer := if parent.isSome then outer.map liveLater else outer }
      modify (fun w => { w with rendererCache := alSet id r w.rendererCache })
      match parent with
      | some _ => pure [.hole id []]
      | none => postRender env n [{ before := [], child := some id, parent := none, grand := none }] [] []

  /-- the `renderer` closure of `_gen_component_renderer` -/
  def runRenderer (env : Env) : Nat → Renderer → List Str → M (List Tok × List (Nat × List Str))
    | 0, _, _ => throw .outOfFuel
    | n + 1, r, rootAttrs => do
      if r.dynInner.isNone then tick env (.before r.id)
      let html ← match r.dynInner with
        | some (inner, kw, inputCtx) =>
          -- DynamicComponent.on_render_before + template "{{ output|safe }}"
          renderImpl env n inner kw r.fills r.outer inputCtx
        | none =>
          match findDef env r.name with
          | some d => renderNodes env n d.template r.ctx
          | none => throw .notRegistered
      let attrs := rootAttrs ++ [idAttr r.id]
      pure (.marker r.name r.id :: addRootAttrs attrs html, rootHoles attrs html)

  /-- the `while len(process_queue)` loop of `component_post_render` -/
  def postRender (env : Env) : Nat → List QItem → List (Nat × List Tok) → List Tok → M (List Tok)
    | 0, _, _, _ => throw .outOfFuel
    | _ + 1, [], _, out => pure out
    | n + 1, item :: queue, parts, out =>
      match item.child with
      | none =>
        match item.parent with
        | none => throw (.runtime "Parent ID is None")
        | some pid => do
          let html := partsGet pid parts ++ item.before
          let parts := alDel pid parts
          -- on_component_rendered
          if !(isDynName ((alGet pid (← get).ctxCache).map (·.name) |>.getD [])) then tick env (.after pid)
          modify (fun w => { w with ctxCache := alDel pid w.ctxCache })
          unregisterRef pid
          match item.grand with
          | some g => postRender env n queue (alSet g (partsGet g parts ++ html) parts) out
          | none => postRender env n queue parts (out ++ html)
      | some cid => do
        let parts ← (if item.before.isEmpty then pure parts else
          match item.parent with
          | none => throw (.runtime "Parent ID is None")
          | some pid => pure (alSet pid (partsGet pid parts ++ item.before) parts) : M (List (Nat × List Tok)))
        let w ← get
        match alGet cid w.rendererCache with
        | none => throw (.keyError "component_renderer_cache")
        | some r => do
          let attrs := (alGet cid w.childAttrs).getD []
          set { w with rendererCache := alDel cid w.rendererCache, childAttrs := alDel cid w.childAttrs }
          let (content, grandAttrs) ← runRenderer env n r attrs
          modify (fun w => { w with childAttrs := grandAttrs.foldl (fun acc kv => alSet kv.1 kv.2 acc) w.childAttrs })
          postRender env n (splitHoles cid item.parent [] content ++ queue) parts out

  /-- `SlotNode.render` -/
  def renderSlot (env : Env) : Nat → Expr → Bool → Bool → List (Str × Expr) → List Node → Ctx → M (List Tok)
    | 0, _, _, _, _, _, _ => throw .outOfFuel
    | n + 1, nameE, isDefault, isRequired, data, body, ctx => do
      let nameV := evalExpr ctx nameE
      let slotData := evalKwargs ctx data
      if slotData.any (fun kv => tooDeep 10 kv.2) then throw .budget
      if isExtracting ctx then return []
      let cid ← match ctxGet ctx compKey with
        | some (.compRef c) => pure c
        | _ => throw (.tse "slot outside component")
      let cc ← match alGet cid (← get).ctxCache with
        | some cc => pure cc
        | none => throw (.keyError "component_context_cache")
      let slotName := slotNameOf nameV
      let fills := cc.fills
      let (fillName, recorded) ← (match slotChecks isDefault cc.isDyn cc.defaultSlot slotName fills with
        | .ok r => do
          -- `component_ctx.default_slot = slot_name` happens before the double-fill check can raise
          pure r
        | .error e => do
          if isDefault && !cc.isDyn && cc.defaultSlot.isNone then
            modify (fun w => { w with ctxCache := alSet cid { cc with defaultSlot := some slotName } w.ctxCache })
          throw e : M (Str × Option Str))
      if recorded ≠ cc.defaultSlot then
        modify (fun w => { w with ctxCache := alSet cid { cc with defaultSlot := recorded } w.ctxCache })
      -- `slot_name in fills` hashes the name
      if !hashable nameV then throw (.typeError "unhashable slot name")
      -- django mode, rendered from Python (no outer context): look the fills up through the layers
      let w ← get
      let fills' : List (Str × FillFn) :=
        if !env.isolated && cc.outer.isNone && (sGet slotName cc.fills).isNone then
          match getIndex (fun l => match lookupL compKey l with | some (.compRef c) => c = cid | _ => false) ctx with
          | none => fills
          | some curr =>
            let parentIdx : Option Nat :=
              match getLastIndex (hasL compKey) (ctx.take curr) with
              | some p => some p
              | none => (getIndex (hasL compKey) (ctx.drop (curr + 1))).map (· + curr + 1)
            match parentIdx with
            | none => fills
            | some p =>
              match lookupL compKey (ctx.getD p []) with
              | some (.compRef pc) =>
                match alGet pc w.ctxCache with
                | some pcc => pcc.fills
                | none => fills        -- (KeyError in the code; not reachable from generated programs)
              | _ => fills
        else fills
      let fill : Option FillFn := sGet fillName fills'
      match requiredCheck isRequired cc.isDyn fill with
      | .error e => throw e
      | .ok _ => pure ()
      -- extra_context
      let extra : Layer :=
        if !env.isolated then
          match cc.outer with
          | some oc =>
            match ctxGet oc compKey with
            | some v => [(compKey, v), (compVarsKey, (ctxGet oc compVarsKey).getD .none)]
            | none => []
          | none => []
        else []
      let extra := updateL extra (injectKeysOf ctx)
      let usedCtx : Ctx :=
        match fill with
        | none => ctx
        | some _ => if env.isolated then (cc.outer.getD [[]]) else ctx
      let usedCtx := usedCtx ++ [extra]
      let f : FillFn := fill.getD { nodes := body, dataVar := none, defaultVar := none, extra := [] }
      -- render_func
      match f.content with
      | some s => pure [.text s]
      | none =>
        let c1 := match f.dataVar with
          | some d => ctxSetTop usedCtx d (.dict slotData)
          | none => usedCtx
        let stored : Option Ctx := if fill.isSome && env.isolated then some ctx else none
        let c2 := match f.defaultVar with
          | some d => ctxSetTop c1 d (.slotRef body stored)
          | none => c1
        let c3 := match getLastIndex (hasL compKey) c2 with
          | some (i + 1) => insertAt i f.extra c2
          | _ => insertAt (c2.length - 1) f.extra c2          -- `insert(-1, …)`
        renderNodes env n f.nodes c3
end

end Djc.Render
