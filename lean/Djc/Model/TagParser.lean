/-
  C12 / C02 model: `parse_tag` (util/tag_parser.py) as a small-step machine.

  mirrors, branch for branch:
    the outer attribute loop (key detection with back-tracking), the container loop
    (`while len(stack) > 0`: openers with spread prefixes, closers with the dict pair validation,
    comma, colon, plain value), `extract_spread_token`, the filter-chain loop (quoted strings with
    escaped quotes, `_( … )` translations, unterminated quotes, terminal tokens per container),
    `TagValuePart.__post_init__`, the dict key/value validations after a value, the unwrapping of a
    top-level list / dict.
  One `step` = one iteration of one of the three loops; `run` iterates with fuel.  Every `raise`
  site of the Python code is an `Err.tse` with a site label; nothing else can be raised by the
  model, and `Proofs/TagParser.lean` shows that fuel `4·|text| + 4` always suffices.
-/
import Djc.Base.Except
namespace Djc.Model.TagParser

abbrev Str := List Char

/-- TAG_WHITESPACE -/
def wsChars : List Char := [' ', '\t', '\n', '\r', '\x0c']
def isWs (c : Char) : Bool := wsChars.contains c
def colonTok : Str := [':']

def nextIs (tok : Str) (s : Str) : Bool := tok.isPrefixOf s
def nextIsAny (toks : List Str) (s : Str) : Bool := toks.any (fun t => t.isPrefixOf s)

/-- `take_until(tokens)` : (taken, rest) -/
def takeUntil (stops : List Str) : Str → Str × Str
  | [] => ([], [])
  | c :: cs =>
    if nextIsAny stops (c :: cs) then ([], c :: cs)
    else
      let r := takeUntil stops cs
      (c :: r.1, r.2)

/-- `take_until([q], ignore=["\\" + q])`; `skip` = the second character of an ignore token -/
def takeUntilQ (q : Char) : Bool → Str → Str × Str
  | _, [] => ([], [])
  | true, c :: cs =>
    let r := takeUntilQ q false cs
    (c :: r.1, r.2)
  | false, c :: cs =>
    if c = '\\' ∧ cs.head? = some q then
      let r := takeUntilQ q true cs
      (c :: r.1, r.2)
    else if c = q then ([], c :: cs)
    else
      let r := takeUntilQ q false cs
      (c :: r.1, r.2)

inductive Kind where
  | simple | list | dict
deriving Repr, DecidableEq

structure Part where
  value       : Str
  quoted      : Option Char
  spread      : Option Str
  translation : Bool
  filter      : Option Char
deriving Repr, DecidableEq

/-- `TagValue` / `TagValueStruct` -/
inductive Val where
  | value (parts : List Part)
  | struct (kind : Kind) (spread : Option Str) (entries : List Val)
deriving Repr

structure Frame where
  kind       : Kind
  spread     : Option Str
  entries    : List Val        -- in order
  expectsKey : Bool
deriving Repr

structure Attr where
  key        : Option Str
  startIndex : Nat
  value      : Val
deriving Repr

inductive Err where
  | tse (site : String)      -- TemplateSyntaxError
deriving Repr, DecidableEq

inductive Phase where
  | attr
  | struct (key : Option Str) (startIdx : Nat) (stack : List Frame)
  | parts (key : Option Str) (startIdx : Nat) (stack : List Frame) (curr : Frame)
          (parts : List Part)
deriving Repr

structure St where
  rest  : Str           -- text[index:]
  norm  : Str           -- `normalized`
  attrs : List Attr     -- in order
  phase : Phase
deriving Repr

inductive Outcome where
  | next (st : St)
  | done (norm : Str) (attrs : List Attr)
  | fail (e : Err)
deriving Repr

def spreadToks : List Str := ["*".toList, "**".toList, "...".toList]
def keyStartStops : List Str :=
  ["'".toList, "\"".toList, "_(\"".toList, "_('".toList, "[".toList, "{".toList] ++ spreadToks
def wsToks : List Str := wsChars.map (fun c => [c])
def keyStops : List Str :=
  ["=".toList, "'".toList, "\"".toList, "_(\"".toList, "_('".toList, "|".toList, "[".toList, "{".toList]
    ++ spreadToks ++ wsToks
def listOpeners : List Str := ["[".toList, "...[".toList, "*[".toList, "**[".toList]
def dictOpeners : List Str := ["{".toList, "...{".toList, "*{".toList, "**{".toList]
def filterToks : List Str := ["|".toList, ":".toList]

def headIsWs (s : Str) : Bool :=
  match s.head? with
  | some c => isWs c
  | none => false

/-- `extract_spread_token(curr_struct, filter_token)` : (token, rest after it) -/
def extractSpread (kind : Kind) (key : Option Str) (hasFilter : Bool) (s : Str) :
    Except Err (Option Str × Str) :=
  let tok? : Except Err (Option Str) :=
    if nextIs "...".toList s then
      if kind ≠ .simple then .error (.tse "spread ... in container") else .ok (some "...".toList)
    else if nextIs "**".toList s then
      if kind ≠ .dict then .error (.tse "spread ** outside dict") else .ok (some "**".toList)
    else if nextIs "*".toList s then
      if kind ≠ .list then .error (.tse "spread * outside list") else .ok (some "*".toList)
    else .ok none
  match tok? with
  | .error e => .error e
  | .ok none => .ok (none, s)
  | .ok (some tok) =>
    if hasFilter then .error (.tse "spread inside filter")
    else if kind = .simple ∧ key.isSome then .error (.tse "spread after key")
    else
      let s1 := s.drop tok.length
      if tok ≠ "...".toList then .ok (some tok, s1.dropWhile isWs)
      else if s1.isEmpty || headIsWs s1 then
        .error (.tse "spread missing value")
      else .ok (some tok, s1)

def isSpreadVal : Val → Bool
  | .value parts => (match parts.head? with | some p => p.spread.isSome | none => false)
  | .struct _ sp _ => sp.isSome

def isStructVal : Val → Bool
  | .struct _ _ _ => true
  | .value _ => false

/-- the dict pair validation performed at `}` : pending = a key is waiting for its value -/
def validatePairs : List Val → Bool → Except Err Unit
  | [], pending => if pending then .error (.tse "dict key missing value") else .ok ()
  | e :: es, pending =>
    if isStructVal e then
      if isSpreadVal e then
        if pending then .error (.tse "spread in place of dict value") else validatePairs es pending
      else if !pending then .error (.tse "container as dict key")
      else validatePairs es false
    else
      if isSpreadVal e then
        if pending then .error (.tse "spread in place of dict value") else validatePairs es pending
      else validatePairs es (!pending)

def frameToVal (f : Frame) : Val := .struct f.kind f.spread f.entries

/-- pop the top frame into its parent; a container directly below the simple root also pops the
root ("only one top-level list, similar to JSON") -/
def closeFrame (top : Frame) (below : List Frame) : List Frame :=
  match below with
  | [] => []
  | parent :: rest =>
    let parent' := { parent with entries := parent.entries ++ [frameToVal top] }
    if parent'.kind = .simple then (match rest with | [] => [parent'] | _ => parent' :: rest) else parent' :: rest

/-- finish an attribute from the (completed) root frame -/
def finishAttr (key : Option Str) (startIdx : Nat) (root : Frame) : Attr :=
  let total : Val :=
    match root.entries.head? with
    | some (.struct k sp es) => if k ≠ .simple then .struct k sp es else frameToVal root
    | _ => frameToVal root
  { key := key, startIndex := startIdx, value := total }

/-- after a frame was closed or a simple value completed: continue the container loop, or finish
the attribute when the stack is exhausted (the root is always last) -/
def afterClose (attrs : List Attr) (key : Option Str) (startIdx : Nat) (rest norm : Str) (stack : List Frame) :
    Outcome :=
  match stack with
  | [root] =>
    if root.kind = .simple ∧ !root.entries.isEmpty then
      .next { rest := rest, norm := norm, attrs := attrs ++ [finishAttr key startIdx root], phase := .attr }
    else .next { rest := rest, norm := norm, attrs := attrs, phase := .struct key startIdx stack }
  | _ => .next { rest := rest, norm := norm, attrs := attrs, phase := .struct key startIdx stack }

def terminals (f : Frame) : List Char :=
  match f.kind with
  | .dict => if f.expectsKey then [':', ',', '}'] else [',', '}']
  | .list => [',', ']']
  | .simple => []

/-- the text of one value part: a quoted string / translation, or an unquoted run.
Returns (value, quoted, is_translation, rest). -/
def parseValueText (term : List Char) (s1 : Str) : Except Err (Str × Option Char × Bool × Str) :=
  if nextIsAny ["'".toList, "\"".toList, "_(".toList] s1 then
    let isTrans := nextIs "_(".toList s1
    let s2 := if isTrans then (s1.drop 2).dropWhile isWs else s1
    match s2 with
    | [] => .error (.tse "empty token")
    | q :: s3 =>
      let body := takeUntilQ q false s3
      match body.2 with
      | q' :: s4 =>
        -- `is_next_token([quote_char])` holds: takeUntilQ stops only at q
        let s5 := if isTrans then (s4.dropWhile isWs).drop 1 else s4
        if q' = q then .ok (body.1, some q, isTrans, s5) else .ok (q :: body.1, none, isTrans, q' :: s4)
      | [] => .ok (q :: body.1, none, isTrans, [])
  else
    let stops := wsToks ++ filterToks ++ term.map (fun c => [c])
    let v := takeUntil stops s1
    .ok (v.1, none, false, v.2)

/-- one value part (one iteration of `while not end_of_value` that actually parses a part).
Returns the part, the rest, and whether a terminal token follows. -/
def parsePart (curr : Frame) (key : Option Str) (filterTok : Option Char) (s : Str) :
    Except Err (Part × Str × Bool) :=
  match extractSpread curr.kind key filterTok.isSome s with
  | .error e => .error e
  | .ok (spreadTok, s1) =>
    if curr.kind = .dict ∧ !curr.expectsKey ∧ spreadTok.isSome then
      .error (.tse "spread in place of dict value")
    else
      let term := terminals curr
      match parseValueText term s1 with
      | .error e => .error e
      | .ok (value, quoted, isTrans, s6) =>
        let s7 := s6.dropWhile isWs
        let atTerm := match s7.head? with
          | some c => term.contains c
          | none => false
        if isTrans ∧ quoted.isNone then .error (.tse "translation must be quoted")
        else if isTrans ∧ spreadTok.isSome then .error (.tse "translation with spread")
        else if spreadTok.isSome ∧ filterTok.isSome then .error (.tse "spread inside filter")
        else
          .ok ({ value := value, quoted := quoted, spread := spreadTok, translation := isTrans,
                 filter := filterTok }, s7, atTerm)

/-- the text consumed between `s` and its suffix `s'` -/
def consumed (s s' : Str) : Str := s.take (s.length - s'.length)

def firstSpreadOf (parts : List Part) : Bool :=
  match parts.head? with
  | some p => p.spread.isSome
  | none => false

/-- the dict validations after a value (they may skip white space) -/
def dictCheck (curr : Frame) (firstSpread : Bool) (rest : Str) : Except Err Str :=
  if curr.kind = .dict then
    if firstSpread then
      if !curr.expectsKey then .error (.tse "spread at dict value position")
      else if nextIs colonTok (rest.dropWhile isWs) then .error (.tse "spread as dict key")
      else .ok (rest.dropWhile isWs)
    else if curr.expectsKey then
      if !nextIs colonTok (rest.dropWhile isWs) then .error (.tse "dict key missing value")
      else .ok (rest.dropWhile isWs)
    else .ok rest
  else .ok rest

/-- value completed: append to the frame, run the dict validations, continue -/
def finishValue (attrs : List Attr) (key : Option Str) (startIdx : Nat) (stack : List Frame) (curr : Frame)
    (parts : List Part) (rest norm : Str) : Outcome :=
  let curr' := { curr with entries := curr.entries ++ [Val.value parts] }
  match dictCheck curr (firstSpreadOf parts) rest with
  | .error e => .fail e
  | .ok rest' =>
    let norm' := norm ++ consumed rest rest'
    if curr.kind = .simple then
      -- the root was popped before the value was parsed: the container loop is over
      .next { rest := rest', norm := norm', attrs := attrs ++ [finishAttr key startIdx curr'],
              phase := .attr }
    else .next { rest := rest', norm := norm', attrs := attrs, phase := .struct key startIdx (curr' :: stack) }

def prevFilterOf (parts : List Part) : Option Char :=
  match parts.getLast? with
  | some p => p.filter
  | none => none

def step (st : St) : Outcome :=
  match st.phase with
  | .attr =>
    if st.rest.isEmpty then .done st.norm st.attrs
    else
      let s1 := st.rest.dropWhile isWs
      let norm1 := st.norm ++ st.rest.takeWhile isWs
      let startIdx := norm1.length
      let root : Frame := { kind := .simple, spread := none, entries := [], expectsKey := false }
      if nextIsAny keyStartStops s1 then
        .next { st with rest := s1, norm := norm1, phase := .struct none startIdx [root] }
      else
        let k := takeUntil keyStops s1
        if k.1.isEmpty ∧ k.2.isEmpty then .done norm1 st.attrs
        else if nextIs "=".toList k.2 then
          .next { st with rest := k.2.drop 1, norm := norm1 ++ k.1 ++ ['='],
                          phase := .struct (some k.1) startIdx [root] }
        else .next { st with rest := s1, norm := norm1, phase := .struct none startIdx [root] }
  | .struct key startIdx stack =>
    match stack with
    | [] => .fail (.tse "internal: empty stack")      -- unreachable
    | curr :: below =>
      let s := st.rest.dropWhile isWs
      let norm := st.norm ++ st.rest.takeWhile isWs
      if nextIsAny listOpeners s then
        match extractSpread curr.kind key false s with
        | .error e => .fail e
        | .ok (sp, s1) =>
          let frame : Frame := { kind := .list, spread := sp, entries := [], expectsKey := false }
          .next { rest := s1.drop 1, norm := norm ++ consumed s (s1.drop 1), attrs := st.attrs,
                          phase := .struct key startIdx (frame :: curr :: below) }
      else if nextIs "]".toList s then
        if curr.kind ≠ .list then .fail (.tse "unexpected closing bracket")
        else afterClose st.attrs key startIdx (s.drop 1) (norm ++ [']']) (closeFrame curr below)
      else if nextIsAny dictOpeners s then
        match extractSpread curr.kind key false s with
        | .error e => .fail e
        | .ok (sp, s1) =>
          if curr.kind = .dict ∧ curr.expectsKey ∧ sp.isNone then .fail (.tse "dict as dict key")
          else
            let frame : Frame := { kind := .dict, spread := sp, entries := [], expectsKey := true }
            .next { rest := s1.drop 1, norm := norm ++ consumed s (s1.drop 1), attrs := st.attrs,
                          phase := .struct key startIdx (frame :: curr :: below) }
      else if nextIs "}".toList s then
        if curr.kind ≠ .dict then .fail (.tse "unexpected closing brace")
        else
          match validatePairs curr.entries false with
          | .error e => .fail e
          | .ok _ => afterClose st.attrs key startIdx (s.drop 1) (norm ++ ['}']) (closeFrame curr below)
      else if nextIs ",".toList s then
        if curr.kind = .simple then .fail (.tse "unexpected comma")
        else
          let curr' := if curr.kind = .dict then { curr with expectsKey := true } else curr
          .next { rest := s.drop 1, norm := norm ++ [','], attrs := st.attrs, phase := .struct key startIdx (curr' :: below) }
      else if nextIs ":".toList s then
        if curr.kind ≠ .dict then .fail (.tse "unexpected colon")
        else if !curr.expectsKey then .fail (.tse "unexpected colon")
        else
          .next { rest := s.drop 1, norm := norm ++ [':'], attrs := st.attrs,
                          phase := .struct key startIdx ({ curr with expectsKey := false } :: below) }
      else
        -- a plain value: the first part is parsed in this same step
        if curr.kind ≠ .simple ∧ s.isEmpty then .fail (.tse "unexpected end of text")
        else if s.isEmpty then .fail (.tse "unexpected end of text")
        else if nextIsAny filterToks s then .fail (.tse "filter is missing a value")
        else
          match parsePart curr key none s with
          | .error e => .fail e
          | .ok (part, s', atTerm) =>
            let curr1 := if curr.kind = .simple then { curr with spread := part.spread } else curr
            let norm' := norm ++ consumed s s'
            if atTerm then finishValue st.attrs key startIdx below curr1 [part] s' norm'
            else .next { rest := s', norm := norm', attrs := st.attrs,
                          phase := .parts key startIdx below curr1 [part] }
  | .parts key startIdx stack curr parts =>
    let s := st.rest.dropWhile isWs
    let norm := st.norm ++ st.rest.takeWhile isWs
    if s.isEmpty then finishValue st.attrs key startIdx stack curr parts s norm
    else if !nextIsAny filterToks s then finishValue st.attrs key startIdx stack curr parts s norm
    else
      match s with
      | [] => finishValue st.attrs key startIdx stack curr parts s norm
      | f :: s1 =>
        let s2 := s1.dropWhile isWs
        if f = ':' ∧ prevFilterOf parts ≠ some '|' then .fail (.tse "filter argument must follow a filter")
        else
          match parsePart curr key (some f) s2 with
          | .error e => .fail e
          | .ok (part, s', atTerm) =>
            -- only the first part sets the top-level spread (`if … and not values_parts`, fix: 2ad4442)
            let norm' := norm ++ consumed s s'
            if atTerm then finishValue st.attrs key startIdx stack curr (parts ++ [part]) s' norm'
            else .next { rest := s', norm := norm', attrs := st.attrs,
                          phase := .parts key startIdx stack curr (parts ++ [part]) }

inductive Result where
  | ok (norm : Str) (attrs : List Attr)
  | error (e : Err)
  | outOfFuel
deriving Repr

def run : Nat → St → Result
  | 0, _ => .outOfFuel
  | fuel + 1, st =>
    match step st with
    | .done n a => .ok n a
    | .fail e => .error e
    | .next st' => run fuel st'

def initSt (text : Str) : St := { rest := text, norm := [], attrs := [], phase := .attr }

def parseTag (text : Str) : Result := run (4 * text.length + 4) (initSt text)

end Djc.Model.TagParser
