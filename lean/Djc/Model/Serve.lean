/-
  C19 model: component script cache, emitted URLs and the URL endpoint (dependencies.py, urls.py).

  mirrors:
    _gen_cache_key, _is_script_in_cache, _cache_script, cache_component_js / css (+ _vars)
    get_script_url (reverse of the two `path()` patterns), the URL resolver for those patterns
    (Django `str` converter = `[^/]+`, first pattern first, greedy with backtracking),
    cached_script_view (with the kind check of the `fix:` commit), comp_hash_mapping
  The cache is keyed by the *string* keys the code builds, not by structured keys, so that key
  collisions are visible in the model.
-/
import Djc.Base.AList
namespace Djc.Model.Serve
open Djc.AList

abbrev Str := List Char

structure Cls where
  js  : Option Str
  css : Option Str
deriving Repr, DecidableEq

structure State where
  classes : List (Str × Cls)     -- comp_hash_mapping : class hash -> class
  cache   : List (Str × Str)     -- component media cache : key -> script
deriving Repr, DecidableEq

def isSpacePy (c : Char) : Bool :=
  c == ' ' || c == '\t' || c == '\n' || c == '\r' || c == '\x0b' || c == '\x0c'

/-- `str.strip()` -/
def strip (s : Str) : Str := ((s.dropWhile isSpacePy).reverse.dropWhile isSpacePy).reverse

/-- `is_nonempty_str` -/
def nonemptyStr : Option Str → Bool
  | none => false
  | some s => !(strip s).isEmpty

def keyPfx : Str := "__components:".toList
def cachePfx : Str := "cache/".toList
def jsK : Str := "js".toList
def cssK : Str := "css".toList

/-- `_gen_cache_key` (`if input_hash:` — an empty input hash counts as absent) -/
def genKey (h kind : Str) (input : Option Str) : Str :=
  let base := keyPfx ++ h ++ ':' :: kind
  match input with
  | some i => if i.isEmpty then base else base ++ ':' :: i
  | none => base

def script (c : Cls) (kind : Str) : Option Str :=
  if kind = jsK then c.js else if kind = cssK then c.css else none

/-- `cache_component_js` / `cache_component_css` -/
def cacheScript (s : State) (h : Str) (c : Cls) (kind : Str) : State :=
  match script c kind with
  | none => s
  | some src =>
    if nonemptyStr (some src) && !(ahas (genKey h kind none) s.cache) then
      { s with cache := aset (genKey h kind none) (strip src) s.cache }
    else s

/-- `cache_component_js_vars` / `cache_component_css_vars` for a given input hash -/
def cacheVars (s : State) (h : Str) (c : Cls) (kind : Str) (input : Option Str) : State :=
  match input with
  | none => s
  | some i =>
    if nonemptyStr (script c kind) && !(ahas (genKey h kind (some i)) s.cache) then
      { s with cache := aset (genKey h kind (some i)) [] s.cache }
    else s

/-- URL path below `/components/` produced by `reverse()` -/
def mkUrl (h : Str) (input : Option Str) (kind : Str) : Str :=
  match input with
  | some i => cachePfx ++ h ++ '.' :: i ++ '.' :: kind
  | none => cachePfx ++ h ++ '.' :: kind

/-- URLs a render of class `h` announces (document: marked as loaded; fragment: listed to load) -/
def emittedUrls (h : Str) (c : Cls) (jsInput cssInput : Option Str) : List Str :=
  (if nonemptyStr c.js then
     [mkUrl h none jsK] ++ (match jsInput with | some i => [mkUrl h (some i) jsK] | none => [])
   else []) ++
  (if nonemptyStr c.css then
     [mkUrl h none cssK] ++ (match cssInput with | some i => [mkUrl h (some i) cssK] | none => [])
   else [])

/-- the part of `Component._render_impl` that touches the cache -/
def render (s : State) (h : Str) (jsInput cssInput : Option Str) : State × List Str :=
  match alookup h s.classes with
  | none => (s, [])
  | some c =>
    let s1 := cacheScript s h c jsK
    let s2 := cacheVars s1 h c jsK jsInput
    let s3 := cacheScript s2 h c cssK
    let s4 := cacheVars s3 h c cssK cssInput
    (s4, emittedUrls h c jsInput cssInput)

/-! ### URL resolution -/

def splitDots : Str → List Str
  | [] => [[]]
  | c :: cs =>
    match splitDots cs with
    | [] => [[c]]          -- unreachable
    | seg :: segs => if c = '.' then [] :: seg :: segs else (c :: seg) :: segs

def joinDots : List Str → Str
  | [] => []
  | [s] => s
  | s :: ss => s ++ '.' :: joinDots ss

/-- ways to cut a segment list in two non-empty lists, longest front first (greedy `[^/]+`) -/
def splitsDesc : List Str → List (List Str × List Str)
  | [] => []
  | [_] => []
  | s :: ss => (splitsDesc ss).map (fun p => (s :: p.1, p.2)) ++ [([s], ss)]

/-- `<str:a>.<str:b>` -/
def parse2 (segs : List Str) : Option (Str × Str) :=
  (splitsDesc segs).findSome? (fun p =>
    if (joinDots p.1).isEmpty || (joinDots p.2).isEmpty then none
    else some (joinDots p.1, joinDots p.2))

/-- `<str:a>.<str:b>.<str:c>` -/
def parse3 (segs : List Str) : Option (Str × Str × Str) :=
  (splitsDesc segs).findSome? (fun p =>
    if (joinDots p.1).isEmpty then none
    else (parse2 p.2).map (fun ik => (joinDots p.1, ik.1, ik.2)))

/-- resolve a path below `/components/`: (hash, input hash, kind) -/
def resolve (path : Str) : Option (Str × Option Str × Str) :=
  let pfx := cachePfx
  if pfx.isPrefixOf path then
    let rest := path.drop pfx.length
    if rest.contains '/' then none
    else
      match parse3 (splitDots rest) with
      | some (h, i, k) => some (h, some i, k)
      | none =>
        match parse2 (splitDots rest) with
        | some (h, k) => some (h, none, k)
        | none => none
  else none

inductive Resp where
  | ok (body : Str) (contentType : Str)
  | notFound
  | notAllowed
  | serverError          -- an exception escaping the view
deriving Repr, DecidableEq

def contentTypes : List (Str × Str) :=
  [(jsK, "text/javascript".toList), (cssK, "text/css".toList)]

/-- `cached_script_view` behind the resolver -/
def serve (s : State) (path : Str) (isGet : Bool) : Resp :=
  match resolve path with
  | none => .notFound
  | some (h, input, kind) =>
    if !isGet then .notAllowed
    else if !(ahas kind contentTypes) then .notFound
    else
      match alookup h s.classes with
      | none => .notFound
      | some _ =>
        match alookup (genKey h kind input) s.cache with
        | none => .notFound
        | some body =>
          match alookup kind contentTypes with
          | none => .serverError          -- `_get_content_types` raising ValueError
          | some ct => .ok body ct

inductive Op where
  | define (h : Str) (c : Cls)
  | render (h : Str) (jsInput cssInput : Option Str)
  | clearCache
deriving Repr, DecidableEq

def step (s : State) : Op → State
  | .define h c => { s with classes := aset h c s.classes }
  | .render h ji ci => (render s h ji ci).1
  | .clearCache => { s with cache := [] }

def run (s : State) : List Op → State
  | [] => s
  | op :: ops => run (step s op) ops

end Djc.Model.Serve
