/-
  Model of `ComponentRegistry` (component_registry.py) together with the tag `Library` it
  writes to (library.py) and the tag formatter's `start_tag` (tag_formatter.py).

  mirrors:
    register            : AlreadyRegistered check by class hash -> _register_to_library
                          (register_tag: TagProtectedError if protected, else library.tags[tag] = fn)
                          -> _tags[tag].add(name) -> _registry[name] = entry
    unregister          : get() (NotRegistered) -> _tags[tag].remove(name) -> del empty set
                          -> if not protected and empty and tag in library.tags: del -> del _registry[name]
    get / all / clear   : as in the code; clear() = unregister every name, then reset both dicts
  Types: ν component names, τ tag names, κ class hashes.
-/
import Djc.Base.AList
namespace Djc.Model.Registry
open Djc.AList

/-- Who put a tag function into `Library.tags`. -/
inductive Owner where
  | builtin (id : Nat)      -- a tag that was in the library before the registry touched it
  | component               -- a `tag_fn` closure created by `_register_to_library`
deriving Repr, DecidableEq

structure Reg (ν τ κ : Type) where
  entries   : List (ν × (κ × τ))      -- `_registry` : name -> (class, tag), insertion ordered
  tags      : List (τ × List ν)       -- `_tags`     : tag  -> set of names
  lib       : List (τ × Owner)        -- `library.tags`
  prot      : List τ                  -- `library._protected_tags`
  fmt       : ν → τ                   -- `formatter.start_tag`

inductive Op (ν κ : Type) where
  | register (n : ν) (c : κ)
  | unregister (n : ν)
  | get (n : ν)
  | all
  | clear
deriving Repr

inductive Out (ν κ : Type) where
  | ok
  | cls (c : κ)
  | all (d : List (ν × κ))
  | alreadyRegistered
  | notRegistered
  | tagProtected
  | keyError               -- `self._tags[tag].remove(name)` on a missing tag / name (proved unreachable)
deriving Repr, DecidableEq

variable {ν τ κ : Type} [DecidableEq ν] [DecidableEq τ] [DecidableEq κ]

def init (lib : List (τ × Owner)) (prot : List τ) (fmt : ν → τ) : Reg ν τ κ :=
  { entries := [], tags := [], lib := lib, prot := prot, fmt := fmt }

/-- `self._tags[tag].add(name)` (creating the set when the tag is new). -/
def addName (t : τ) (n : ν) (tags : List (τ × List ν)) : List (τ × List ν) :=
  match alookup t tags with
  | none => aset t [n] tags
  | some ns => if n ∈ ns then tags else aset t (ns ++ [n]) tags

def registerLib (r : Reg ν τ κ) (n : ν) (c : κ) : Reg ν τ κ × Out ν κ :=
  let t := r.fmt n
  if t ∈ r.prot then (r, .tagProtected)
  else
    ({ r with lib := aset t Owner.component r.lib,
              tags := addName t n r.tags,
              entries := aset n (c, t) r.entries }, .ok)

def register (r : Reg ν τ κ) (n : ν) (c : κ) : Reg ν τ κ × Out ν κ :=
  match alookup n r.entries with
  | some (c', _) => if c' ≠ c then (r, .alreadyRegistered) else registerLib r n c
  | none => registerLib r n c

def unregister (r : Reg ν τ κ) (n : ν) : Reg ν τ κ × Out ν κ :=
  match alookup n r.entries with
  | none => (r, .notRegistered)
  | some (_, t) =>
    match alookup t r.tags with
    | none => (r, .keyError)
    | some ns =>
      if n ∉ ns then (r, .keyError)
      else
        let ns' := ns.filter (fun m => !decide (m = n))
        let empty := ns'.isEmpty
        let tags' := if empty then aerase t r.tags else aset t ns' r.tags
        let lib' :=
          if t ∈ r.prot then r.lib
          else if empty && ahas t r.lib then aerase t r.lib else r.lib
        ({ r with tags := tags', lib := lib', entries := aerase n r.entries }, .ok)

def get (r : Reg ν τ κ) (n : ν) : Out ν κ :=
  match alookup n r.entries with
  | none => .notRegistered
  | some (c, _) => .cls c

def all (r : Reg ν τ κ) : List (ν × κ) := r.entries.map (fun e => (e.1, e.2.1))

/-- `for comp_name in list(self._registry.keys()): self.unregister(comp_name)` -/
def unregisterAll (r : Reg ν τ κ) : List ν → Reg ν τ κ × Out ν κ
  | [] => (r, .ok)
  | n :: ns =>
    match unregister r n with
    | (r', .ok) => unregisterAll r' ns
    | (r', o) => (r', o)

def clear (r : Reg ν τ κ) : Reg ν τ κ × Out ν κ :=
  match unregisterAll r (akeys r.entries) with
  | (r', .ok) => ({ r' with entries := [], tags := [] }, .ok)
  | (r', o) => (r', o)

def step (r : Reg ν τ κ) : Op ν κ → Reg ν τ κ × Out ν κ
  | .register n c => register r n c
  | .unregister n => unregister r n
  | .get n => (r, get r n)
  | .all => (r, .all (all r))
  | .clear => clear r

def run (r : Reg ν τ κ) : List (Op ν κ) → Reg ν τ κ
  | [] => r
  | op :: ops => run (step r op).1 ops

def outs (r : Reg ν τ κ) : List (Op ν κ) → List (Out ν κ)
  | [] => []
  | op :: ops => (step r op).2 :: outs (step r op).1 ops

end Djc.Model.Registry
