/-
  C17 model: `ComponentsFileSystemFinder` (finders.py).

  mirrors:
    _is_path_valid : a `str` entry `p` becomes `re.compile(re.escape(p) + "$")` (after the fix:
                     commit) and is `search`ed; a compiled regex entry is used as is;
                     valid = any(allowed) and not any(forbidden)
    find_location  : safe_join(root, path); exists and _is_path_valid(absolute path)
    list           : get_files(storage); _is_path_valid(relative path)
  Parameters (trusted base): compiled regexes are opaque predicates `rx i : path → Bool`;
  `safe_join` is modelled on '/'-separated, already split path components.
-/
namespace Djc.Model.Finder

inductive Pat where
  | suffix (s : List Char)
  | regex (i : Nat)
deriving Repr, DecidableEq

/-- `re.escape(s) + "$"` searched in `p`: `$` matches at the very end, or just before a final
newline. -/
def endsBeforeFinalNewline (s p : List Char) : Bool :=
  match p.getLast? with
  | some '\n' => s.isSuffixOf p.dropLast
  | _ => false

def matchesSuffix (s p : List Char) : Bool :=
  s.isSuffixOf p || endsBeforeFinalNewline s p

def matchesPat (rx : Nat → List Char → Bool) : Pat → List Char → Bool
  | .suffix s, p => matchesSuffix s p
  | .regex i, p => rx i p

def isPathValid (rx : Nat → List Char → Bool) (allowed forbidden : List Pat) (p : List Char) : Bool :=
  allowed.any (fun a => matchesPat rx a p) && forbidden.all (fun f => !matchesPat rx f p)

/-- `os.path.abspath` on the components of `join(root, path)`: drop "" and ".", pop on "..". -/
def normalize : List (List Char) → List (List Char) → List (List Char)
  | acc, [] => acc.reverse
  | acc, c :: rest =>
    if c = [] ∨ c = ['.'] then normalize acc rest
    else if c = ['.', '.'] then normalize acc.tail rest
    else normalize (c :: acc) rest

/-- `safe_join(root, path)`: `root` and `path` given as component lists (`root` absolute and
normalised; an absolute `path` replaces the root, as `os.path.join` does).  `none` =
SuspiciousFileOperation. -/
def safeJoin (root : List (List Char)) (pathAbsolute : Bool) (path : List (List Char)) :
    Option (List (List Char)) :=
  let final := if pathAbsolute then normalize [] path else normalize root.reverse path
  if root.isPrefixOf final then some final else none

def joinPath : List (List Char) → List Char
  | [] => []
  | c :: cs => '/' :: (c ++ joinPath cs)

/-- `finder.find(path)` for one location without prefix: `files` are the existing files, as
normalised component lists below `root`. -/
def find (rx : Nat → List Char → Bool) (allowed forbidden : List Pat)
    (root : List (List Char)) (files : List (List (List Char)))
    (pathAbsolute : Bool) (path : List (List Char)) : Option (List (List Char)) :=
  match safeJoin root pathAbsolute path with
  | none => none
  | some q =>
    if files.any (fun f => root ++ f = q) ∧ isPathValid rx allowed forbidden (joinPath q)
    then some q else none

/-- relative path as `get_files` yields it: components joined by '/', no leading slash -/
def relPath (f : List (List Char)) : List Char := (joinPath f).drop 1

def list (rx : Nat → List Char → Bool) (allowed forbidden : List Pat)
    (files : List (List (List Char))) : List (List (List Char)) :=
  files.filter (fun f => isPathValid rx allowed forbidden (relPath f))

end Djc.Model.Finder
