/-
  C20 model: autodiscovery file selection and dotted module paths (util/loader.py).

  mirrors:
    _search_dirs               : glob `**/*{suffix}` (recursive, hidden names not matched) + the
                                 underscore filter on the path relative to the component directory
    _filepath_to_python_module : relative_to(root).with_suffix("").parts joined by ".", optional
                                 package prefix, trailing ".__init__" removed
    get_component_files        : the `".." in module_path` filter for COMPONENTS.dirs entries;
                                 no such filter for app directories
  `glob.iglob` is a parameter with the contract "all paths below the directory whose name matches
  `*suffix`, skipping names that start with a dot"; a tree is the list of relative paths (lists of
  parts) below one component directory.
-/
namespace Djc.Model.Discover

abbrev Part := List Char
abbrev RelPath := List Part        -- directory parts, then the file name

def startsWithC (c : Char) (p : Part) : Bool :=
  match p with
  | d :: _ => d == c
  | [] => false

/-- the glob `**/*{suffix}`: name ends with the suffix, no part is hidden -/
def globMatch (suffix : Part) (f : RelPath) : Bool :=
  match f.getLast? with
  | none => false
  | some name => suffix.isSuffixOf name && f.all (fun p => !startsWithC '.' p)

/-- the underscore filter of `_search_dirs` -/
def underscoreOk (f : RelPath) : Bool :=
  match f.getLast? with
  | none => false
  | some name =>
    f.dropLast.all (fun p => !startsWithC '_' p) &&
    (!startsWithC '_' name || name == "__init__.py".toList)

def searchDir (suffix : Part) (tree : List RelPath) : List RelPath :=
  tree.filter (fun f => globMatch suffix f && underscoreOk f)

/-- `PurePath.with_suffix("")` on a file name: cut at the last dot unless it is the first or the
last character. -/
def stripLastSuffix (name : Part) : Part :=
  match name.reverse.idxOf? '.' with
  | none => name
  | some k =>
    -- k = distance of the last '.' from the end; its index is len - 1 - k
    let i := name.length - 1 - k
    if 0 < i ∧ k ≠ 0 then name.take i else name

def joinDots : List Part → Part
  | [] => []
  | [p] => p
  | p :: ps => p ++ '.' :: joinDots ps

/-- `".." in module_path` -/
def hasDotDot : Part → Bool
  | [] => false
  | c :: rest => (c == '.' && startsWithC '.' rest) || hasDotDot rest

def initSuf : Part := ".__init__".toList

def dropInitSuffix (m : Part) : Part :=
  if initSuf.isSuffixOf m then m.take (m.length - initSuf.length) else m

/-- dotted name before the `.__init__` cut -/
def rawDotPath (rootModule : Option Part) (above : List Part) (f : RelPath) : Part :=
  let parts := above ++ f
  let parts' := match parts.getLast? with
    | none => parts
    | some name => parts.dropLast ++ [stripLastSuffix name]
  let m := joinDots parts'
  match rootModule with
  | some r => r ++ '.' :: m
  | none => m

/-- `_filepath_to_python_module(file, root, root_module)`: `above` = parts between the root and
the component directory (e.g. `["components"]` for BASE_DIR/components). -/
def dotPath (rootModule : Option Part) (above : List Part) (f : RelPath) : Part :=
  dropInitSuffix (rawDotPath rootModule above f)

/-- entries contributed by one `COMPONENTS.dirs` directory -/
def dirEntries (suffix : Part) (above : List Part) (tree : List RelPath) : List (Part × RelPath) :=
  ((searchDir suffix tree).map (fun f => (dotPath none above f, f))).filter
    (fun e => !hasDotDot e.1)

/-- entries contributed by one app directory (no ".." filter) -/
def appEntries (suffix : Part) (pkg : Part) (appDir : List Part) (tree : List RelPath) :
    List (Part × RelPath) :=
  (searchDir suffix tree).map (fun f => (dotPath (some pkg) appDir f, f))

end Djc.Model.Discover
