/-
  The template calculus shared by the render-pipeline properties (C01, C03, C04, C05, C06, C14).

  mirrors (as data): django.template.base (TextNode, VariableNode), defaulttags (IfNode, ForNode,
  WithNode), django_components.{component.ComponentNode, slots.SlotNode / FillNode,
  provide.ProvideNode}, django.template.context.Context (a list of dict layers).
  No imports: everything here is executable and usable by the driver.
-/
namespace Djc.Tpl

abbrev Str := List Char

inductive Expr where
  | lit (s : Str)
  | var (path : List Str)            -- `a.b.c`
deriving Repr, DecidableEq, Inhabited

inductive Node where
  | text (s : Str)
  | out (e : Expr)
  | ifn (c : Expr) (t : List Node) (e : List Node)
  | forn (x : Str) (e : Expr) (body : List Node)
  | withn (x : Str) (e : Expr) (body : List Node)
  | elem (tag : Str) (body : List Node)
  | slot (name : Expr) (isDefault : Bool) (isRequired : Bool) (data : List (Str × Expr)) (body : List Node)
  | fill (name : Expr) (dataVar : Option Str) (defaultVar : Option Str) (body : List Node)
  | comp (name : Str) (kwargs : List (Str × Expr)) (only : Bool) (dyn : Bool) (body : List Node)
  | provide (key : Str) (kwargs : List (Str × Expr)) (body : List Node)
  -- Django's composition tags (C10): resolved by `Djc.Blocks.flatten` before interpretation
  | block (name : Str) (body : List Node)
  | blockSuper
  | extends (parent : Str)
  | includen (name : Str)
deriving Repr, Inhabited

/-- Python values as far as templates and the library look into them -/
inductive Val where
  | str (s : Str)
  | list (xs : List Val)
  | dict (kvs : List (Str × Val))
  | bool (b : Bool)
  | none
  | compRef (id : Nat)               -- value under `_DJC_COMPONENT_CTX`
  | provRef (id : Nat)               -- value under `_DJC_INJECT__<key>`
  | fillGen                          -- value under `_DJC_FILL_GEN` (the list itself lives in the world)
  | isFilled (names : List Str)      -- `component_vars` (its `.is_filled` is the same object here)
  | injected (kvs : List (Str × Val)) -- the `DepInject` namedtuple `inject()` returns
  | idBox (id : Nat)                 -- `Component.id` wrapped in an opaque object: prints, is truthy, iterates over nothing
  | slotRef (nodes : List Node) (ctx : Option (List (List (Str × Val))))
deriving Repr, Inhabited

abbrev Layer := List (Str × Val)
abbrev Ctx := List Layer             -- `Context.dicts`, oldest first

def compKey : Str := "_DJC_COMPONENT_CTX".toList
def fillGenKey : Str := "_DJC_FILL_GEN".toList
def injectPrefix : Str := ['_', 'D', 'J', 'C', '_', 'I', 'N', 'J', 'E', 'C', 'T', '_', '_']
def compVarsKey : Str := "component_vars".toList
def forloopKey : Str := "forloop".toList
def parentloopKey : Str := "parentloop".toList
def counterKey : Str := "counter".toList
def isFilledKey : Str := "is_filled".toList
def defaultKey : Str := "default".toList

def lookupL (k : Str) : Layer → Option Val
  | [] => Option.none
  | (k', v) :: rest => if k' = k then some v else lookupL k rest

/-- `d[k] = v` -/
def setL (k : Str) (v : Val) : Layer → Layer
  | [] => [(k, v)]
  | (k', v') :: rest => if k' = k then (k', v) :: rest else (k', v') :: setL k v rest

/-- `d.update(other)` -/
def updateL (d other : Layer) : Layer := other.foldl (fun acc kv => setL kv.1 kv.2 acc) d

def hasL (k : Str) (l : Layer) : Bool := (lookupL k l).isSome

/-- `context[k]` / `context.get(k)`: newest layer first -/
def ctxGet (ctx : Ctx) (k : Str) : Option Val :=
  ctx.foldl (fun acc l => match lookupL k l with | some v => some v | Option.none => acc) Option.none

def ctxHas (ctx : Ctx) (k : Str) : Bool := (ctxGet ctx k).isSome

/-- `context[k] = v`: the newest layer -/
def ctxSetTop (ctx : Ctx) (k : Str) (v : Val) : Ctx :=
  match ctx.reverse with
  | [] => [[(k, v)]]
  | top :: below => (setL k v top :: below).reverse

/-- `context.flatten()` -/
def flatten (ctx : Ctx) : Layer := ctx.foldl updateL []

def startsWith (p s : Str) : Bool := p.isPrefixOf s

def injectKeysOf (ctx : Ctx) : Layer := (flatten ctx).filter (fun kv => startsWith injectPrefix kv.1)

def getLastIndex {α} (p : α → Bool) (xs : List α) : Option Nat :=
  (xs.zipIdx.foldl (fun acc (x, i) => if p x then some i else acc) Option.none)

def getIndex {α} (p : α → Bool) (xs : List α) : Option Nat :=
  (xs.zipIdx.find? (fun (x, _) => p x)).map (·.2)

def insertAt {α} (i : Nat) (x : α) (xs : List α) : List α := xs.take i ++ x :: xs.drop i
def popAt {α} (i : Nat) (xs : List α) : List α := xs.take i ++ xs.drop (i + 1)

/-- attribute access in a template variable: dict key, `is_filled` of component_vars, name of is_filled -/
def getField (v : Val) (f : Str) : Option Val :=
  match v with
  | .dict kvs => lookupL f kvs
  | .injected kvs => lookupL f kvs
  | .isFilled names => if f = isFilledKey then some (.isFilled names) else some (.bool (names.contains f))
  | _ => Option.none

def evalPath (ctx : Ctx) : List Str → Option Val
  | [] => Option.none
  | n :: fs => fs.foldl (fun acc f => acc.bind (fun v => getField v f)) (ctxGet ctx n)

/-- `FilterExpression.resolve`; a failed lookup is `string_if_invalid` = "" -/
def evalExpr (ctx : Ctx) : Expr → Val
  | .lit s => .str s
  | .var p => (evalPath ctx p).getD (.str [])

def truthy : Val → Bool
  | .str s => !s.isEmpty
  | .list xs => !xs.isEmpty
  | .dict kvs => !kvs.isEmpty
  | .injected kvs => !kvs.isEmpty
  | .bool b => b
  | .none => false
  | _ => true

def quoteEsc : Str := "&#x27;".toList

def joinWith (sep : Str) : List Str → Str
  | [] => []
  | [x] => x
  | x :: rest => x ++ sep ++ joinWith sep rest

mutual
  /-- `repr` of a value inside a printed list / dict, after autoescaping (values carry no `< > & "`) -/
  def reprEsc : Val → Str
    | .str s => quoteEsc ++ s ++ quoteEsc
    | .bool true => "True".toList
    | .bool false => "False".toList
    | .none => "None".toList
    | .list xs => '[' :: joinWith ", ".toList (reprEscList xs) ++ [']']
    | .dict kvs => '{' :: joinWith ", ".toList (reprEscKvs kvs) ++ ['}']
    | .injected kvs => "DepInject(".toList ++ joinWith ", ".toList (reprEscFields kvs) ++ [')']   -- a namedtuple inside a printed value
    | _ => "?".toList
  def reprEscFields : List (Str × Val) → List Str
    | [] => []
    | (k, v) :: kvs => (k ++ ['='] ++ reprEsc v) :: reprEscFields kvs
  def reprEscList : List Val → List Str
    | [] => []
    | v :: vs => reprEsc v :: reprEscList vs
  def reprEscKvs : List (Str × Val) → List Str
    | [] => []
    | (k, v) :: kvs => (quoteEsc ++ k ++ quoteEsc ++ ": ".toList ++ reprEsc v) :: reprEscKvs kvs
end

def natStr (n : Nat) : Str := (toString n).toList

mutual
  /-- is the value nested deeper than the budget allows?  (slot-data aliases can be nested into each
  other without bound; printing such a value is exponential on both sides, so the case is skipped) -/
  def tooDeep : Nat → Val → Bool
    | 0, .dict _ => true
    | 0, .list _ => true
    | 0, .injected _ => true
    | 0, _ => false
    | n + 1, .dict kvs => tooDeepKvs n kvs
    | n + 1, .list xs => tooDeepList n xs
    | n + 1, .injected kvs => tooDeepKvs n kvs
    | _ + 1, _ => false
  def tooDeepList : Nat → List Val → Bool
    | 0, _ => false
    | _ + 1, [] => false
    | n + 1, v :: vs => tooDeep n v || tooDeepList n vs
  def tooDeepKvs : Nat → List (Str × Val) → Bool
    | 0, _ => false
    | _ + 1, [] => false
    | n + 1, (_, v) :: kvs => tooDeep n v || tooDeepKvs n kvs
end

/-- can the value be a dict key (`slot_name in fills`)?  lists and dicts are not; a namedtuple is
iff all its fields are -/
def hashable : Val → Bool
  | .list _ => false
  | .dict _ => false
  | .injected kvs => kvs.all (fun kv => match kv.2 with | .list _ => false | .dict _ => false | _ => true)
  | _ => true

/-- what `{{ v }}` prints -/
def pyStr : Val → Str
  | .str s => s
  | .bool true => "True".toList
  | .bool false => "False".toList
  | .none => "None".toList
  | .list xs => '[' :: joinWith ", ".toList (reprEscList xs) ++ [']']
  | .dict kvs => '{' :: joinWith ", ".toList (reprEscKvs kvs) ++ ['}']
  | .idBox id => 'I' :: 'D' :: natStr id ++ ['Z']
  | .injected kvs => "DepInject(".toList ++ joinWith ", ".toList (kvs.map (fun kv => kv.1 ++ ['='] ++ reprEsc kv.2)) ++ [')']
  | _ => "?".toList

/-- what `{% for x in v %}` iterates over (`None` / failed lookup: nothing) -/
def iterVals : Val → List Val
  | .list xs => xs
  | .str s => s.map (fun c => .str [c])
  | .dict kvs => kvs.map (fun kv => .str kv.1)
  | .injected kvs => kvs.map (fun kv => kv.2)      -- a namedtuple iterates over its values
  | _ => []


/-- the `forloop` dict (the keys the generated templates can observe) and the loop variable -/
def forLayer (ctx : Ctx) (x : Str) (i : Nat) (item : Val) : Layer :=
  let parent : Val := (ctxGet ctx forloopKey).getD (.dict [])
  [(forloopKey, .dict [(parentloopKey, parent), (counterKey, .str (natStr (i + 1)))]), (x, item)]

def isBlank (s : Str) : Bool := s.all (fun c => c = ' ' || c = '\n' || c = '\t' || c = '\r')

/-- `name_escape_re.sub("_", name)` for ASCII names -/
def escapeSlotName (n : Str) : Str := n.map (fun c => if c.isAlphanum || c = '_' then c else '_')

/-! ### output tokens -/

inductive Tok where
  | text (s : Str)
  | opn (tag : Str) (attrs : List Str)
  | cls (tag : Str)
  | hole (id : Nat) (attrs : List Str)      -- `<template djc-render-id="ID" attrs></template>`
  | marker (comp : Str) (id : Nat)          -- `<!-- _RENDERED hash,ID,, -->`
deriving Repr, DecidableEq, Inhabited

def idAttr (id : Nat) : Str := "data-djc-id-".toList ++ natStr id

/-- depth of each token = number of unclosed `opn` before it -/
def addRootAttrsAux (attrs : List Str) : Nat → List Tok → List Tok
  | _, [] => []
  | d, .opn t a :: rest => .opn t (if d = 0 then a ++ attrs else a) :: addRootAttrsAux attrs (d + 1) rest
  | d, .cls t :: rest => .cls t :: addRootAttrsAux attrs (d - 1) rest
  | d, .hole i a :: rest => .hole i (if d = 0 then a ++ attrs else a) :: addRootAttrsAux attrs d rest
  | d, t :: rest => t :: addRootAttrsAux attrs d rest

/-- `set_html_attributes(html, root_attributes=attrs, all_attributes=[])` on the token form -/
def addRootAttrs (attrs : List Str) (toks : List Tok) : List Tok := addRootAttrsAux attrs 0 toks

/-- the second result of `set_html_attributes(..., watch_on_attribute="djc-render-id")`: every
placeholder is reported, with the attributes that were set on it (none below the top level) -/
def rootHolesAux (attrs : List Str) : Nat → List Tok → List (Nat × List Str)
  | _, [] => []
  | d, .opn _ _ :: rest => rootHolesAux attrs (d + 1) rest
  | d, .cls _ :: rest => rootHolesAux attrs (d - 1) rest
  | d, .hole i _ :: rest => (i, if d = 0 then attrs else []) :: rootHolesAux attrs d rest
  | d, _ :: rest => rootHolesAux attrs d rest

def rootHoles (attrs : List Str) (toks : List Tok) : List (Nat × List Str) := rootHolesAux attrs 0 toks

end Djc.Tpl
