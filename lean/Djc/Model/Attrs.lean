/-
  C13 model: `{% html_attrs %}`, slot-content escaping, and the script / style end-tag guard.

  mirrors:
    attributes.py   HtmlAttrsNode.render, append_attributes, attributes_to_string
    util/template_tag.py  merge_repeated_kwargs (repeated keywords on html_attrs)
    component.py    Component._normalize_slot_fills (+ Slot.escaped)
    dependencies.py wrap_component_js / wrap_component_css (after the `fix:` commit: any letter case)
  Django's `html.escape` / `conditional_escape` / `SafeString.__add__` are modelled here (5 entities;
  concatenating anything that is not SafeData to a SafeString yields a plain str).
-/
import Djc.Base.AList
import Djc.Base.Except
namespace Djc.Model.Attrs
open Djc.AList

abbrev Str := List Char

inductive Val where
  | str (s : Str)          -- plain str
  | safe (s : Str)         -- SafeString
  | num (n : Nat)
  | tt | ff | none
deriving Repr, DecidableEq

/-- `html.escape(s, quote=True)` one character -/
def escChar (c : Char) : Str :=
  if c = '&' then "&amp;".toList
  else if c = '<' then "&lt;".toList
  else if c = '>' then "&gt;".toList
  else if c = '"' then "&quot;".toList
  else if c = '\'' then "&#x27;".toList
  else [c]

def escape : Str → Str
  | [] => []
  | c :: cs => escChar c ++ escape cs

def natStr (n : Nat) : Str := (toString n).toList

/-- `str(v)` -/
def strOf : Val → Str
  | .str s => s
  | .safe s => s
  | .num n => natStr n
  | .tt => "True".toList
  | .ff => "False".toList
  | .none => "None".toList

/-- `conditional_escape(v)` -/
def condEscape : Val → Str
  | .safe s => s
  | v => escape (strOf v)

inductive Err where
  | typeError
deriving Repr, DecidableEq

/-- `result[key] += " " + value` -/
def appendVal : Val → Val → Except Err Val
  | .str a, .str b => .ok (.str (a ++ ' ' :: b))
  | .str a, .safe b => .ok (.str (a ++ ' ' :: b))
  | .safe a, .str b => .ok (.str (a ++ ' ' :: b))
  | .safe a, .safe b => .ok (.str (a ++ ' ' :: b))
  | _, _ => .error .typeError

/-- `append_attributes(*pairs)` -/
def appendAttributes : List (Str × Val) → List (Str × Val) → Except Err (List (Str × Val))
  | acc, [] => .ok acc
  | acc, (k, v) :: rest =>
    match alookup k acc with
    | none => appendAttributes (acc ++ [(k, v)]) rest
    | some old =>
      match appendVal old v with
      | .error e => .error e
      | .ok nv => appendAttributes (aset k nv acc) rest

/-- `dict.update` -/
def updateAll (d : List (Str × Val)) : List (Str × Val) → List (Str × Val)
  | [] => d
  | (k, v) :: rest => updateAll (aset k v d) rest

/-- `merge_repeated_kwargs`: a repeated keyword keeps its first position; its value becomes the
`str()`s joined by single spaces (a plain str). -/
def mergeRepeated : List (Str × Val) → List (Str × Val) → List (Str × Val)
  | acc, [] => acc
  | acc, (k, v) :: rest =>
    match alookup k acc with
    | none => mergeRepeated (acc ++ [(k, v)]) rest
    | some old => mergeRepeated (aset k (.str (strOf old ++ ' ' :: strOf v)) acc) rest

def renderOne (k : Str) (v : Val) : Option Str :=
  match v with
  | .none => none
  | .ff => none
  | .tt => some (escape k)
  | v => some (escape k ++ '=' :: '"' :: condEscape v ++ ['"'])

def joinSp : List Str → Str
  | [] => []
  | [x] => x
  | x :: xs => x ++ ' ' :: joinSp xs

/-- `attributes_to_string` -/
def attrsToString (m : List (Str × Val)) : Str :=
  joinSp (m.filterMap (fun e => renderOne e.1 e.2))

/-- the merged attribute dictionary of `HtmlAttrsNode.render(context, attrs, defaults, **kwargs)` -/
def mergeAttrs (defaults attrs kwargs : List (Str × Val)) : Except Err (List (Str × Val)) :=
  appendAttributes [] (updateAll (updateAll [] defaults) attrs ++ kwargs)

/-- `HtmlAttrsNode.render(context, attrs, defaults, **kwargs)` -/
def htmlAttrs (defaults attrs kwargs : List (Str × Val)) : Except Err Str :=
  match mergeAttrs defaults attrs kwargs with
  | .error e => .error e
  | .ok m => .ok (attrsToString m)

/-- what `render` receives for the keywords written on the tag: repeated keywords merged
(`merge_repeated_kwargs`), then identifier keys first and non-identifier keys after them
(`wrapper_render` passes the latter through a separate dict, see C11). -/
def tagKwargs (special : Str → Bool) (kws : List (Str × Val)) : List (Str × Val) :=
  let m := mergeRepeated [] kws
  m.filter (fun e => !special e.1) ++ m.filter (fun e => special e.1)

def htmlAttrsTag (special : Str → Bool) (defaults attrs kws : List (Str × Val)) : Except Err Str :=
  htmlAttrs defaults attrs (tagKwargs special kws)

/-! ### slot content handed to `Component.render(slots=…)` -/

/-- what calling a content function yields: the text and whether it is SafeData -/
structure Yield where
  text : Str
  safe : Bool
deriving Repr, DecidableEq

/-- a `Slot` instance -/
structure SlotV where
  escaped : Bool          -- `Slot.escaped`
  named   : Bool          -- slot_name and component_name set
  yield   : Yield         -- result of `content_func(ctx, data, ref)`
deriving Repr, DecidableEq

inductive Content where
  | plain (s : Str)               -- str
  | safeS (s : Str)               -- SafeString
  | fn (y : Yield)                -- a function returning str / SafeString
  | slot (v : SlotV)              -- a Slot instance (user-made or a normalised one passed on)
deriving Repr, DecidableEq

/-- `conditional_escape(rendered)`: always SafeData afterwards -/
def condEscapeY (y : Yield) : Yield :=
  { text := if y.safe then y.text else escape y.text, safe := true }

/-- the wrapper `content_fn` of `gen_escaped_content_func` -/
def wrapY (escapeFlag : Bool) (y : Yield) : Yield := if escapeFlag then condEscapeY y else y

/-- `_normalize_slot_fills` for one entry (`escape_content = escapeFlag`) -/
def normalize (escapeFlag : Bool) : Content → SlotV
  | .plain s =>
      -- TextNode(conditional_escape(content) if escape_content else content), rendered by a
      -- Template: the result is a SafeString; the Slot is created with escaped=False
      { escaped := false, named := true,
        yield := { text := if escapeFlag then escape s else s, safe := true } }
  | .safeS s => { escaped := false, named := true, yield := { text := s, safe := true } }
  | .fn y => { escaped := true, named := true, yield := wrapY escapeFlag y }
  | .slot v =>
      if v.escaped ∧ v.named then v
      else if ¬ v.escaped then { escaped := true, named := true, yield := wrapY escapeFlag v.yield }
      else { escaped := true, named := true, yield := v.yield }

/-- what the `{% slot %}` prints for a normalised fill (node output is not escaped again) -/
def output (v : SlotV) : Str := v.yield.text

/-- pass a normalised slot on through `n` further `render(slots=…)` calls with arbitrary flags -/
def repass : List Bool → SlotV → SlotV
  | [], v => v
  | f :: fs, v => repass fs (normalize f (.slot v))

/-! ### end-tag guard -/

def lowerAscii (c : Char) : Char := if 'A' ≤ c ∧ c ≤ 'Z' then Char.ofNat (c.toNat + 32) else c

def isPrefixCI : Str → Str → Bool
  | [], _ => true
  | _ :: _, [] => false
  | p :: ps, c :: cs => (lowerAscii c == p) && isPrefixCI ps cs

/-- does `needle` (lower case) occur in `s`, ASCII-case-insensitively? -/
def containsCI (needle : Str) : Str → Bool
  | [] => needle.isEmpty
  | c :: cs => isPrefixCI needle (c :: cs) || containsCI needle cs

def jsNeedle : Str := "</script".toList
def cssNeedle : Str := "</style".toList
def jsOpen : Str := "<script>".toList
def jsClose : Str := "</script>".toList
def cssOpen : Str := "<style>".toList
def cssClose : Str := "</style>".toList

def wrapWith (needle op cl content : Str) : Option Str :=
  if containsCI needle content then none else some (op ++ content ++ cl)

/-- `wrap_component_js` / `wrap_component_css`: `none` = RuntimeError (refused) -/
def wrapScript (isJs : Bool) (content : Str) : Option Str :=
  if isJs then wrapWith jsNeedle jsOpen jsClose content
  else wrapWith cssNeedle cssOpen cssClose content

end Djc.Model.Attrs
