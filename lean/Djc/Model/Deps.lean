/-
  C08 model: `render_dependencies` as a text transformation (dependencies.py).

  mirrors:
    _process_dep_declarations : COMPONENT_COMMENT_REGEX.sub(..., b"")        -> `stripMarkers`
    render_dependencies       : PLACEHOLDER_REGEX.sub(on_replace_match, ...) -> `subPlaceholders`
                                _insert_js_css_to_default_locations          -> `insertDefault`
                                fragment: content_ += js_dependencies
    ComponentDependencyMiddleware._process_response                           -> `middlewareTouches`
  The generated tags (`C` = css_dependencies, `J` = js_dependencies) are opaque strings here;
  how they are built from the markers is C04.

  Text is `List Char` (code points).  The two `bytes` regexes use ASCII-only classes, which on
  valid UTF-8 is the same as matching code points with ASCII predicates; the end-tag regex is a
  `str` regex, so its `\s` is Unicode white space.
-/
namespace Djc.Model.Deps

/-- `\s` of a bytes pattern -/
def isAsciiSpace (c : Char) : Bool :=
  c == ' ' || c == '\t' || c == '\n' || c == '\r' || c == '\x0c' || c == '\x0b'

/-- `\s` of a str pattern (`str.isspace` code points) -/
def isUniSpace (c : Char) : Bool :=
  isAsciiSpace c || (0x1c ≤ c.toNat && c.toNat ≤ 0x1f) || c.toNat == 0x85 || c.toNat == 0xa0 ||
  c.toNat == 0x1680 || (0x2000 ≤ c.toNat && c.toNat ≤ 0x200a) || c.toNat == 0x2028 ||
  c.toNat == 0x2029 || c.toNat == 0x202f || c.toNat == 0x205f || c.toNat == 0x3000

/-- `\w` of a bytes pattern -/
def isWordB (c : Char) : Bool :=
  ('a' ≤ c && c ≤ 'z') || ('A' ≤ c && c ≤ 'Z') || ('0' ≤ c && c ≤ '9') || c == '_'

/-- `[\w\-,/]` -/
def isDataChar (c : Char) : Bool := isWordB c || c == '-' || c == ',' || c == '/'

/-- if `s = p ++ rest` then `some rest` -/
def dropPrefix? : List Char → List Char → Option (List Char)
  | [], s => some s
  | _ :: _, [] => none
  | p :: ps, c :: cs => if p = c then dropPrefix? ps cs else none

/-- one-or-more of a class: returns (count, rest) -/
def many1 (p : Char → Bool) (s : List Char) : Option (Nat × List Char) :=
  let run := s.takeWhile p
  if run.isEmpty then none else some (run.length, s.dropWhile p)

/-- `<!--\s+_RENDERED\s+[\w\-,/]+?\s+-->` at the head of `s`: length of the match. -/
def matchMarker (s : List Char) : Option Nat :=
  match dropPrefix? "<!--".toList s with
  | none => none
  | some s1 =>
    match many1 isAsciiSpace s1 with
    | none => none
    | some (n1, s2) =>
      match dropPrefix? "_RENDERED".toList s2 with
      | none => none
      | some s3 =>
        match many1 isAsciiSpace s3 with
        | none => none
        | some (n2, s4) =>
          match many1 isDataChar s4 with
          | none => none
          | some (n3, s5) =>
            match many1 isAsciiSpace s5 with
            | none => none
            | some (n4, s6) =>
              match dropPrefix? "-->".toList s6 with
              | none => none
              | some _ => some (4 + n1 + 9 + n2 + n3 + n4 + 3)

/-- `(?: data-djc-XXX-\w{6}="")?` : number of characters consumed (0 if absent) and the rest. -/
def optAttr (pfx : List Char) (s : List Char) : Nat × List Char :=
  match dropPrefix? pfx s with
  | none => (0, s)
  | some r =>
    let w := r.take 6
    if w.length = 6 ∧ w.all isWordB then
      match dropPrefix? "=\"\"".toList (r.drop 6) with
      | some r' => (pfx.length + 6 + 3, r')
      | none => (0, s)
    else (0, s)

inductive Kind where
  | css | js
deriving Repr, DecidableEq

/-- PLACEHOLDER_REGEX at the head of `s`. -/
def matchPlaceholder (s : List Char) : Option (Nat × Kind) :=
  let cssPfx := "<link name=\"CSS_PLACEHOLDER\"".toList
  let jsPfx := "<script name=\"JS_PLACEHOLDER\"".toList
  let jsEnd := "></script>".toList
  let cssAlt : Option (Nat × Kind) :=
    match dropPrefix? cssPfx s with
    | none => none
    | some r0 =>
      let (n1, r1) := optAttr " data-djc-css-".toList r0
      let (n2, r2) := optAttr " data-djc-id-".toList r1
      match r2 with
      | '/' :: '>' :: _ => some (cssPfx.length + n1 + n2 + 2, Kind.css)
      | '>' :: _ => some (cssPfx.length + n1 + n2 + 1, Kind.css)
      | _ => none
  match cssAlt with
  | some r => some r
  | none =>
    match dropPrefix? jsPfx s with
    | none => none
    | some r0 =>
      let (n1, r1) := optAttr " data-djc-css-".toList r0
      let (n2, r2) := optAttr " data-djc-id-".toList r1
      match dropPrefix? jsEnd r2 with
      | some _ => some (jsPfx.length + n1 + n2 + jsEnd.length, Kind.js)
      | none => none

inductive EndTag where
  | head | body
deriving Repr, DecidableEq

def lowerAscii (c : Char) : Char := if 'A' ≤ c ∧ c ≤ 'Z' then Char.ofNat (c.toNat + 32) else c

/-- `<\/(?:head|body)\s*>` at the head of `s` (`ci`: re.IGNORECASE, extracted from the source). -/
def matchEndTag (ci : Bool) (s : List Char) : Option EndTag :=
  match s with
  | '<' :: '/' :: a :: b :: c :: d :: rest =>
    let name := if ci then [a, b, c, d].map lowerAscii else [a, b, c, d]
    let tag? : Option EndTag :=
      if name = "head".toList then some .head else if name = "body".toList then some .body else none
    match tag? with
    | none => none
    | some t =>
      match rest.dropWhile isUniSpace with
      | '>' :: _ => some t
      | _ => none
  | _ => none

/-- `regex.sub` for a matcher that never matches the empty string: `m s = some (n, r)` means a
match of length `n + 1` at the head of `s`, to be replaced by `r`.  `skip` = characters of the
current match still to be dropped (structural recursion on the text). -/
def subAllGo (m : List Char → Option (Nat × List Char)) : Nat → List Char → List Char
  | _, [] => []
  | skip + 1, _ :: cs => subAllGo m skip cs
  | 0, c :: cs =>
    match m (c :: cs) with
    | some (n, r) => r ++ subAllGo m n cs
    | none => c :: subAllGo m 0 cs

def subAll (m : List Char → Option (Nat × List Char)) (s : List Char) : List Char := subAllGo m 0 s

def markerMatcher (s : List Char) : Option (Nat × List Char) :=
  match matchMarker s with
  | some (n + 1) => some (n, [])
  | _ => none

def stripMarkers (s : List Char) : List Char := subAll markerMatcher s

def placeholderMatcher (C J : List Char) (s : List Char) : Option (Nat × List Char) :=
  match matchPlaceholder s with
  | some (n + 1, .css) => some (n, C)
  | some (n + 1, .js) => some (n, J)
  | _ => none

/-- does a placeholder of the given kind occur (in the scan order of `sub`)? -/
def foundGo (k : Kind) : Nat → List Char → Bool
  | _, [] => false
  | skip + 1, _ :: cs => foundGo k skip cs
  | 0, c :: cs =>
    match matchPlaceholder (c :: cs) with
    | some (n + 1, k') => (k' == k) || foundGo k n cs
    | _ => foundGo k 0 cs

def foundKind (k : Kind) (s : List Char) : Bool := foundGo k 0 s

/-- index of the first `</head>` (scanning every position) -/
def firstHead (ci : Bool) : List Char → Option Nat
  | [] => none
  | c :: cs =>
    if matchEndTag ci (c :: cs) = some .head then some 0
    else (firstHead ci cs).map (· + 1)

/-- index of the last `</body>` -/
def lastBody (ci : Bool) : List Char → Option Nat
  | [] => none
  | c :: cs =>
    match lastBody ci cs with
    | some i => some (i + 1)
    | none => if matchEndTag ci (c :: cs) = some .body then some 0 else none

def insertAt (s : List Char) (i : Nat) (x : List Char) : List Char := s.take i ++ x ++ s.drop i

/-- `_insert_js_css_to_default_locations` (with the offset repair of the `fix:` commit). -/
def insertDefault (ci : Bool) (s : List Char) (css js : Option (List Char)) : List Char :=
  let h := if css.isSome then firstHead ci s else none
  let b := if js.isSome then lastBody ci s else none
  let (u, off) :=
    match css, h with
    | some c, some hi => (insertAt s hi c, c.length)
    | _, _ => (s, 0)
  match js, b with
  | some j, some bi =>
    let off' := match h with
      | none => 0
      | some hi => if hi > bi then 0 else off
    insertAt u (bi + off') j
  | _, _ => u

def renderDeps (ci : Bool) (doc : Bool) (C J : List Char) (s : List Char) : List Char :=
  let t1 := stripMarkers s
  let foundCss := foundKind .css t1
  let foundJs := foundKind .js t1
  let t2 := subAll (placeholderMatcher (if doc then C else []) (if doc then J else [])) t1
  if doc then
    if !foundJs || !foundCss then
      insertDefault ci t2 (if foundCss then none else some C) (if foundJs then none else some J)
    else t2
  else t2 ++ J

/-- `_process_response`: is the response body rewritten? -/
def middlewareTouches (streaming : Bool) (contentType : List Char) : Bool :=
  !streaming && (dropPrefix? "text/html".toList contentType).isSome

end Djc.Model.Deps
