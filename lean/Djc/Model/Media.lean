/-
  C16 model: how `Component.media` is assembled (component_media.py `_get_comp_cls_media`) and how
  `template` / `js` / `css` are looked up (`_get_comp_cls_attr`).

  mirrors:
    _get_comp_cls_media : explicit work stack (deque), process-global `media_cache`,
                          `getattr(curr_cls, "Media", None)` (plain attribute inheritance: the nearest
                          `Media` in the MRO), `extend` True / False / list, merge of the bases' cached
                          media into the class's own
    _get_comp_cls_attr  : MRO walk with the pair rule (js/js_file, css/css_file, template/template_file)
    ComponentMedia.__post_init__ : both members of a pair set -> ImproperlyConfigured
  Parameters: CPython's MRO (the owner of the nearest `Media` and the MRO list are *data* computed
  by the real interpreter for each generated hierarchy, with the checkable side condition `EffOK`);
  Django's `Media.__add__` / `merge` (here: append without duplicates; only the *set* of files and
  the absence of duplicates are compared, the order is checked by a separate oracle).
-/
import Djc.Base.AList
namespace Djc.Model.Media
open Djc.AList

abbrev Str := List Char
/-- a file with its medium: ("js", path) or (css media type, path) -/
abbrev File := Str × Str

inductive Ext where
  | all                       -- extend = True (default)
  | none                      -- extend = False
  | only (ids : List Nat)     -- extend = [Cls, …]
deriving Repr, DecidableEq

structure MediaDecl where
  files  : List File
  extend : Ext
deriving Repr, DecidableEq

structure ClsDecl where
  bases : List Nat              -- `__bases__`, as indices into the hierarchy
  own   : Option MediaDecl      -- `Media` declared in the class body
  eff   : Option Nat            -- class that owns the nearest `Media` attribute in the MRO
deriving Repr, DecidableEq

/-- classes in definition order; class `i` is `H[i]` -/
abbrev Hier := List ClsDecl

def effMedia (H : Hier) (i : Nat) : Option MediaDecl :=
  match H[i]? with
  | none => none
  | some c =>
    match c.eff with
    | none => none
    | some m =>
      match H[m]? with
      | none => none
      | some d => d.own

def basesOf (H : Hier) (i : Nat) : List Nat :=
  match H[i]? with
  | none => []
  | some c => c.bases

/-- `media_js = getattr(media_input, "js", [])`, `media_css = …` -/
def ownFiles (H : Hier) (i : Nat) : List File :=
  match effMedia H i with
  | none => []
  | some md => md.files

/-- the `bases` the loop merges in -/
def selected (H : Hier) (i : Nat) : List Nat :=
  match effMedia H i with
  | none => basesOf H i
  | some md =>
    match md.extend with
    | .all => basesOf H i
    | .none => []
    | .only ids => ids

def dedup : List File → List File
  | [] => []
  | f :: fs => if f ∈ dedup fs then dedup fs else f :: dedup fs

/-- `media + base_media` (set union without duplicates; order is a parameter) -/
def merge (a b : List File) : List File := a ++ b.filter (fun f => !decide (f ∈ a))

structure St where
  stack : List Nat
  cache : List (Nat × List File)     -- `media_cache`
deriving Repr, DecidableEq

/-- one iteration of `while bases_stack:` -/
def stepSt (H : Hier) (st : St) : St :=
  match st.stack with
  | [] => st
  | c :: rest =>
    if ahas c st.cache then { st with stack := rest }
    else
      let unresolved := (selected H c).filter (fun b => !ahas b st.cache)
      if unresolved.isEmpty then
        let media := (selected H c).foldl
          (fun m b => match alookup b st.cache with
                      | some bm => merge m bm
                      | none => m)
          (dedup (ownFiles H c))
        { stack := rest, cache := aset c media st.cache }
      else { st with stack := unresolved ++ c :: rest }

def iter (H : Hier) : Nat → St → St
  | 0, st => st
  | n + 1, st => iter H n (stepSt H st)

/-- `cls.media` with the given cache, with `fuel` iterations allowed -/
def getMedia (H : Hier) (fuel : Nat) (cache : List (Nat × List File)) (i : Nat) :
    Option (List File) × List (Nat × List File) :=
  let st := iter H fuel { stack := [i], cache := cache }
  if st.stack.isEmpty then (alookup i st.cache, st.cache) else (none, st.cache)

/-! ### `_get_comp_cls_attr` -/

/-- what a class body declares for one inlined/file pair -/
structure PairDecl where
  inline : Option Str
  file   : Option Str
deriving Repr, DecidableEq

/-- walk the MRO; the first class that defines either member decides (the requested member may be
`None` there); `wantFile` selects which member is asked for. -/
def attrLookup (mro : List PairDecl) (wantFile : Bool) : Option Str :=
  match mro.find? (fun p => p.inline.isSome || p.file.isSome) with
  | none => none
  | some p => if wantFile then p.file else p.inline

/-- `ComponentMedia.__post_init__` -/
def pairRejected (p : PairDecl) : Bool := p.inline.isSome && p.file.isSome

end Djc.Model.Media
