/-
  C10 model: Django's template composition ({% extends %}, {% block %}, {{ block.super }},
  {% include %}) resolved by hand.

  mirrors django.template.loader_tags: ExtendsNode.render (the child's block nodes, at any depth, are
  added to the block context behind those of templates further down the chain; then the parent is
  rendered), BlockNode.render (the first block of the chain is rendered, `block.super` renders the
  next one, in the current context), IncludeNode.render (the included template is rendered with the
  current context and a fresh block context), and what django-components adds to it: nothing — a
  page or component template written as a family must render like `flatten` of the family.
-/
import Djc.Model.Tpl
namespace Djc.Blocks
open Djc.Tpl

abbrev Family := List (Str × List Node)
/-- block name ↦ the chain of definitions, child-most first -/
abbrev Overrides := List (Str × List (List Node))

def famGet (fam : Family) (n : Str) : Option (List Node) := (fam.find? (fun kv => kv.1 = n)).map (·.2)

def ovGet (ov : Overrides) (n : Str) : List (List Node) := ((ov.find? (fun kv => kv.1 = n)).map (·.2)).getD []

/-- a definition further up the chain goes behind the ones already known -/
def ovAppend (ov : Overrides) (n : Str) (body : List Node) : Overrides :=
  if ov.any (fun kv => kv.1 = n) then ov.map (fun kv => if kv.1 = n then (kv.1, kv.2 ++ [body]) else kv)
  else ov ++ [(n, [body])]

mutual
  /-- `nodelist.get_nodes_by_type(BlockNode)`: block nodes at any depth -/
  def collectBlocks : Nat → List Node → List (Str × List Node)
    | 0, _ => []
    | _ + 1, [] => []
    | n + 1, nd :: rest => collectNode n nd ++ collectBlocks n rest
  def collectNode : Nat → Node → List (Str × List Node)
    | 0, _ => []
    | n + 1, nd =>
      match nd with
      | .block name body => (name, body) :: collectBlocks n body
      | .ifn _ a b => collectBlocks n a ++ collectBlocks n b
      | .forn _ _ body => collectBlocks n body
      | .withn _ _ body => collectBlocks n body
      | .elem _ body => collectBlocks n body
      | .slot _ _ _ _ body => collectBlocks n body
      | .fill _ _ _ body => collectBlocks n body
      | .comp _ _ _ _ body => collectBlocks n body
      | .provide _ _ body => collectBlocks n body
      | _ => []
end

mutual
  /-- `{{ block.super }}` := the given nodes; nested blocks keep their own `block.super` -/
  def substSuper : Nat → List Node → List Node → List Node
    | 0, _, nodes => nodes
    | _ + 1, _, [] => []
    | n + 1, sup, nd :: rest => substNode n sup nd ++ substSuper n sup rest
  def substNode : Nat → List Node → Node → List Node
    | 0, _, nd => [nd]
    | n + 1, sup, nd =>
      match nd with
      | .blockSuper => sup
      | .ifn c a b => [.ifn c (substSuper n sup a) (substSuper n sup b)]
      | .forn x e body => [.forn x e (substSuper n sup body)]
      | .withn x e body => [.withn x e (substSuper n sup body)]
      | .elem t body => [.elem t (substSuper n sup body)]
      | .slot a b c d body => [.slot a b c d (substSuper n sup body)]
      | .fill a b c body => [.fill a b c (substSuper n sup body)]
      | .comp a b c d body => [.comp a b c d (substSuper n sup body)]
      | .provide a b body => [.provide a b (substSuper n sup body)]
      | other => [other]
end

/-- the content of a block given its chain of definitions -/
def expandChain (fuel : Nat) : List (List Node) → List Node
  | [] => []
  | b :: rest => substSuper fuel (expandChain fuel rest) b

def headExtends : List Node → Option Str
  | .extends p :: _ => some p
  | _ => none

mutual
  def flattenNodes (fam : Family) : Nat → Overrides → List Node → List Node
    | 0, _, nodes => nodes
    | _ + 1, _, [] => []
    | n + 1, ov, nd :: rest => flattenNode fam n ov nd ++ flattenNodes fam n ov rest
  def flattenNode (fam : Family) : Nat → Overrides → Node → List Node
    | 0, _, nd => [nd]
    | n + 1, ov, nd =>
      match nd with
      | .block name body => flattenNodes fam n ov (expandChain n (ovGet ov name ++ [body]))
      | .blockSuper => []
      | .extends _ => []
      | .includen name => flattenTpl fam n name []
      | .ifn c a b => [.ifn c (flattenNodes fam n ov a) (flattenNodes fam n ov b)]
      | .forn x e body => [.forn x e (flattenNodes fam n ov body)]
      | .withn x e body => [.withn x e (flattenNodes fam n ov body)]
      | .elem t body => [.elem t (flattenNodes fam n ov body)]
      | .slot a b c d body => [.slot a b c d (flattenNodes fam n ov body)]
      | .fill a b c body => [.fill a b c (flattenNodes fam n ov body)]
      | .comp a b c d body => [.comp a b c d (flattenNodes fam n ov body)]
      | .provide a b body => [.provide a b (flattenNodes fam n ov body)]
      | other => [other]
  /-- the template `name` of the family with inheritance and inclusion resolved -/
  def flattenTpl (fam : Family) : Nat → Str → Overrides → List Node
    | 0, _, _ => []
    | n + 1, name, ov =>
      match famGet fam name with
      | none => []
      | some t =>
        match headExtends t with
        | some p => flattenTpl fam n p ((collectBlocks n t).foldl (fun o kv => ovAppend o kv.1 kv.2) ov)
        | none => flattenNodes fam n ov t
end

/-- `_template_render`: the value passed as `isolated_context` to `push_state`, from the optional
attribute `_djc_is_component_nested` -/
def isolatedContext (nestedAttr : Option Bool) : Bool :=
  match nestedAttr with
  | none => true
  | some nested => !nested

end Djc.Blocks
