/-
  Model of `django_components/util/cache.py` (class `LRUCache`) at the level of
  "list of (key, value) pairs, most recently used first".

  mirrors, branch for branch:
    LRUCache.get   : hit  -> move node to front, return value ; miss -> None
    LRUCache.has   : membership, no reordering
    LRUCache.set   : maxsize <= 0 -> no-op
                     key present -> update value, move to front
                     key absent  -> if len >= maxsize: drop tail.prev ; push front
    LRUCache.clear : empty
  No imports: this file is linked into the driver executable.
-/
namespace Djc.Model.Lru

structure Lru (κ ν : Type) where
  cap   : Option Nat            -- `maxsize`; `none` = unbounded; (negative sizes behave as 0)
  items : List (κ × ν)          -- most recently used first
deriving Repr

inductive Op (κ ν : Type) where
  | get (k : κ)
  | has (k : κ)
  | set (k : κ) (v : ν)
  | clear
deriving Repr

inductive Out (ν : Type) where
  | val (v : Option ν)   -- result of get
  | bool (b : Bool)      -- result of has
  | unit                 -- set / clear
deriving Repr, DecidableEq

variable {κ ν : Type} [DecidableEq κ]

def lookup (k : κ) : List (κ × ν) → Option ν
  | [] => none
  | (k', v) :: xs => if k' = k then some v else lookup k xs

def erase (k : κ) (xs : List (κ × ν)) : List (κ × ν) :=
  xs.filter (fun p => !decide (p.1 = k))

def keys (xs : List (κ × ν)) : List κ := xs.map Prod.fst

def empty (cap : Option Nat) : Lru κ ν := { cap := cap, items := [] }

/-- `len(self.cache) >= self.maxsize` with `maxsize is not None`. -/
def isFull (c : Lru κ ν) : Bool :=
  match c.cap with
  | none => false
  | some n => decide (n ≤ c.items.length)

/-- `self.maxsize is not None and self.maxsize <= 0`. -/
def isDisabled (c : Lru κ ν) : Bool :=
  match c.cap with
  | none => false
  | some n => decide (n = 0)

def cget (c : Lru κ ν) (k : κ) : Lru κ ν × Option ν :=
  match lookup k c.items with
  | some v => ({ c with items := (k, v) :: erase k c.items }, some v)
  | none => (c, none)

def chas (c : Lru κ ν) (k : κ) : Bool := (lookup k c.items).isSome

def cset (c : Lru κ ν) (k : κ) (v : ν) : Lru κ ν :=
  if isDisabled c then c
  else if (lookup k c.items).isSome then
    { c with items := (k, v) :: erase k c.items }
  else if isFull c then
    { c with items := (k, v) :: c.items.dropLast }
  else
    { c with items := (k, v) :: c.items }

def cclear (c : Lru κ ν) : Lru κ ν := { c with items := [] }

def step (c : Lru κ ν) : Op κ ν → Lru κ ν × Out ν
  | .get k => let r := cget c k; (r.1, .val r.2)
  | .has k => (c, .bool (chas c k))
  | .set k v => (cset c k v, .unit)
  | .clear => (cclear c, .unit)

/-- State after a history. -/
def run (c : Lru κ ν) (h : List (Op κ ν)) : Lru κ ν :=
  h.foldl (fun s op => (step s op).1) c

/-- Outputs of a history, in order. -/
def outs (c : Lru κ ν) : List (Op κ ν) → List (Out ν)
  | [] => []
  | op :: h => (step c op).2 :: outs (step c op).1 h

/-! ### `cached_template` (template.py) over the cache

`compile` stands for `template_cls(template_string, …)`: a fresh object (identity = the
counter value at creation) whose observable content is a function of the key. -/

structure Tmpl (κ : Type) where
  ident : Nat
  key   : κ
deriving Repr, DecidableEq

structure TState (κ : Type) where
  cache : Lru κ (Tmpl κ)
  next  : Nat

def cachedTemplate (s : TState κ) (k : κ) : TState κ × Tmpl κ :=
  match cget s.cache k with
  | (c', some t) => ({ s with cache := c' }, t)
  | (c', none) =>
    let t : Tmpl κ := { ident := s.next, key := k }
    ({ cache := cset c' k t, next := s.next + 1 }, t)

def tRun (s : TState κ) : List κ → TState κ × List (Tmpl κ)
  | [] => (s, [])
  | k :: ks =>
    let r := cachedTemplate s k
    let rest := tRun r.1 ks
    (rest.1, r.2 :: rest.2)

end Djc.Model.Lru
