/-
  C02 model: from the parsed arguments of a tag to the positional / keyword values its Python
  receiver gets.

  mirrors:
    util/tag_parser.py  TagValuePart.serialize, TagValue.serialize / compile (spread prefix stripped),
                        TagValueStruct.resolve (list / dict literals, `*` / `**` splices, pair logic)
    util/template_tag.py resolve_params (top-level `...` spreads), _extract_flags, the self-closing `/`
    expression.py       is_aggregate_key, _check_kwargs_for_agg_conflict, process_aggregate_kwargs
  Leaf evaluation (a Django filter expression, or a nested-template string, on a Context) is a
  *parameter*: `leaf text` is looked up in a table the harness fills by evaluating each distinct
  leaf with stock Django (`FilterExpression(text, parser).resolve(context)`).
-/
import Djc.Model.TagParser
namespace Djc.Model.Resolve
open Djc.Model.TagParser

/-- Python values as far as the tag machinery looks into them -/
inductive PV where
  | atom (repr : Str)                  -- int / bool / None / any other object, by canonical repr
  | str (s : Str)
  | list (xs : List PV)
  | dict (kvs : List (PV × PV))        -- insertion ordered
deriving Repr

inductive RErr where
  | tse (site : String)                -- TemplateSyntaxError
  | value (site : String)              -- ValueError (resolve_params)
  | type (site : String)               -- TypeError raised by Python itself (e.g. list.extend(5))
  | leaf                               -- evaluating a leaf raised (whatever stock Django raises)
deriving Repr, DecidableEq

def serializePart (dropSpread : Bool) (p : Part) : Str :=
  let q : Str := match p.quoted with | some c => [c] | none => []
  let v := q ++ p.value ++ q
  let v := if p.translation then "_(".toList ++ v ++ [')']
           else match p.spread with
             | some sp => if dropSpread then v else sp ++ v
             | none => v
  match p.filter with
  | some f => f :: v
  | none => v

/-- `TagValue.serialize()`; with `dropSpread` the text handed to the filter-expression compiler -/
def serializeParts (dropSpread : Bool) (parts : List Part) : Str :=
  (parts.map (serializePart dropSpread)).flatten

/-- dict semantics of `d[k] = v` on an association list, keys compared by a decidable check the
caller supplies (structural equality of the canonical form) -/
def dictSet (eq : PV → PV → Bool) (k v : PV) : List (PV × PV) → List (PV × PV)
  | [] => [(k, v)]
  | (k', v') :: rest => if eq k' k then (k', v) :: rest else (k', v') :: dictSet eq k v rest

def dictUpdate (eq : PV → PV → Bool) (d : List (PV × PV)) (other : List (PV × PV)) : List (PV × PV) :=
  other.foldl (fun acc kv => dictSet eq kv.1 kv.2 acc) d

/-- what `list.extend(x)` / iteration yields -/
def iterate : PV → Option (List PV)
  | .list xs => some xs
  | .dict kvs => some (kvs.map Prod.fst)
  | .str s => some (s.map (fun c => PV.str [c]))
  | .atom _ => none

/-- what one entry contributes to a list literal, given its resolved value -/
def listEntry (e : Val) (r : PV) : Except RErr (List PV) :=
  match e with
  | .struct k sp _ =>
    if sp.isSome then
      if k ≠ .list then .error (.tse "cannot spread non-list value into a list")
      else match r with
        | .list xs => .ok xs
        | _ => .ok [r]
    else .ok [r]
  | .value parts =>
    if firstSpreadOf parts then
      match iterate r with
      | some xs => .ok xs
      | none => .error (.type "object is not iterable")
    else .ok [r]

mutual
  /-- `TagValue.resolve` / `TagValueStruct.resolve` -/
  def resolveVal (eq : PV → PV → Bool) (leaf : Str → Option PV) : Val → Except RErr PV
    | .value parts =>
      match leaf (serializeParts true parts) with
      | some v => .ok v
      | none => .error .leaf
    | .struct .simple _ es =>
      match es with
      | e :: _ =>
        match e with
        | .value parts =>
          (match leaf (serializeParts true parts) with
           | some v => .ok v
           | none => .error .leaf)
        | .struct _ _ _ => .error (.tse "simple value is not a TagValue")
      | [] => .error (.tse "empty simple value")
    | .struct .list _ es => (resolveList eq leaf es).map PV.list
    | .struct .dict _ es => (resolveDict eq leaf es [] none).map PV.dict

  def resolveList (eq : PV → PV → Bool) (leaf : Str → Option PV) : List Val → Except RErr (List PV)
    | [] => .ok []
    | e :: es =>
      match resolveVal eq leaf e with
      | .error err => .error err
      | .ok r =>
        match listEntry e r with
        | .error err => .error err
        | .ok xs =>
          match resolveList eq leaf es with
          | .error err => .error err
          | .ok rest => .ok (xs ++ rest)

  /-- `pending` = a resolved key waiting for its value -/
  def resolveDict (eq : PV → PV → Bool) (leaf : Str → Option PV) :
      List Val → List (PV × PV) → Option PV → Except RErr (List (PV × PV))
    | [], acc, _ => .ok acc
    | e :: es, acc, pending =>
      match resolveVal eq leaf e with
      | .error err => .error err
      | .ok r =>
        let isSpread : Bool := match e with
          | .struct _ sp _ => sp.isSome
          | .value parts => firstSpreadOf parts
        if isSpread then
          if pending.isSome then .error (.tse "spread on the position of a dict value")
          else
            match r with
            | .dict kvs => resolveDict eq leaf es (dictUpdate eq acc kvs) none
            | _ => .error (.type "dict.update() argument is not a mapping")
        else
          match pending with
          | none => resolveDict eq leaf es acc (some r)
          | some k => resolveDict eq leaf es (dictSet eq k r acc) none
end

structure Param where
  key   : Option Str
  value : PV
deriving Repr

def valSpread : Val → Option Str
  | .struct _ sp _ => sp
  | .value _ => none

def strOfPV : PV → Option Str
  | .str s => some s
  | _ => none

/-- what one attribute contributes to the call, given its resolved value -/
def attrParams (a : Attr) (r : PV) : Except RErr (List Param) :=
  if (valSpread a.value).isSome then
    if (match a.key with | some k => !k.isEmpty | none => false) then .error (.value "cannot spread onto a key")
    else
      match r with
      | .dict kvs =>
        .ok (kvs.map (fun kv => { key := (match strOfPV kv.1 with | some s => some s | none => some []), value := kv.2 }))
      | other =>
        match iterate other with
        | some xs => .ok (xs.map (fun x => { key := none, value := x }))
        | none => .error (.value "cannot spread non-iterable value")
  else .ok [{ key := a.key, value := r }]

/-- `resolve_params` up to (not including) the aggregate step -/
def resolveAttrs (eq : PV → PV → Bool) (leaf : Str → Option PV) : List Attr → Except RErr (List Param)
  | [] => .ok []
  | a :: as =>
    match resolveVal eq leaf a.value with
    | .error e => .error e
    | .ok r =>
      match attrParams a r with
      | .error e => .error e
      | .ok ps =>
        match resolveAttrs eq leaf as with
        | .error e => .error e
        | .ok rest => .ok (ps ++ rest)

def isAggregateKey (k : Str) : Bool := k.contains ':' && !(k.head? == some ':')

def splitFirstColon : Str → Str × Str
  | [] => ([], [])
  | c :: cs => if c = ':' then ([], cs) else let r := splitFirstColon cs; (c :: r.1, r.2)

/-- `_check_kwargs_for_agg_conflict` -/
def aggConflict : List Param → List Str → List Str → Bool
  | [], _, _ => false
  | p :: ps, regs, aggs =>
    match p.key with
    | none => aggConflict ps regs aggs
    | some k =>
      if isAggregateKey k then
        if regs.contains k then true else aggConflict ps regs (k :: aggs)
      else
        if aggs.contains k then true else aggConflict ps (k :: regs) aggs

def strEq (a b : Str) : Bool := a == b

def isPlainParam (p : Param) : Bool :=
  match p.key with
  | some k => !isAggregateKey k
  | none => true

def strKeyEq (a b : PV) : Bool :=
  match a, b with
  | .str x, .str y => x == y
  | _, _ => false

/-- one aggregate keyword `outer:inner=value` added to `nested_kwargs` (outer keys in order of first
appearance, inner keys with dict semantics) -/
def aggStep (acc : List (Str × List (PV × PV))) (p : Param) : List (Str × List (PV × PV)) :=
  match p.key with
  | some k =>
    if isAggregateKey k then
      let oi := splitFirstColon k
      if acc.any (fun e => e.1 == oi.1) then
        acc.map (fun e => if e.1 == oi.1 then (e.1, dictSet strKeyEq (.str oi.2) p.value e.2) else e)
      else acc ++ [(oi.1, dictSet strKeyEq (.str oi.2) p.value [])]
    else acc
  | none => acc

def aggNested (ps : List Param) : List (Str × List (PV × PV)) := ps.foldl aggStep []

/-- `process_aggregate_kwargs` -/
def processAggregate (ps : List Param) : Except RErr (List Param) :=
  if aggConflict ps [] [] then .error (.tse "regular and aggregate key conflict")
  else
    let plain := ps.filter isPlainParam
    let seen := plain.filterMap (fun p => p.key)
    let nested := aggNested ps
    if nested.any (fun e => seen.contains e.1) then .error (.tse "regular and aggregate key conflict")
    else .ok (plain ++ nested.map (fun e => { key := some e.1, value := .dict e.2 }))

end Djc.Model.Resolve

namespace Djc.Model.Resolve
open Djc.Model.TagParser

/-- `TagValueStruct.serialize()` for the cases needed to recognise flags and the self-closing `/` -/
def serializeSimple : Val → Option Str
  | .value parts => some (serializeParts false parts)
  | .struct .simple _ (e :: _) =>
    (match e with
     | .value parts => some (serializeParts false parts)
     | _ => none)
  | _ => none

/-- `_extract_flags`: returns the remaining attributes and the flags found -/
def extractFlags (allowed : List Str) : List Attr → List Str → Except RErr (List Attr × List Str)
  | [], found => .ok ([], found)
  | a :: as, found =>
    match serializeSimple a.value with
    | some v =>
      if allowed.contains v then
        if (valSpread a.value).isSome then .error (.tse "flag cannot be spread")
        else if found.contains v then .error (.tse "flag given twice")
        else extractFlags allowed as (found ++ [v])
      else
        (match extractFlags allowed as found with
         | .error e => .error e
         | .ok (rest, f) => .ok (a :: rest, f))
    | none =>
      (match extractFlags allowed as found with
       | .error e => .error e
       | .ok (rest, f) => .ok (a :: rest, f))

/-- everything between `parse_tag` and the call of the Python receiver -/
def resolveTag (eq : PV → PV → Bool) (leaf : Str → Option PV) (allowedFlags : List Str)
    (attrs : List Attr) : Except RErr (List Param × List Str) :=
  -- the first attribute is the tag name; a trailing `/` marks a self-closing tag
  let body := attrs.drop 1
  let body := match body.getLast? with
    | some l => if serializeSimple l.value = some ['/'] ∧ l.key.isNone then body.dropLast else body
    | none => body
  match extractFlags allowedFlags body [] with
  | .error e => .error e
  | .ok (rest, flags) =>
    match resolveAttrs eq leaf rest with
    | .error e => .error e
    | .ok ps =>
      match processAggregate ps with
      | .error e => .error e
      | .ok ps' => .ok (ps', flags)

end Djc.Model.Resolve
