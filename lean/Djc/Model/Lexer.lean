/-
  C09 model: the token stream the patched `Template` compiles from.

  mirrors:
    django.template.base  tag_re (`({%.*?%}|{{.*?}}|{#.*?#})`, DOTALL iff COMPONENTS.multiline_tags —
                          the flag is extracted on every run), DebugLexer.tokenize, Lexer.create_token
                          (incl. the verbatim state)                              -> `stockLex`
    util/template_parser.py parse_template (restart loop, with the two `fix:` commits)
                          and _detailed_tag_parser / _compile_take_until_pattern   -> `parseTemplate`
  Python's `re` is replaced by the hand-written scanners `findTag`, `findCloser`, `scanStr`.
-/
import Djc.Base.Except
namespace Djc.Model.Lexer

abbrev Str := List Char

inductive TokType where
  | text | var | block | comment
deriving Repr, DecidableEq

structure Tok where
  typ      : TokType
  contents : Str
  start    : Nat
  stop     : Nat
  lineno   : Nat
deriving Repr, DecidableEq

/-- `str.isspace` -/
def pySpace (c : Char) : Bool :=
  c == ' ' || c == '\t' || c == '\n' || c == '\r' || c == '\x0b' || c == '\x0c' ||
  (0x1c ≤ c.toNat && c.toNat ≤ 0x1f) || c.toNat == 0x85 || c.toNat == 0xa0 ||
  c.toNat == 0x1680 || (0x2000 ≤ c.toNat && c.toNat ≤ 0x200a) || c.toNat == 0x2028 ||
  c.toNat == 0x2029 || c.toNat == 0x202f || c.toNat == 0x205f || c.toNat == 0x3000

/-- `str.strip()` -/
def strip (s : Str) : Str := ((s.dropWhile pySpace).reverse.dropWhile pySpace).reverse

def countNl (s : Str) : Nat := s.count '\n'

/-- closing delimiter for a tag that starts with `{` + the given character -/
def closerOf (c : Char) : Option (Char × Char) :=
  if c = '%' then some ('%', '}') else if c = '{' then some ('}', '}') else if c = '#' then some ('#', '}')
  else none

/-- offset of the first occurrence of the two-character closer; without DOTALL `.` stops at a
newline -/
def findCloser (dotall : Bool) (c1 c2 : Char) : Str → Option Nat
  | [] => none
  | a :: rest =>
    if a = c1 ∧ rest.head? = some c2 then some 0
    else if !dotall && a == '\n' then none
    else (findCloser dotall c1 c2 rest).map (· + 1)

/-- leftmost match of `tag_re`: (offset of the `{`, length of the match) -/
def findTag (dotall : Bool) : Str → Option (Nat × Nat)
  | [] => none
  | a :: rest =>
    let here : Option Nat :=
      if a = '{' then
        match rest with
        | c :: body =>
          match closerOf c with
          | some (c1, c2) => (findCloser dotall c1 c2 body).map (· + 4)
          | none => none
        | [] => none
      else none
    match here with
    | some len => some (0, len)
    | none => (findTag dotall rest).map (fun p => (p.1 + 1, p.2))

/-- `Lexer.create_token` for a piece that matched `tag_re`; returns the token and the new verbatim
state -/
def mkTagTok (verb : Option Str) (tag : Str) (start lineno : Nat) : Tok × Option Str :=
  let inner := strip ((tag.drop 2).dropLast.dropLast)
  let stop := start + tag.length
  match tag with
  | '{' :: '%' :: _ =>
    match verb with
    | some v =>
      if inner ≠ v then ({ typ := .text, contents := tag, start, stop, lineno }, verb)
      else ({ typ := .block, contents := inner, start, stop, lineno }, none)
    | none =>
      let v' : Option Str :=
        if inner.take 9 = "verbatim".toList ∨ inner.take 9 = "verbatim ".toList
        then some ("end".toList ++ inner) else none
      ({ typ := .block, contents := inner, start, stop, lineno }, v')
  | '{' :: '{' :: _ =>
    if verb.isSome then ({ typ := .text, contents := tag, start, stop, lineno }, verb)
    else ({ typ := .var, contents := inner, start, stop, lineno }, verb)
  | _ =>
    if verb.isSome then ({ typ := .text, contents := tag, start, stop, lineno }, verb)
    else ({ typ := .comment, contents := inner, start, stop, lineno }, verb)

/-- `DebugLexer.tokenize` on `s`, whose first character sits at absolute position `pos` on line
`lineno`; `fuel` bounds the number of tags. -/
def stockGo (dotall : Bool) : Nat → Str → Nat → Nat → Option Str → List Tok
  | 0, _, _, _, _ => []
  | fuel + 1, s, pos, lineno, verb =>
    if s.isEmpty then []
    else
      match findTag dotall s with
      | none => [{ typ := .text, contents := s, start := pos, stop := pos + s.length, lineno }]
      | some (a, len) =>
        let pre := s.take a
        let tag := (s.drop a).take len
        let rest := s.drop (a + len)
        let t1 : List Tok :=
          if pre.isEmpty then []
          else [{ typ := .text, contents := pre, start := pos, stop := pos + a, lineno }]
        let ln1 := lineno + countNl pre
        let r := mkTagTok verb tag (pos + a) ln1
        t1 ++ r.1 :: stockGo dotall fuel rest (pos + a + len) (ln1 + countNl tag) r.2

def stockLex (dotall : Bool) (s : Str) : List Tok := stockGo dotall (s.length + 1) s 0 1 none

/-! ### the quote-aware tag scanner -/

inductive Err where
  | unterminatedString
  | unterminatedTag
deriving Repr, DecidableEq

/-- `(?:\\.|[^q])*` : (matched text, rest).  `esc` = the previous character was a backslash:
the next character is consumed whatever it is (as the `.` of `\\.` when it is not a newline, as
`[^q]` when it is one). -/
def scanStrAux (q : Char) : Bool → Str → Str × Str
  | _, [] => ([], [])
  | true, c :: rest =>
    let r := scanStrAux q false rest
    (c :: r.1, r.2)
  | false, a :: rest =>
    if a = '\\' then
      let r := scanStrAux q true rest
      (a :: r.1, r.2)
    else if a = q then ([], a :: rest)
    else
      let r := scanStrAux q false rest
      (a :: r.1, r.2)

def scanStr (q : Char) (s : Str) : Str × Str := scanStrAux q false s

def isPlain (c : Char) : Bool := !(c == '\'' || c == '"' || c == '%')

/-- main loop of `_detailed_tag_parser` after the leading `{%`: returns the raw contents and the
number of characters consumed (including the closing `%}`) -/
def detailedGo : Nat → Str → Str → Nat → Except Err (Str × Nat)
  | 0, _, _, _ => .error .unterminatedTag
  | _ + 1, [], _, _ => .error .unterminatedTag
  | fuel + 1, c :: cs, content, used =>
    if c = '\'' ∨ c = '"' then
      let r := scanStr c cs
      if r.2.head? = some c then
        detailedGo fuel r.2.tail (content ++ c :: r.1 ++ [c]) (used + 1 + r.1.length + 1)
      else .error .unterminatedString
    else if c = '%' then
      if cs.head? = some '}' then .ok (content, used + 2)
      else detailedGo fuel cs (content ++ ['%']) (used + 1)
    else
      let run := (c :: cs).takeWhile isPlain
      detailedGo fuel ((c :: cs).dropWhile isPlain) (content ++ run) (used + run.length)

/-- `_detailed_tag_parser(text, lineno, start_index)`; `text` starts with `{%` -/
def detailed (text : Str) (lineno start : Nat) : Except Err Tok :=
  match detailedGo (text.length + 1) (text.drop 2) [] 2 with
  | .error e => .error e
  | .ok (content, used) =>
    .ok { typ := .block, contents := strip content, start := start, stop := start + used, lineno }

def hasQuote (s : Str) : Bool := s.contains '\'' || s.contains '"'

def isBroken (t : Tok) : Bool := t.typ == .block && hasQuote t.contents

/-- `parse_template`: restart loop -/
def parseGo (dotall : Bool) : Nat → Str → Nat → Except Err (List Tok)
  | 0, _, _ => .ok []
  | fuel + 1, text, istart =>
    if text.length ≤ istart then .ok []
    else
      let suffix := text.drop istart
      let toks := stockGo dotall (suffix.length + 1) suffix istart (1 + countNl (text.take istart)) none
      let good := toks.takeWhile (fun t => !isBroken t)
      match toks.dropWhile (fun t => !isBroken t) with
      | [] => .ok good
      | b :: _ =>
        match detailed (text.drop b.start) b.lineno b.start with
        | .error e => .error e
        | .ok fixed =>
          match parseGo dotall fuel text fixed.stop with
          | .error e => .error e
          | .ok more => .ok (good ++ fixed :: more)

def parseTemplate (dotall : Bool) (text : Str) : Except Err (List Tok) :=
  parseGo dotall (text.length + 1) text 0

end Djc.Model.Lexer
