/-
  C11 model: how a django-components tag turns its resolved arguments into a Python call.

  mirrors:
    node.py  NodeMeta.wrapper_render   : split off keyword names that are not identifiers
                                          (`invalid_kwargs`, a dict), SyntaxError for a positional
                                          after such a keyword
    util/template_tag.py validate_params, _validate_params_with_code (path = code),
                          _validate_params_with_signature (path = sig)
    and the final `orig_render(self, context, *args, **kwargs)`, which is a real Python call
    (`pyCall` below applied to the validated args / kwargs).

  `pyCall` is CPython's argument binding written from the language reference (the spec); it is
  tied to the real interpreter by the differential run, not trusted.
-/
import Djc.Base.AList
import Djc.Base.Except
namespace Djc.Model.Bind
open Djc.AList

structure Param (κ : Type) where
  name : κ
  dflt : Option Nat            -- default value, if any
deriving Repr, DecidableEq

structure Sig (κ : Type) where
  posonly : List (Param κ)
  poskw   : List (Param κ)
  varargs : Option κ           -- name of *args, if present
  kwonly  : List (Param κ)
  varkw   : Option κ           -- name of **kwargs, if present
deriving Repr

inductive Arg (κ : Type) where
  | pos (v : Nat)
  | kw (k : κ) (v : Nat)
deriving Repr, DecidableEq

inductive Err where
  | type      -- TypeError
  | syntax    -- SyntaxError ("positional argument follows keyword argument")
deriving Repr, DecidableEq

structure Binding (κ : Type) where
  params  : List (κ × Nat)     -- every named parameter with the value it received, signature order
  varargs : List Nat
  varkw   : List (κ × Nat)     -- contents of **kwargs (a dict: order is not part of the contract)
deriving Repr, DecidableEq

variable {κ : Type} [DecidableEq κ]

def Sig.posParams (s : Sig κ) : List (Param κ) := s.posonly ++ s.poskw
def Sig.np (s : Sig κ) : Nat := s.posParams.length
/-- names that may be given by keyword -/
def Sig.kwNames (s : Sig κ) : List κ := (s.poskw ++ s.kwonly).map Param.name
/-- `param_names` of the code path: all named parameters, positional first -/
def Sig.names (s : Sig κ) : List κ := (s.posonly ++ s.poskw ++ s.kwonly).map Param.name
/-- `valid_params` of the signature path: also the names of *args / **kwargs -/
def Sig.allNames (s : Sig κ) : List κ :=
  (s.posonly ++ s.poskw).map Param.name ++ s.varargs.toList ++ s.kwonly.map Param.name ++ s.varkw.toList

/-! ### the spec: Python's call binding -/

/-- positional values, keyword pairs; `none` when a positional follows a keyword. -/
def splitArgs : List (Arg κ) → Option (List Nat × List (κ × Nat))
  | [] => some ([], [])
  | .pos v :: rest =>
    match splitArgs rest with
    | some (p, k) => some (v :: p, k)
    | none => none
  | .kw k v :: rest =>
    match splitArgs rest with
    | some ([], ks) => some ([], (k, v) :: ks)
    | _ => none

/-- value of the `i`-th positional parameter -/
def posValue (s : Sig κ) (P : List Nat) (K : List (κ × Nat)) (i : Nat) (p : Param κ) : Option Nat :=
  match P[i]? with
  | some v => some v
  | none =>
    match (if s.posonly.length ≤ i then alookup p.name K else none) with
    | some v => some v
    | none => p.dflt

def kwValue (K : List (κ × Nat)) (p : Param κ) : Option Nat :=
  match alookup p.name K with
  | some v => some v
  | none => p.dflt

def allSome : List (Option α) → Option (List α)
  | [] => some []
  | none :: _ => none
  | some x :: xs => (allSome xs).map (x :: ·)

def pyBind (s : Sig κ) (P : List Nat) (K : List (κ × Nat)) : Except Err (Binding κ) :=
  if ¬ (akeys K).Nodup then .error .type                                  -- keyword repeated
  else if s.varargs.isNone ∧ s.np < P.length then .error .type            -- too many positionals
  else if K.any (fun e => decide (e.1 ∈ (s.posParams.take P.length).map Param.name ∧ e.1 ∈ s.kwNames))
    then .error .type                                                       -- multiple values
  else if s.varkw.isNone ∧ K.any (fun e => decide (e.1 ∉ s.kwNames)) then .error .type  -- unexpected
  else
    let pv := (s.posParams.zipIdx).map (fun (p, i) => (posValue s P K i p).map (fun v => (p.name, v)))
    let kv := s.kwonly.map (fun p => (kwValue K p).map (fun v => (p.name, v)))
    match allSome (pv ++ kv) with
    | none => .error .type                                                  -- missing argument
    | some ps =>
      .ok { params := ps, varargs := P.drop s.np,
            varkw := K.filter (fun e => decide (e.1 ∉ s.kwNames)) }

def pyCall (s : Sig κ) (args : List (Arg κ)) : Except Err (Binding κ) :=
  match splitArgs args with
  | none => .error .syntax
  | some (P, K) => pyBind s P K

/-! ### the model: what the tag does -/

inductive Path where
  | code | sig
deriving Repr, DecidableEq

structure VState (κ : Type) where
  seenKw : Bool
  used   : List κ
  vargs  : List Nat
  vkw    : List (κ × Nat)
  next   : Nat

def vinit : VState κ := { seenKw := false, used := [], vargs := [], vkw := [], next := 0 }

/-- the keyword-name check of the two validators -/
def validKey (path : Path) (s : Sig κ) (k : κ) : Bool :=
  match path with
  | .code => decide (k ∈ s.names) || (s.varkw.isSome && !decide (k ∈ s.names))
  | .sig => s.varkw.isSome || decide (k ∈ s.allNames)

/-- one iteration of `for param in params:` -/
def vstep (path : Path) (s : Sig κ) (st : VState κ) : Arg κ → Except Err (VState κ)
  | .pos v =>
    if st.seenKw then .error .type
    else if s.varargs.isNone ∧ s.np ≤ st.next then .error .type
    else
      match (if st.next < s.np then s.names[st.next]? else none) with
      | some nm =>
        if nm ∈ st.used then .error .type
        else .ok { st with used := st.used ++ [nm], vargs := st.vargs ++ [v], next := st.next + 1 }
      | none => .ok { st with vargs := st.vargs ++ [v], next := st.next + 1 }
  | .kw k v =>
    if k ∈ st.used then .error .type
    else if ¬ validKey path s k then .error .type
    else .ok { st with seenKw := true, vkw := aset k v st.vkw, used := st.used ++ [k] }

def vloop (path : Path) (s : Sig κ) (st : VState κ) : List (Arg κ) → Except Err (VState κ)
  | [] => .ok st
  | a :: as =>
    match vstep path s st a with
    | .error e => .error e
    | .ok st' => vloop path s st' as

/-- `validated_kwargs.update(extra_kwargs)` -/
def updateAll (d : List (κ × Nat)) : List (κ × Nat) → List (κ × Nat)
  | [] => d
  | (k, v) :: rest => updateAll (aset k v d) rest

/-- the "missing / defaults" loop; positional parameters first (index < np), then keyword-only -/
def defaultsLoop (s : Sig κ) (used : List κ) (nargs : Nat) :
    List (Param κ × Nat) → List (κ × Nat) → Except Err (List (κ × Nat))
  | [], vkw => .ok vkw
  | (p, i) :: rest, vkw =>
    if p.name ∈ used ∨ ahas p.name vkw then defaultsLoop s used nargs rest vkw
    else if i < s.np then
      match p.dflt with
      | none => .error .type
      | some d =>
        if nargs ≤ i then defaultsLoop s used nargs rest (aset p.name d vkw)
        else defaultsLoop s used nargs rest vkw
    else
      match p.dflt with
      | none => .error .type
      | some d => defaultsLoop s used nargs rest (aset p.name d vkw)

def validate (path : Path) (s : Sig κ) (params : List (Arg κ)) (extra : List (κ × Nat)) :
    Except Err (List Nat × List (κ × Nat)) :=
  match vloop path s vinit params with
  | .error e => .error e
  | .ok st =>
    if ¬ extra.isEmpty ∧ s.varkw.isNone then .error .type
    else
      let vkw := updateAll st.vkw extra
      match defaultsLoop s st.used st.vargs.length ((s.posonly ++ s.poskw ++ s.kwonly).zipIdx) vkw with
      | .error e => .error e
      | .ok vkw' => .ok (st.vargs, vkw')

structure Split (κ : Type) where
  keep    : List (Arg κ)
  invalid : List (κ × Nat)
  seenSpecial : Bool

/-- `wrapper_render`: keyword names that are not identifiers go to `invalid_kwargs`. -/
def splitSpecial (special : κ → Bool) : Split κ → List (Arg κ) → Except Err (Split κ)
  | st, [] => .ok st
  | st, .kw k v :: rest =>
    if special k then
      splitSpecial special { st with invalid := aset k v st.invalid, seenSpecial := true } rest
    else splitSpecial special { st with keep := st.keep ++ [.kw k v] } rest
  | st, .pos v :: rest =>
    if st.seenSpecial then .error .syntax
    else splitSpecial special { st with keep := st.keep ++ [.pos v] } rest

def tagCall (path : Path) (special : κ → Bool) (s : Sig κ) (args : List (Arg κ)) :
    Except Err (Binding κ) :=
  match splitSpecial special { keep := [], invalid := [], seenSpecial := false } args with
  | .error e => .error e
  | .ok sp =>
    match validate path s sp.keep sp.invalid with
    | .error e => .error e
    | .ok (vargs, vkw) => pyBind s vargs vkw        -- orig_render(self, context, *args, **kwargs)

end Djc.Model.Bind
