/-
  Spec-side notions for C11: when do two call outcomes count as the same, which signatures are
  well formed, and the hypothesis `H` under which the equivalence is claimed on the current tree.
-/
import Djc.Model.Bind
namespace Djc.Spec.Bind
open Djc.AList Djc.Model.Bind

variable {κ : Type} [DecidableEq κ]

/-- Same binding: named parameters and *args equal, **kwargs equal as dictionaries. -/
def sameBinding (a b : Binding κ) : Bool :=
  decide (a.params = b.params) && decide (a.varargs = b.varargs) && a.varkw.isPerm b.varkw

/-- Same outcome in the sense of the property: both accept with the same binding, or both reject
(the error class is constrained separately). -/
def agree : Except Err (Binding κ) → Except Err (Binding κ) → Bool
  | .ok a, .ok b => sameBinding a b
  | .error _, .error _ => true
  | _, _ => false

def rejects (r : Except Err (Binding κ)) : Bool :=
  match r with
  | .error _ => true
  | .ok _ => false

/-- Well-formed signature: all parameter names (including those of *args / **kwargs) distinct, and
none of them a "special" (non-identifier / keyword) name. Python enforces both. -/
def WF (special : κ → Bool) (s : Sig κ) : Prop :=
  s.allNames.Nodup ∧ ∀ n ∈ s.allNames, special n = false

def hasSpecialKw (special : κ → Bool) : List (Arg κ) → Bool
  | [] => false
  | .kw k _ :: rest => special k || hasSpecialKw special rest
  | .pos _ :: rest => hasSpecialKw special rest

def specialKeys (special : κ → Bool) : List (Arg κ) → List κ
  | [] => []
  | .kw k _ :: rest => if special k then k :: specialKeys special rest else specialKeys special rest
  | .pos _ :: rest => specialKeys special rest

def kwKeys : List (Arg κ) → List κ
  | [] => []
  | .kw k _ :: rest => k :: kwKeys rest
  | .pos _ :: rest => kwKeys rest

/-- The hypothesis under which the tag is claimed to behave as the Python call on the current tree:
no positional-only parameters, and no non-identifier key given twice.  Its complement is exactly the
union of the two known-finding regions of C11. -/
def H (special : κ → Bool) (s : Sig κ) (args : List (Arg κ)) : Prop :=
  s.posonly = [] ∧ (specialKeys special args).Nodup

/-- The property at full strength (no hypothesis on the signature or the keys). -/
def C11_full : Prop :=
  ∀ (path : Path) (special : String → Bool) (s : Sig String) (args : List (Arg String)),
    WF special s → agree (tagCall path special s args) (pyCall s args) = true

/-- The part claimed on the current tree. -/
def C11_partial : Prop :=
  ∀ (path : Path) (special : String → Bool) (s : Sig String) (args : List (Arg String)),
    WF special s → H special s args → agree (tagCall path special s args) (pyCall s args) = true

end Djc.Spec.Bind
