/-
  Specification side of C15: a plain dictionary `name -> class` driven by the same calls, and
  the two predicates on the tag library.
-/
import Djc.Model.Registry
namespace Djc.Spec.Registry
open Djc.AList Djc.Model.Registry

variable {ν τ κ : Type} [DecidableEq ν] [DecidableEq τ] [DecidableEq κ]

/-- The reference: a plain `dict`.  `prot t` says whether tag `t` is a protected built-in
(registering a component whose tag is protected must be refused). -/
def dstep (prot : τ → Bool) (fmt : ν → τ) (d : List (ν × κ)) : Op ν κ → List (ν × κ) × Out ν κ
  | .register n c =>
    match alookup n d with
    | some c' =>
      if c' ≠ c then (d, .alreadyRegistered)
      else if prot (fmt n) then (d, .tagProtected) else (d, .ok)      -- same class: no-op
    | none => if prot (fmt n) then (d, .tagProtected) else (aset n c d, .ok)
  | .unregister n =>
    match alookup n d with
    | none => (d, .notRegistered)
    | some _ => (aerase n d, .ok)
  | .get n =>
    (d, match alookup n d with
        | none => .notRegistered
        | some c => .cls c)
  | .all => (d, .all d)
  | .clear => ([], .ok)

def drun (prot : τ → Bool) (fmt : ν → τ) (d : List (ν × κ)) : List (Op ν κ) → List (ν × κ)
  | [] => d
  | op :: ops => drun prot fmt (dstep prot fmt d op).1 ops

def douts (prot : τ → Bool) (fmt : ν → τ) (d : List (ν × κ)) : List (Op ν κ) → List (Out ν κ)
  | [] => []
  | op :: ops => (dstep prot fmt d op).2 :: douts prot fmt (dstep prot fmt d op).1 ops

/-- Some registered component uses tag `t`. -/
def Used (r : Reg ν τ κ) (t : τ) : Prop := ∃ n, n ∈ akeys r.entries ∧ r.fmt n = t

end Djc.Spec.Registry
