/-
  Spec side of C13: an HTML5 start-tag *attribute tokenizer*, written from the WHATWG
  tokenizer states "before attribute name" … "after attribute value (quoted)" (§13.2.5.32-39),
  as a character-driven state machine; character references are decoded for the five entities
  Django's `escape` emits.  It is compared with Python's `html.parser` by the correspondence run.
  Input: the text between the tag name and the closing `>` of a start tag.
-/
namespace Djc.Spec.Html

abbrev Str := List Char

def isWs (c : Char) : Bool := c == ' ' || c == '\t' || c == '\n' || c == '\x0c' || c == '\r'

def lowerAscii (c : Char) : Char := if 'A' ≤ c ∧ c ≤ 'Z' then Char.ofNat (c.toNat + 32) else c

/-- decode `&amp; &lt; &gt; &quot; &#x27;` -/
def decodeRefs : Str → Str
  | '&' :: 'a' :: 'm' :: 'p' :: ';' :: rest => '&' :: decodeRefs rest
  | '&' :: 'l' :: 't' :: ';' :: rest => '<' :: decodeRefs rest
  | '&' :: 'g' :: 't' :: ';' :: rest => '>' :: decodeRefs rest
  | '&' :: 'q' :: 'u' :: 'o' :: 't' :: ';' :: rest => '"' :: decodeRefs rest
  | '&' :: '#' :: 'x' :: '2' :: '7' :: ';' :: rest => '\'' :: decodeRefs rest
  | c :: rest => c :: decodeRefs rest
  | [] => []

inductive St where
  | beforeName
  | inName (n : Str)              -- name so far, reversed
  | afterName (n : Str)
  | beforeValue (n : Str)
  | dq (n v : Str)                -- value so far, reversed
  | sq (n v : Str)
  | uq (n v : Str)
  | afterQuoted
deriving Repr, DecidableEq

structure P where
  st  : St
  out : List (Str × Option Str)   -- emitted attributes, reversed
deriving Repr, DecidableEq

def emit (p : P) (n : Str) (v : Option Str) : List (Str × Option Str) :=
  (n.reverse, v.map (fun x => decodeRefs x.reverse)) :: p.out

def stepBeforeName (out : List (Str × Option Str)) (c : Char) : P :=
  if isWs c || c == '/' || c == '>' then { st := .beforeName, out := out }
  else { st := .inName [lowerAscii c], out := out }

def step (p : P) (c : Char) : P :=
  match p.st with
  | .beforeName => stepBeforeName p.out c
  | .inName n =>
    if isWs c then { p with st := .afterName n }
    else if c == '/' || c == '>' then { st := .beforeName, out := emit p n none }
    else if c == '=' then { p with st := .beforeValue n }
    else { p with st := .inName (lowerAscii c :: n) }
  | .afterName n =>
    if isWs c then p
    else if c == '/' || c == '>' then { st := .beforeName, out := emit p n none }
    else if c == '=' then { p with st := .beforeValue n }
    else { st := .inName [lowerAscii c], out := emit p n none }
  | .beforeValue n =>
    if isWs c then p
    else if c == '"' then { p with st := .dq n [] }
    else if c == '\'' then { p with st := .sq n [] }
    else if c == '>' then { st := .beforeName, out := emit p n (some []) }
    else { p with st := .uq n [c] }
  | .dq n v =>
    if c == '"' then { st := .afterQuoted, out := emit p n (some v) }
    else { p with st := .dq n (c :: v) }
  | .sq n v =>
    if c == '\'' then { st := .afterQuoted, out := emit p n (some v) }
    else { p with st := .sq n (c :: v) }
  | .uq n v =>
    if isWs c || c == '>' then { st := .beforeName, out := emit p n (some v) }
    else { p with st := .uq n (c :: v) }
  | .afterQuoted => stepBeforeName p.out c

/-- end of the attribute region (the `>` of the tag): flush what is pending -/
def finish (p : P) : List (Str × Option Str) :=
  (match p.st with
   | .inName n => emit p n none
   | .afterName n => emit p n none
   | .beforeValue n => emit p n (some [])
   | .dq n v => emit p n (some v)
   | .sq n v => emit p n (some v)
   | .uq n v => emit p n (some v)
   | _ => p.out).reverse

def run (p : P) (s : Str) : P := s.foldl step p

def parseAttrs (s : Str) : List (Str × Option Str) :=
  finish (run { st := .beforeName, out := [] } s)

end Djc.Spec.Html
