/-
  Denotational reading of the render-pipeline properties (C01, C03, C05, C14), written from the
  property statements, not from the code:

  * a `{% fill %}` is a lexical closure: its nodes, the environment at the fill tag, the instance
    whose template it is written in;
  * a `{% slot %}` outputs the closure addressed to it (by name, or the `default` fill for the slot
    flagged `default`), else its own default content; it always consults the fills given to the
    instance whose template contains the slot tag (for a slot written inside fill content: the
    closure's owner);
  * a component's output is inlined where its tag stands (no deferral, no registries); every
    top-level element of it carries the instance's id;
  * `inject(key)` walks the chain of enclosing providers of the rendered structure, nearest first;
    provided values never become template variables;
  * scoping: isolated mode (or `only`): the component template sees its data and `component_vars`
    only, fill content sees its lexical environment plus the slot-data / slot-default aliases;
    django mode: the component template additionally sees the surrounding variables, fill content
    sees inner-component data over bindings made between the component tag and the fill over outer
    variables.
  Instance ids are allocated in document order.
-/
import Djc.Model.Tpl
import Djc.Model.Render
namespace Djc.SpecRender
open Djc.Tpl
open Djc.Render (Err CompDef Src Env findDef isIdentifier kwGet evalKwargs isDynName isKey)

mutual
  inductive Closure where
    | mk (nodes : List Node) (dataVar : Option Str) (defaultVar : Option Str) (lex : SEnv)
         (between : Layer) (content : Option Str)
  inductive SEnv where
    | mk (vars : Ctx) (prov : List (Str × Layer)) (inst : Option Inst) (dflts : List (Nat × List Node × SEnv))
  inductive Inst where
    | mk (id : Nat) (fills : List (Str × Closure)) (dataIdx : Nat) (lexical : Bool)
end

instance : Inhabited SEnv := ⟨.mk [] [] none []⟩

def SEnv.vars : SEnv → Ctx | .mk v _ _ _ => v
def SEnv.prov : SEnv → List (Str × Layer) | .mk _ p _ _ => p
def SEnv.inst : SEnv → Option Inst | .mk _ _ i _ => i
def SEnv.dflts : SEnv → List (Nat × List Node × SEnv) | .mk _ _ _ d => d
def SEnv.withVars (e : SEnv) (v : Ctx) : SEnv := .mk v e.prov e.inst e.dflts
def SEnv.push (e : SEnv) (l : Layer) : SEnv := e.withVars (e.vars ++ [l])
def Inst.id : Inst → Nat | .mk i _ _ _ => i
def Inst.fills : Inst → List (Str × Closure) | .mk _ f _ _ => f
def Inst.dataIdx : Inst → Nat | .mk _ _ d _ => d
def Inst.lexical : Inst → Bool | .mk _ _ _ l => l
def Closure.nodes : Closure → List Node | .mk n _ _ _ _ _ => n
def Closure.dataVar : Closure → Option Str | .mk _ d _ _ _ _ => d
def Closure.defaultVar : Closure → Option Str | .mk _ _ d _ _ _ => d
def Closure.lex : Closure → SEnv | .mk _ _ _ l _ _ => l
def Closure.between : Closure → Layer | .mk _ _ _ _ b _ => b
def Closure.content : Closure → Option Str | .mk _ _ _ _ _ c => c

def cGet (k : Str) : List (Str × Closure) → Option Closure
  | [] => none
  | (k', v) :: rest => if k' = k then some v else cGet k rest
def cSet (k : Str) (v : Closure) : List (Str × Closure) → List (Str × Closure)
  | [] => [(k, v)]
  | (k', v') :: rest => if k' = k then (k', v) :: rest else (k', v') :: cSet k v rest

structure SState where
  nextId : Nat := 1
  defaults : List (Nat × Str) := []      -- instance ↦ the slot name flagged `default` seen first
  nextRef : Nat := 0
  cap : List (Str × Closure) := []       -- fills found while reading a component body
  path : List Str := []                  -- names of the instances being rendered, outermost first
  steps : Nat := 0
  paths : List (List Str) := []          -- the path of every instance (the rendered structure)
deriving Inhabited

abbrev S := StateT SState (Except Err)

def freshId (env : Env) : S Nat := do
  let s ← get
  if s.nextId > env.maxInst then throw .outOfFuel
  set { s with nextId := s.nextId + 1 }
  pure s.nextId

def compVarsOf (fills : List (Str × Closure)) : Val := .isFilled (fills.map (fun kv => escapeSlotName kv.1))

/-- the key under which a slot-default alias remembers which slot it stands for -/
def refKey : Str := "#ref".toList

def injectSpec (prov : List (Str × Layer)) (key : Str) (dflt : Option Str) : Except Err Val :=
  match prov.find? (fun kv => kv.1 = key) with
  | some kv => .ok (.injected kv.2)
  | none =>
    match dflt with
    | some d => .ok (.str d)
    | none => .error (.keyError "inject")

def dataOf (id : Nat) (prov : List (Str × Layer)) (kw : List (Str × Val)) : List (Str × Src) → Layer → Except Err Layer
  | [], acc => .ok acc
  | (out, src) :: rest, acc =>
    match (match src with
      | .kwarg k => Except.ok (kwGet k kw)
      | .const v => .ok v
      | .inject key dflt => injectSpec prov key dflt
      | .selfId => .ok (.idBox id)
      | .side => .ok (.str [])) with
    | .ok v => dataOf id prov kw rest (setL out v acc)
    | .error e => .error e

/-- bindings made after the first `n` layers, newest last, flattened -/
def betweenOf (n : Nat) (vars : Ctx) : Layer := (vars.drop n).foldl updateL []

mutual
  def sNodes (env : Env) : Nat → List Node → SEnv → S (List Tok)
    | 0, _, _ => throw .outOfFuel
    | _ + 1, [], _ => pure []
    | n + 1, nd :: rest, e => do
      let a ← sNode env n nd e
      let b ← sNodes env n rest e
      pure (a ++ b)

  def sFor (env : Env) : Nat → Str → List Val → Nat → List Node → SEnv → S (List Tok)
    | 0, _, _, _, _, _ => throw .outOfFuel
    | _ + 1, _, [], _, _, _ => pure []
    | n + 1, x, item :: items, i, body, e => do
      let a ← sNodes env n body (e.push (forLayer e.vars x i item))
      let b ← sFor env n x items (i + 1) body e
      pure (a ++ b)

  /-- read a component body: `base` = number of layers at the component tag -/
  def sBody (env : Env) : Nat → Nat → List Node → SEnv → S (List Tok)
    | 0, _, _, _ => throw .outOfFuel
    | _ + 1, _, [], _ => pure []
    | n + 1, base, nd :: rest, e => do
      let a ← (match nd with
        | .fill nameE dataVar defaultVar body => do
          match evalExpr e.vars nameE with
          | .str nm =>
            (match dataVar with
             | some d => if !isIdentifier d then throw (.runtime "fill data") else pure ()
             | none => pure ())
            (match defaultVar with
             | some d => if !isIdentifier d then throw (.runtime "fill default") else pure ()
             | none => pure ())
            if dataVar.isSome && dataVar = defaultVar then throw (.runtime "fill data = default")
            modify (fun s => { s with cap := s.cap ++ [(nm, Closure.mk body dataVar defaultVar e (betweenOf base e.vars) none)] })
            pure []
          | _ => throw (.tse "fill name not a string")
        | .comp .. => pure []
        | .slot .. => pure []
        | .ifn c t el => if truthy (evalExpr e.vars c) then sBody env n base t e else sBody env n base el e
        | .withn x ex body => sBody env n base body (e.push [(x, evalExpr e.vars ex)])
        | .forn x ex body => sBodyFor env n base x (iterVals (evalExpr e.vars ex)) 0 body e
        | .elem tag body => do
          let inner ← sBody env n base body e
          pure ([.opn tag []] ++ inner ++ [.cls tag])
        | .provide _ _ body => sBody env n base body e
        | other => sNode env n other e : S (List Tok))
      let b ← sBody env n base rest e
      pure (a ++ b)

  def sBodyFor (env : Env) : Nat → Nat → Str → List Val → Nat → List Node → SEnv → S (List Tok)
    | 0, _, _, _, _, _, _ => throw .outOfFuel
    | _ + 1, _, _, [], _, _, _ => pure []
    | n + 1, base, x, item :: items, i, body, e => do
      let a ← sBody env n base body (e.push (forLayer e.vars x i item))
      let b ← sBodyFor env n base x items (i + 1) body e
      pure (a ++ b)

  def sNode (env : Env) : Nat → Node → SEnv → S (List Tok)
    | 0, _, _ => throw .outOfFuel
    | n + 1, nd, e => do
      let st ← get
      if st.steps ≥ env.maxSteps then throw .budget
      set { st with steps := st.steps + 1 }
      match nd with
      | .text s => pure [.text s]
      | .out ex =>
        match evalExpr e.vars ex with
        | .slotRef _ (some [[(_, .str k)]]) =>
          -- the slot's own default content, as it renders at the slot
          match e.dflts.find? (fun d => natStr d.1 = k) with
          | some (_, body, senv) => sNodes env n body senv
          | none => pure []
        | v => pure [.text (pyStr v)]
      | .ifn c t el => if truthy (evalExpr e.vars c) then sNodes env n t e else sNodes env n el e
      | .forn x ex body => sFor env n x (iterVals (evalExpr e.vars ex)) 0 body e
      | .withn x ex body => sNodes env n body (e.push [(x, evalExpr e.vars ex)])
      | .elem tag body => do
        let inner ← sNodes env n body e
        pure ([.opn tag []] ++ inner ++ [.cls tag])
      | .provide key kwargs body => do
        let payload := evalKwargs e.vars kwargs
        if !isIdentifier key then throw (.tse "provide key")
        sNodes env n body (.mk e.vars ((key, payload) :: e.prov) e.inst e.dflts)
      | .fill .. => throw (.tse "fill outside component")
      | .slot nameE isDefault isRequired data body => do
        let nameV := evalExpr e.vars nameE
        let slotData := evalKwargs e.vars data
        if slotData.any (fun kv => tooDeep 10 kv.2) then throw .budget
        let inst ← match e.inst with
          | some i => pure i
          | none => throw (.tse "slot outside component")
        let slotName := Djc.Render.slotNameOf nameV
        if isDefault then
          let s ← get
          (match Djc.Render.alGet inst.id s.defaults with
           | some d => if slotName ≠ d then throw (.tse "two default slots") else pure ()
           | none => set { s with defaults := (inst.id, slotName) :: s.defaults })
          if slotName ≠ defaultKey && (cGet slotName inst.fills).isSome && (cGet defaultKey inst.fills).isSome then
            throw (.tse "slot filled twice")
        if !hashable nameV then throw (.typeError "unhashable slot name")
        let fillName := if isDefault && (cGet defaultKey inst.fills).isSome then defaultKey else slotName
        match cGet fillName inst.fills with
        | none =>
          if isRequired then throw (.tse "required slot not filled")
          else sNodes env n body e
        | some f =>
          match f.content with
          | some s => pure [.text s]
          | none => do
            let s ← get
            let k := s.nextRef
            set { s with nextRef := k + 1 }
            let owner := f.lex.inst
            let aliases : Layer := []
            let aliases := match owner with
              | some o => setL compVarsKey (compVarsOf o.fills) aliases
              | none => aliases
            let aliases := match f.dataVar with
              | some d => setL d (.dict slotData) aliases
              | none => aliases
            let aliases := match f.defaultVar with
              | some d => setL d (.slotRef [] (some [[(refKey, .str (natStr k))]])) aliases
              | none => aliases
            let vars : Ctx :=
              if env.isolated || inst.lexical then f.lex.vars ++ [aliases]
              else insertAt inst.dataIdx f.between e.vars ++ [aliases]
            sNodes env n f.nodes (.mk vars e.prov owner ((k, body, e) :: f.lex.dflts ++ e.dflts))
      | .comp name kwargs only _ body => do
        let kw := evalKwargs e.vars kwargs
        -- the dynamic component is transparent: `is=` names the component
        let (name, kw) ← (if isDynName name then
            match lookupL isKey kw with
            | some (.str inner) =>
              if inner.isEmpty then throw (.typeError "dynamic: missing is") else pure (inner, kw.filter (fun kv => kv.1 ≠ isKey))
            | _ => throw (.typeError "dynamic: missing is")
          else pure (name, kw) : S (Str × List (Str × Val)))
        let d ← match findDef env name with
          | some d => pure d
          | none => throw .notRegistered
        -- fills
        let saved := (← get).cap
        modify (fun s => { s with cap := [] })
        let content ← if body.isEmpty then pure [] else sBody env n e.vars.length body e
        let captured := (← get).cap
        modify (fun s => { s with cap := saved })
        let fills ← (if captured.isEmpty then
            let blank := body.all (fun nd => match nd with | .text s => isBlank s | _ => false)
            if blank then pure []
            else pure [(defaultKey, Closure.mk body none none e [] none)]
          else do
            let txt := content.all (fun t => match t with | .text s => isBlank s | _ => false)
            if !txt then throw (.tse "fill alongside other content")
            if !(captured.map (·.1)).Nodup then throw (.tse "duplicate fill")
            pure (captured.foldl (fun acc c => cSet c.1 c.2 acc) []) : S (List (Str × Closure)))
        let id ← freshId env
        let data ← match dataOf id e.prov kw d.data [] with
          | .ok l => pure l
          | .error err => throw err
        let lexical := only || env.isolated
        let base : Ctx := if lexical then [[]] else e.vars
        let vars := base ++ [data] ++ [[(compVarsKey, compVarsOf fills)]]
        let saved := (← get).path
        modify (fun s => { s with path := saved ++ [name], paths := s.paths ++ [saved ++ [name]] })
        let out ← sNodes env n d.template (.mk vars e.prov (some (.mk id fills base.length lexical)) [])
        modify (fun s => { s with path := saved })
        pure (.marker name id :: addRootAttrs [idAttr id] out)
      | _ => throw (.runtime "composition tag: flatten the family first")
end

/-- `Component.render(context, kwargs, slots)` on the specification side -/
def sRenderComp (env : Env) (fuel : Nat) (name : Str) (kw : List (Str × Val)) (slots : List (Str × Str)) (vars : Ctx) :
    S (List Tok) := do
  let d ← match findDef env name with
    | some d => pure d
    | none => throw .notRegistered
  let e : SEnv := .mk vars [] none []
  let fills := slots.map (fun kv => (kv.1, Closure.mk [] none none e [] (some kv.2)))
  let id ← freshId env
  let data ← match dataOf id [] kw d.data [] with
    | .ok l => pure l
    | .error err => throw err
  let base : Ctx := if env.isolated then [[]] else vars
  let vars' := base ++ [data] ++ [[(compVarsKey, compVarsOf fills)]]
  let out ← sNodes env fuel d.template (.mk vars' [] (some (.mk id fills base.length env.isolated)) [])
  pure (.marker name id :: addRootAttrs [idAttr id] out)

end Djc.SpecRender
