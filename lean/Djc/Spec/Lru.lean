/-
  Specification side of C18: what "a dictionary" and "least recently used" mean for a
  history of operations, written without reference to the cache's data structure.
-/
import Djc.Model.Lru
namespace Djc.Spec.Lru
open Djc.Model.Lru

variable {κ ν : Type} [DecidableEq κ]

/-- Does the operation *use* key `k` (a `set` or a `get`; `has` does not refresh)? -/
def touches (k : κ) : Op κ ν → Bool
  | .get k' => decide (k' = k)
  | .set k' _ => decide (k' = k)
  | _ => false

/-- On the reversed history (latest op first): number of operations since the last use of `k`. -/
def ageRev (k : κ) : List (Op κ ν) → Option Nat
  | [] => none
  | op :: rest => if touches k op then some 0 else (ageRev k rest).map (· + 1)

/-- `age h k = some n`: the last use of `k` in history `h` was `n` operations before the end. -/
def age (h : List (Op κ ν)) (k : κ) : Option Nat := ageRev k h.reverse

/-- Plain-dictionary semantics on the reversed history: the value of the latest `set k`
after the latest `clear`. -/
def dictRev (k : κ) : List (Op κ ν) → Option ν
  | [] => none
  | .set k' v :: rest => if k' = k then some v else dictRev k rest
  | .clear :: _ => none
  | .get _ :: rest => dictRev k rest
  | .has _ :: rest => dictRev k rest

/-- What a plain `dict` driven by the same `set` / `clear` calls would hold for `k`. -/
def dictGet (h : List (Op κ ν)) (k : κ) : Option ν := dictRev k h.reverse

/-- `a` was used strictly more recently than `b`. -/
def MoreRecent (h : List (Op κ ν)) (a b : κ) : Prop :=
  ∃ i j, age h a = some i ∧ age h b = some j ∧ i < j

/-- Cache operations performed by a sequence of `cached_template` calls. -/
def tOps (s : TState κ) : List κ → List (Op κ (Tmpl κ))
  | [] => []
  | k :: ks =>
    let r := cachedTemplate s k
    (match (cget s.cache k).2 with
      | some _ => [Op.get k]
      | none => [Op.get k, Op.set k { ident := s.next, key := k }]) ++ tOps r.1 ks

/-- Invariant of the template cache: an entry stored under key `k` was compiled from `k`, by an
earlier compilation. -/
def TInv (s : TState κ) : Prop :=
  ∀ k t, lookup k s.cache.items = some t → t.key = k ∧ t.ident < s.next

end Djc.Spec.Lru
