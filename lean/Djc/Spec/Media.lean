/-
  Spec side of C16: which files belong to a component class.
  `HasFile`  — the least fixed point the implementation's recursion computes (own files of the
               *effective* Media plus, transitively, the bases *it* selects);
  `SpecFile` — the property's reading (the class's *own* Media plus, transitively, the bases
               selected by the class's own `extend`; a class without own Media selects all bases).
-/
import Djc.Model.Media
namespace Djc.Spec.Media
open Djc.Model.Media

inductive HasFile (H : Hier) : Nat → File → Prop where
  | own {i : Nat} {f : File} : f ∈ ownFiles H i → HasFile H i f
  | inh {i b : Nat} {f : File} : b ∈ selected H i → HasFile H b f → HasFile H i f

def declFiles (H : Hier) (i : Nat) : List File :=
  match H[i]? with
  | none => []
  | some c =>
    match c.own with
    | none => []
    | some md => md.files

def specSelected (H : Hier) (i : Nat) : List Nat :=
  match H[i]? with
  | none => []
  | some c =>
    match c.own with
    | none => c.bases
    | some md =>
      match md.extend with
      | .all => c.bases
      | .none => []
      | .only ids => ids

inductive SpecFile (H : Hier) : Nat → File → Prop where
  | own {i : Nat} {f : File} : f ∈ declFiles H i → SpecFile H i f
  | inh {i b : Nat} {f : File} : b ∈ specSelected H i → SpecFile H b f → SpecFile H i f

/-- classes only refer to classes defined before them -/
def WF (H : Hier) : Prop :=
  (∀ i b, b ∈ selected H i → b < i) ∧ (∀ i b, b ∈ basesOf H i → b < i)

/-- side condition on the MRO data (checked by the harness on every generated hierarchy): a class
with its own Media is its own effective owner; otherwise the owner is inherited from one of the
direct bases (C3 keeps each base's linearisation in order). -/
def EffOK (H : Hier) : Prop :=
  ∀ (i : Nat) (c : ClsDecl), H[i]? = some c →
    (∀ md : MediaDecl, c.own = some md → c.eff = some i) ∧
    (c.own = none → c.eff = none ∨
      ∃ b, b ∈ c.bases ∧ ∃ cb : ClsDecl, H[b]? = some cb ∧ cb.eff = c.eff) ∧
    (∀ m, c.eff = some m → ∃ (d : ClsDecl) (md : MediaDecl), H[m]? = some d ∧ d.own = some md)

/-- the hypothesis under which implementation and property agree; its complement is the known
finding "a class without own Media inherits its nearest base's `extend`". -/
def Hyp (H : Hier) : Prop :=
  ∀ (i : Nat) (c : ClsDecl) (m : Nat) (d : ClsDecl) (md : MediaDecl),
    H[i]? = some c → c.own = none → c.eff = some m → H[m]? = some d →
    d.own = some md → md.extend = Ext.all

/-- all classes of a hierarchy agree with the property -/
def C16_full : Prop :=
  ∀ (H : Hier), WF H → EffOK H → ∀ i f, HasFile H i f ↔ SpecFile H i f

end Djc.Spec.Media
