import Djc.Model.Lru
import Djc.Spec.Lru
import Djc.Proofs.Lru
import Djc.Props.C18
import Djc.Generated
